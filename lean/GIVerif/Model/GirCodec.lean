/-
  C07 model: the GIR reader/writer pair at the XML TREE level (element, ordered attribute
  list, children, text; the text level — escaping, wrapping, indentation — is C20's).

  Mirrors giscanner/girwriter.py (`GIRWriter._write_type`, `_write_parameter`, `_write_return_type`,
  `_write_parameters`, `_write_callable`, `_write_function_common`, `_write_vfunc`, `_write_callback`,
  `_write_generic`, `_append_version`, `_append_node_generic`, `_append_throws`, `_type_to_name`)
  and giscanner/girparser.py (`GIRParser._parse_type`, `_parse_type_simple`, `_parse_type_array_length`,
  `_parse_parameter`, `_parse_function_common`, `_parse_generic_attribs`) and the pieces of
  giscanner/ast.py they go through (`Namespace.type_from_name`, `Parameter.__init__` (allow_none
  folding), `Array.__init__` (array_type check), `Callable.get_parameter_index`,
  `Node.get_main_position`).  One Lean definition per Python function, same branch order.

  Python values: `None`-able strings are `Option Str`; truthiness (`if x:`) is `truthy`; partial
  operations (`attrib['k']`, `int(s)`, `assert`, `l[i]`, `get_parameter_index`) are `Except Err`.
  Attribute NAMES and element names are Lean `String` literals (they are only ever compared), attribute
  VALUES and text are `Str = List Char`.  `XMLWriter` drops attributes whose value is `None`
  (`collect_attributes`): `compact`.
  File names are taken as already relative to the source roots (`_get_relative_path` is the
  identity for the passthrough writer, which has no roots).
-/
import GIVerif.Py.Str
import GIVerif.Gen.TypeNames
import GIVerif.Gen.GirReaderState

namespace GIVerif.GirCodec
open GIVerif.Py

/-! ### XML trees -/

inductive Xml where
  | elem (tag : String) (attrs : List (String × Str)) (kids : List Xml) (text : Option Str)
  deriving Repr, Inhabited

abbrev Attrs := List (String × Str)

def Xml.tag : Xml → String
  | .elem t _ _ _ => t
def Xml.attrs : Xml → Attrs
  | .elem _ a _ _ => a
def Xml.kids : Xml → List Xml
  | .elem _ _ k _ => k
def Xml.text : Xml → Option Str
  | .elem _ _ _ t => t

inductive Err where
  | keyError (k : String)      -- `attrib['k']` on a missing attribute
  | valueError                 -- `int(s)`, `get_parameter_index`, "node has no return-value"
  | assertion                  -- `assert ...`
  | attributeError             -- `None.filename` (doc without doc_position)
  | indexError
  deriving Repr, DecidableEq, Inhabited

/-- Python truthiness of an optional string -/
def truthy : Option Str → Bool
  | some (_ :: _) => true
  | _ => false

/-- `x if x else None` -/
def keepTruthy (o : Option Str) : Option Str := if truthy o then o else none

/-- `dict.get(k)` on the attribute dictionary (first entry; expat rejects duplicates) -/
def attrGet (k : String) : Attrs → Option Str
  | [] => none
  | (k', v) :: rest => if k = k' then some v else attrGet k rest

/-- `XMLWriter` skips attributes whose value is `None` -/
def compact : List (String × Option Str) → Attrs
  | [] => []
  | (k, some v) :: rest => (k, v) :: compact rest
  | (_, none) :: rest => compact rest

/-- first entry with this key that survives `compact` -/
def lookupSome (k : String) : List (String × Option Str) → Option Str
  | [] => none
  | (k', o) :: rest => if k = k' then o.or (lookupSome k rest) else lookupSome k rest

def optIf (c : Bool) (v : Str) : Option Str := if c then some v else none

/-- `node.find(name)`: first child with that tag -/
def findTag (t : String) : List Xml → Option Xml
  | [] => none
  | x :: xs => if x.tag = t then some x else findTag t xs

/-- `node.findall(name)` / `_find_children` -/
def findAllTag (t : String) (l : List Xml) : List Xml := l.filter (fun x => x.tag = t)

/-! ### integers as text: `'%d' % n`, `str(n)` and `int(s)` -/

def digitChar (d : Nat) : Char := Char.ofNat (48 + d)

def showNatAux : Nat → Nat → Str → Str
  | 0, _, acc => acc
  | fuel + 1, n, acc =>
    if n < 10 then digitChar n :: acc else showNatAux fuel (n / 10) (digitChar (n % 10) :: acc)

/-- decimal digits of `n` (fuel `n + 1` always suffices) -/
def showNat (n : Nat) : Str := showNatAux (n + 1) n []

def showInt : Int → Str
  | .ofNat n => showNat n
  | .negSucc n => '-' :: showNat (n + 1)

def digitVal (c : Char) : Option Nat :=
  if '0' ≤ c ∧ c ≤ '9' then some (c.toNat - 48) else none

def parseDigits : Str → Nat → Option Nat
  | [], acc => some acc
  | c :: cs, acc => match digitVal c with
    | some d => parseDigits cs (acc * 10 + d)
    | none => none

/-- `int(s)` on ASCII decimal literals with an optional sign (the forms Python accepts beyond that —
    surrounding whitespace, `_` separators, non-ASCII digits — are not modelled: `ValueError`) -/
def parseInt : Str → Except Err Int
  | '-' :: (c :: cs) => match parseDigits (c :: cs) 0 with
    | some n => .ok (- (n : Int))
    | none => .error .valueError
  | '+' :: (c :: cs) => match parseDigits (c :: cs) 0 with
    | some n => .ok (n : Int)
    | none => .error .valueError
  | c :: cs => match parseDigits (c :: cs) 0 with
    | some n => .ok (n : Int)
    | none => .error .valueError
  | [] => .error .valueError

/-! ### types -/

inductive Target where
  | none
  | giname (s : Str)
  | fundamental (s : Str)
  | foreign (s : Str)
  deriving Repr, DecidableEq, Inhabited

/-- `ast.Type` and its subclasses, with the fields the writer looks at.  `ctype` / `cctype` are
    `Type.ctype` / `Type.complete_ctype`; `arrayType = none` is `Array.C`. -/
inductive Ty where
  | unknown
  | plain (ctype cctype : Option Str) (target : Target)
  | varargs
  | array (ctype cctype : Option Str) (arrayType : Option Str) (zeroTerminated : Bool)
      (size : Option Int) (length : Option Str) (elem : Ty)
  | list (ctype cctype : Option Str) (name : Option Str) (elem : Ty)
  | map (ctype cctype : Option Str) (key value : Ty)
  deriving Repr, DecidableEq, Inhabited

def sList : Str := "GLib.List".toList
def sSList : Str := "GLib.SList".toList
def sHash : Str := "GLib.HashTable".toList
def sIn : Str := "in".toList
def sOut : Str := "out".toList
def sOne : Str := "1".toList
def sZero : Str := "0".toList
def sGpointer : Str := "gpointer".toList

/-- `name in ast.type_names` (table regenerated from ast.py) -/
def inTypeNames (n : Str) : Bool := Gen.typeNames.any (fun e => e.1.toList == n)

def validArrayTypes : List Str := ["GLib.Array".toList, "GLib.ByteArray".toList, "GLib.PtrArray".toList]

/-- `ast.TYPE_ANY` -/
def tyAny : Ty := .plain (some sGpointer) none (.fundamental sGpointer)

/-- `GIRWriter._type_to_name` -/
def typeToName (ns giname : Str) : Str :=
  if startsWith giname (ns ++ ['.']) then giname.drop (ns.length + 1) else giname

/-- `Namespace.type_from_name(name, ctype)` -/
def typeFromName (ns name : Str) (ctype : Option Str) : Ty :=
  if inTypeNames name then .plain ctype none (.fundamental name)
  else if name.contains '.' then .plain ctype none (.giname name)
  else .plain ctype none (.giname (ns ++ '.' :: name))

/-- the `c:type` attribute: `complete_ctype`, else `ctype`, else none -/
def effCtype (ctype cctype : Option Str) : Option Str :=
  if truthy cctype then cctype else if truthy ctype then ctype else none

/-- `Callable.get_parameter_index` / `Compound.get_field_index` -/
def getIndexAux (n : Str) : List (Option Str) → Nat → Option Nat
  | [], _ => none
  | a :: as, i => if a = some n then some i else getIndexAux n as (i + 1)

def getIndex (names : List (Option Str)) (n : Str) : Except Err Nat :=
  match getIndexAux n names 0 with
  | some i => .ok i
  | none => .error .valueError

/-- the `length` attribute of an array: index of the named parameter (field) of the parent;
    `assert False` without a callable / compound parent -/
def lengthAttr (parent : Option (List (Option Str))) : Option Str → Except Err (Option Str)
  | none => .ok none
  | some l => match parent with
    | some names => match getIndex names l with
      | .ok i => .ok (some (showNat i))
      | .error e => .error e
    | none => .error .assertion

/-- we insert an explicit 'zero-terminated' attribute when it is false, or when it would not be
    implied by the absence of length and fixed-size -/
def ztAttr (zt : Bool) (size : Option Int) (length : Option Str) : Option Str :=
  if !zt then some sZero else if size.isSome || length.isSome then some sOne else none

def plainFirst (ns : Str) : Target → (String × Option Str)
  | .giname g => if truthy (some g) then ("name", some (typeToName ns g)) else ("name", none)
  | .fundamental f => ("name", keepTruthy (some f))
  | .foreign f => if truthy (some f) then ("foreign", some sOne) else ("foreign", none)
  | .none => ("name", none)

/-- `GIRWriter._write_type(ntype, parent=...)`; `parent` = the argument (field) names of the
    enclosing callable (compound), or none when there is no such parent (`assert False`) -/
def writeType (ns : Str) : Option (List (Option Str)) → Ty → Except Err Xml
  | _, .unknown => .ok (.elem "type" [] [] none)
  | _, .varargs => .ok (.elem "varargs" [] [] none)
  | parent, .array ctype cctype arrayType zt size length elem =>
    match lengthAttr parent length with
    | .error e => .error e
    | .ok len => match writeType ns none elem with
      | .error e => .error e
      | .ok e => .ok (.elem "array" (compact [("length", len), ("zero-terminated", ztAttr zt size length),
          ("name", arrayType), ("c:type", effCtype ctype cctype), ("fixed-size", size.map showInt)]) [e] none)
  | _, .list ctype cctype name elem =>
    match writeType ns none elem with
    | .error e => .error e
    | .ok e => .ok (.elem "type" (compact [("name", keepTruthy name), ("c:type", effCtype ctype cctype)]) [e] none)
  | _, .map ctype cctype key value =>
    match writeType ns none key with
    | .error e => .error e
    | .ok k => match writeType ns none value with
      | .error e => .error e
      | .ok v => .ok (.elem "type" (compact [("name", some sHash), ("c:type", effCtype ctype cctype)]) [k, v] none)
  | _, .plain ctype cctype target =>
    .ok (.elem "type" (compact [plainFirst ns target, ("c:type", effCtype ctype cctype)]) [] none)

/-- `GIRParser._parse_type(node)`: the child to parse is chosen by tag in the order callback,
    array, varargs, type (`node.find` for each), not by document order -/
def selectType (l : List (String × Except Err Ty)) : Except Err Ty :=
  match l.find? (fun p => p.1 = "callback") with
  | some p => p.2
  | none => match l.find? (fun p => p.1 = "array") with
    | some p => p.2
    | none => match l.find? (fun p => p.1 = "varargs") with
      | some p => p.2
      | none => match l.find? (fun p => p.1 = "type") with
        | some p => p.2
        | none => .error .assertion

/-- the names `_find_first_child` looks for under a GLib.List (the source spells one of them
    `'    varargs'`, so a `<varargs/>` child is not recognised) -/
def listChildTags : List String := ["callback", "array", "    varargs", "type"]

/-- the element names `_parse_type` accepts; the children collected under a GLib.HashTable -/
def typeChildTags : List String := ["callback", "array", "varargs", "type"]

def seqExcept : List (Except Err Ty) → Except Err (List Ty)
  | [] => .ok []
  | .ok t :: rest => match seqExcept rest with
    | .ok ts => .ok (t :: ts)
    | .error e => .error e
  | .error e :: _ => .error e

/-- the body of `GIRParser._parse_type_simple(typenode)`, given for every child its tag and the
    (not yet demanded) result of parsing it -/
def parseTypeNode (ns : Str) (tag : String) (attrs : Attrs) (kidRes : List (String × Except Err Ty)) :
    Except Err Ty :=
  if tag = "callback" then
    match attrGet "name" attrs with
    | none => .error (.keyError "name")
    | some n => match typeFromName ns n none with
      | .plain _ cc t => .ok (.plain (attrGet "c:type" attrs) cc t)
      | t => .ok t
  else if tag = "array" then
    match selectType kidRes with
    | .error e => .error e
    | .ok elem =>
      let an := attrGet "name" attrs
      let at? : Except Err (Option Str) :=
        if an = none ∨ an = some "<c>".toList then .ok none
        else if validArrayTypes.contains (an.getD []) then .ok an else .error .assertion
      match at? with
      | .error e => .error e
      | .ok arrayType =>
        let zt := !(attrGet "zero-terminated" attrs == some sZero)
        match (if truthy (attrGet "fixed-size" attrs) then
                 (parseInt ((attrGet "fixed-size" attrs).getD [])).map some else .ok none) with
        | .error e => .error e
        | .ok size => .ok (.array (attrGet "c:type" attrs) none arrayType zt size none elem)
  else if tag = "varargs" then .ok .varargs
  else if tag = "type" then
    let ctype := attrGet "c:type" attrs
    match attrGet "name" attrs with
    | none => match ctype with
      | none => .ok .unknown
      | some c => .ok (.plain (some c) none .none)
    | some name =>
      if name = sList ∨ name = sSList then
        if kidRes.any (fun k => listChildTags.contains k.1) then
          match selectType kidRes with
          | .error e => .error e
          | .ok elem => .ok (.list ctype none (some name) elem)
        else .ok (.list ctype none (some name) tyAny)
      else if name = sHash then
        -- `[child for child in typenode if child.tag in (callback, array, varargs, type)]`, in document order
        match seqExcept ((kidRes.filter (fun p => typeChildTags.contains p.1)).map (·.2)) with
        | .error e => .error e
        | .ok subs => .ok (.map ctype none (subs.getD 0 tyAny) (subs.getD 1 tyAny))
      else .ok (typeFromName ns name ctype)
  else .error .assertion

mutual
/-- `GIRParser._parse_type_simple(typenode)` -/
def parseTypeSimple (ns : Str) : Xml → Except Err Ty
  | .elem tag attrs kids _ => parseTypeNode ns tag attrs (parseKids ns kids)
/-- every child, with its tag and the (not yet demanded) result of parsing it -/
def parseKids (ns : Str) : List Xml → List (String × Except Err Ty)
  | [] => []
  | x :: xs => (x.tag, parseTypeSimple ns x) :: parseKids ns xs
end

/-- `GIRParser._parse_type(node)` on the children of `node` -/
def parseType (ns : Str) (kids : List Xml) : Except Err Ty := selectType (parseKids ns kids)

/-- Python list indexing with a possibly negative index -/
def pyIndex (l : List (Option Str)) (i : Int) : Except Err (Option Str) :=
  if 0 ≤ i then
    match l[i.toNat]? with
    | some v => .ok v
    | none => .error .indexError
  else if (l.length : Int) + i ≥ 0 then
    match l[((l.length : Int) + i).toNat]? with
    | some v => .ok v
    | none => .error .indexError
  else .error .indexError

/-- `idx = int(s); assert idx < len(siblings); siblings[idx].argname` -/
def resolveIndex (siblings : List (Option Str)) (s : Str) : Except Err (Option Str) :=
  match parseInt s with
  | .error e => .error e
  | .ok i => if i < (siblings.length : Int) then pyIndex siblings i else .error .assertion

/-- `GIRParser._parse_type_array_length(siblings, node, typeval)` -/
def parseTypeArrayLength (siblings : List (Option Str)) (kids : List Xml) (t : Ty) : Except Err Ty :=
  match findTag "array" kids with
  | none => .ok t
  | some typenode =>
    match attrGet "length" typenode.attrs with
    | none => .ok t
    | some s => match resolveIndex siblings s with
      | .error e => .error e
      | .ok nm => match t with
        | .array c cc a z sz _ e => .ok (.array c cc a z sz nm e)
        | t => .ok t

/-! ### what `_write_generic` / `_parse_generic_attribs` handle -/

/-- `message.Position` of a doc comment as the writer sees it (`str(line)`, `column` if truthy) -/
structure DocPos where
  filename : Str
  line : Option Str
  column : Option Str
  deriving Repr, DecidableEq, Inhabited

structure SrcPos where
  filename : Str
  line : Int
  column : Option Int
  deriving Repr, DecidableEq, Inhabited

structure Docs where
  attributes : List (Option Str × Option Str) := []
  doc : Option Str := none
  docPos : Option DocPos := none
  versionDoc : Option Str := none
  deprecatedDoc : Option Str := none
  stabilityDoc : Option Str := none
  /-- `get_main_position()`; none for objects that are not `ast.Node` (parameters, return values) -/
  mainPos : Option SrcPos := none
  deriving Repr, DecidableEq, Inhabited

def sPreserve : Str := "preserve".toList
def sUnknownFile : Str := "<unknown>".toList
def sNone : Str := "None".toList

def writeAttribute (kv : Option Str × Option Str) : Xml :=
  .elem "attribute" (compact [("name", kv.1), ("value", kv.2)]) [] none

def optKid : Option Xml → List Xml
  | some x => [x]
  | none => []

def docTextKid (tag : String) (o : Option Str) : List Xml :=
  if truthy o then [.elem tag [("xml:space", sPreserve)] [] o] else []

/-- the `<doc>` child: `if node.doc: ... node.doc_position.filename ...` -/
def docKid (d : Docs) : Except Err (List Xml) :=
  if truthy d.doc then
    match d.docPos with
    | none => .error .attributeError
    | some p => .ok [Xml.elem "doc" (compact [("xml:space", some sPreserve), ("filename", some p.filename),
        ("line", some (p.line.getD sNone)), ("column", keepTruthy p.column)]) [] d.doc]
  else .ok []

def posColumn : Option Int → Option Str
  | some c => if c = 0 then none else some (showInt c)
  | none => none

/-- the `<source-position>` child -/
def posKid (d : Docs) : List Xml :=
  match d.mainPos with
  | none => []
  | some p => [.elem "source-position" (compact [("filename", some p.filename), ("line", some (showInt p.line)),
      ("column", posColumn p.column)]) [] none]

/-- `GIRWriter._write_generic(node)` -/
def writeDocs (d : Docs) : Except Err (List Xml) :=
  match docKid d with
  | .error e => .error e
  | .ok dk => .ok (d.attributes.map writeAttribute ++ (dk ++ (docTextKid "doc-version" d.versionDoc
      ++ (docTextKid "doc-deprecated" d.deprecatedDoc ++ (docTextKid "doc-stability" d.stabilityDoc ++ posKid d)))))

/-- `attributes_[name] = value` on an OrderedDict -/
def dictSet (k : Option Str) (v : Option Str) : List (Option Str × Option Str) → List (Option Str × Option Str)
  | [] => [(k, v)]
  | (k', v') :: rest => if k' = k then (k', v) :: rest else (k', v') :: dictSet k v rest

def textOf (tag : String) (kids : List Xml) : Option Str :=
  match findTag tag kids with
  | some x => keepTruthy x.text
  | none => none

def strLt : Str → Str → Bool
  | [], [] => false
  | [], _ :: _ => true
  | _ :: _, [] => false
  | a :: as, b :: bs => if a.toNat < b.toNat then true else if b.toNat < a.toNat then false else strLt as bs

/-- the sort key of `Node.get_main_position`: (filename, line, column or 0) -/
def posLt (a b : SrcPos) : Bool :=
  if strLt a.filename b.filename then true
  else if strLt b.filename a.filename then false
  else if a.line < b.line then true
  else if b.line < a.line then false
  else a.column.getD 0 < b.column.getD 0

def minPos : List SrcPos → Option SrcPos
  | [] => none
  | p :: ps => match minPos ps with
    | none => some p
    | some q => if posLt q p then some q else some p

def parseSrcPos (x : Xml) : Except Err SrcPos :=
  match attrGet "filename" x.attrs with
  | none => .error (.keyError "filename")
  | some f => match attrGet "line" x.attrs with
    | none => .error (.keyError "line")
    | some l => match parseInt l with
      | .error e => .error e
      | .ok li => match attrGet "column" x.attrs with
        | none => .ok ⟨f, li, none⟩
        | some c => match parseInt c with
          | .error e => .error e
          | .ok ci => .ok ⟨f, li, some ci⟩

def seqPos : List Xml → Except Err (List SrcPos)
  | [] => .ok []
  | x :: xs => match parseSrcPos x with
    | .error e => .error e
    | .ok p => match seqPos xs with
      | .error e => .error e
      | .ok ps => .ok (p :: ps)

/-- the children-reading part of `GIRParser._parse_generic_attribs(node, obj)`;
    `isNode` = `hasattr(obj, 'add_file_position')` -/
def parseDocs (isNode : Bool) (kids : List Xml) : Except Err Docs :=
  let docEl := findTag "doc" kids
  let doc := match docEl with
    | some x => keepTruthy x.text
    | none => none
  let docPos := match docEl with
    | some x => if truthy x.text then
        some (⟨(attrGet "filename" x.attrs).getD sUnknownFile, attrGet "line" x.attrs, attrGet "column" x.attrs⟩ : DocPos)
      else none
    | none => none
  let attributes := (findAllTag "attribute" kids).foldl
    (fun acc a => dictSet (attrGet "name" a.attrs) (attrGet "value" a.attrs) acc) []
  match (if isNode then seqPos (findAllTag "source-position" kids) else .ok []) with
  | .error e => .error e
  | .ok ps => .ok { attributes := attributes, doc := doc, docPos := docPos,
                    versionDoc := textOf "doc-version" kids, deprecatedDoc := textOf "doc-deprecated" kids,
                    stabilityDoc := textOf "doc-stability" kids, mainPos := minPos ps }

/-- `skip = attrib.get(k); if skip: try: int(skip) > 0 except ValueError: False` -/
def parseFlag (dflt : Bool) (o : Option Str) : Bool :=
  if truthy o then
    match parseInt (o.getD []) with
    | .ok i => decide (i > 0)
    | .error _ => false
  else dflt

/-! ### parameters and return values -/

structure Param where
  argname : Option Str
  ty : Ty
  direction : Option Str
  transfer : Option Str
  nullable : Bool
  notNullable : Bool
  optional : Bool
  scope : Option Str
  callerAllocates : Bool
  closureName : Option Str
  destroyName : Option Str
  skip : Bool
  docs : Docs
  deriving Repr, DecidableEq, Inhabited

structure Return where
  ty : Ty
  transfer : Option Str
  nullable : Bool
  notNullable : Bool
  skip : Bool
  docs : Docs
  deriving Repr, DecidableEq, Inhabited

def optIndex (names : List (Option Str)) : Option Str → Except Err (Option Str)
  | none => .ok none
  | some n => match getIndex names n with
    | .ok i => .ok (some (showNat i))
    | .error e => .error e

/-- `GIRWriter._write_parameter(parent, parameter, nodename)`; `names` = `parent.parameters`' argnames -/
def writeParam (ns : Str) (names : List (Option Str)) (nodename : String) (p : Param) : Except Err Xml := do
  let nonIn : Bool := p.direction.isSome && p.direction != some sIn
  let isOut : Bool := p.direction == some sOut
  let nul : Bool := p.nullable && !p.notNullable
  let closure ← optIndex names p.closureName
  let destroy ← optIndex names p.destroyName
  let dk ← writeDocs p.docs
  let t ← writeType ns (some names) p.ty
  pure (.elem nodename (compact [
      ("name", p.argname),
      ("direction", if nonIn then p.direction else none),
      ("caller-allocates", optIf nonIn (if p.callerAllocates then sOne else sZero)),
      ("transfer-ownership", keepTruthy p.transfer),
      ("nullable", optIf nul sOne),
      ("allow-none", optIf (nul && !isOut) sOne),
      ("optional", optIf p.optional sOne),
      ("allow-none", optIf (p.optional && isOut) sOne),
      ("scope", keepTruthy p.scope),
      ("closure", closure),
      ("destroy", destroy),
      ("skip", optIf p.skip sOne)]) (dk ++ [t]) none)

/-- `GIRParser._parse_parameter(node)` (closure / destroy / array length are resolved by the caller) -/
def parseParam (ns : Str) (x : Xml) : Except Err Param :=
  match parseType ns x.kids with
  | .error e => .error e
  | .ok ty =>
    let a := x.attrs
    let direction : Str := if truthy (attrGet "direction" a) then (attrGet "direction" a).getD [] else sIn
    let allowNone := attrGet "allow-none" a == some sOne
    let nullable0 := attrGet "nullable" a == some sOne
    let optional0 := attrGet "optional" a == some sOne
    -- ast.Parameter.__init__: allow_none means optional for out parameters, nullable otherwise
    let optional := if allowNone && direction == sOut then true else optional0
    let nullable := if allowNone && !(direction == sOut) then true else nullable0
    match parseDocs false x.kids with
    | .error e => .error e
    | .ok docs => .ok {
        argname := attrGet "name" a, ty := ty, direction := some direction,
        transfer := attrGet "transfer-ownership" a, nullable := nullable, notNullable := false,
        optional := optional, scope := attrGet "scope" a,
        callerAllocates := attrGet "caller-allocates" a == some sOne,
        closureName := none, destroyName := none, skip := parseFlag false (attrGet "skip" a), docs := docs }

/-- `ast.PARAM_TRANSFER_NONE` -/
def sTransferNone : Str := "none".toList

/-- the `transfer-ownership` attribute of `<return-value>`: `return_.transfer` when truthy, else
    `PARAM_TRANSFER_NONE` for a skipped return value (the attribute is mandatory in the GIR), else absent -/
def returnTransfer (r : Return) : Option Str :=
  if truthy r.transfer then r.transfer else optIf r.skip sTransferNone

/-- `GIRWriter._write_return_type(return_, parent)` -/
def writeReturn (ns : Str) (names : List (Option Str)) (r : Return) : Except Err Xml := do
  let dk ← writeDocs r.docs
  let t ← writeType ns (some names) r.ty
  pure (.elem "return-value" (compact [
      ("transfer-ownership", returnTransfer r),
      ("skip", optIf r.skip sOne),
      ("nullable", optIf (r.nullable && !r.notNullable) sOne)]) (dk ++ [t]) none)

/-- the return-value part of `_parse_function_common` (array length resolved by the caller) -/
def parseReturn (ns : Str) (x : Xml) : Except Err Return :=
  match parseType ns x.kids with
  | .error e => .error e
  | .ok ty =>
    match parseDocs false x.kids with
    | .error e => .error e
    | .ok docs => .ok {
        ty := ty, transfer := attrGet "transfer-ownership" x.attrs,
        nullable := attrGet "nullable" x.attrs == some sOne, notNullable := false,
        skip := parseFlag false (attrGet "skip" x.attrs), docs := docs }

/-! ### callables: everything written through `GIRWriter._write_callable` -/

/-- which `ast` class the reader instantiates (`klass` of `_parse_function_common`) -/
inductive Klass where
  | function | callback | vfunction | signal
  deriving Repr, DecidableEq, Inhabited

structure Callable where
  klass : Klass
  /-- element name: function, function-inline, method, method-inline, constructor (Function),
      virtual-method (VFunction), callback (Callback), glib:signal (Signal) -/
  tag : String
  name : Str
  retval : Return
  params : List Param
  instanceParam : Option Param
  throws : Bool
  version : Option Str
  skip : Bool
  introspectable : Bool
  deprecated : Option Str
  stability : Option Str
  docs : Docs
  finishFunc : Option Str
  syncFunc : Option Str
  asyncFunc : Option Str
  symbol : Option Str        -- Function.symbol        (c:identifier)
  shadowedBy : Option Str
  shadows : Option Str
  movedTo : Option Str
  setProperty : Option Str
  getProperty : Option Str
  invoker : Option Str       -- VFunction.invoker
  ctype : Option Str         -- Callback.ctype
  when : Option Str := none  -- Signal.when, no_recurse, detailed, action, no_hooks, emitter
  noRecurse : Bool := false
  detailed : Bool := false
  action : Bool := false
  noHooks : Bool := false
  emitter : Option Str := none
  /-- the callback is the `anonymous_node` of an `ast.Field`: written by `_write_callback(node, anonymous=True)` -/
  anonymous : Bool := false
  deriving Repr, DecidableEq, Inhabited

def mapMExcept (f : α → Except Err β) : List α → Except Err (List β)
  | [] => .ok []
  | a :: as => match f a with
    | .error e => .error e
    | .ok b => match mapMExcept f as with
      | .error e => .error e
      | .ok bs => .ok (b :: bs)

def paramNames (ps : List Param) : List (Option Str) := ps.map (·.argname)

/-- `_write_function_common` / `_write_vfunc` / `_write_callback`: the attributes handed to
    `_write_callable` as `extra_attrs`, in order; for a signal the attributes `_write_signal` puts
    between `name` and `version` -/
def extraAttrs (c : Callable) : List (String × Option Str) :=
  match c.klass with
  | .function => [
      ("c:identifier", c.symbol),
      ("shadowed-by", keepTruthy c.shadowedBy),
      ("shadows", if truthy c.shadowedBy then none else keepTruthy c.shadows),
      ("moved-to", c.movedTo),
      ("glib:set-property", c.setProperty),
      ("glib:get-property", c.getProperty)]
  | .vfunction => [("invoker", keepTruthy c.invoker)]
  -- `if not anonymous or callback.ctype != callback.name: attrs.append(('c:type', callback.ctype))`
  | .callback => [("c:type", if c.anonymous = true ∧ c.ctype = some c.name then none else c.ctype)]
  | .signal => [
      ("when", keepTruthy c.when),
      ("no-recurse", optIf c.noRecurse sOne),
      ("detailed", optIf c.detailed sOne),
      ("action", optIf c.action sOne),
      ("no-hooks", optIf c.noHooks sOne),
      ("emitter", keepTruthy c.emitter)]

/-- what `_write_callable` appends after `_append_node_generic` (`_append_throws`, the async attributes);
    `_write_signal` appends nothing -/
def callableTail (c : Callable) : List (String × Option Str) :=
  match c.klass with
  | .signal => []
  | _ => [("throws", optIf c.throws sOne),
          ("glib:finish-func", c.finishFunc),
          ("glib:sync-func", c.syncFunc),
          ("glib:async-func", c.asyncFunc)]

/-- `if callable.instance_parameter: self._write_parameter(callable, callable.instance_parameter, 'instance-parameter')` -/
def writeInst (ns : Str) (names : List (Option Str)) : Option Param → Except Err (List Xml)
  | none => .ok []
  | some p => (writeParam ns names "instance-parameter" p).map (fun x => [x])

/-- `GIRWriter._write_callable(callable, tag_name, extra_attrs)` with `_append_version`,
    `_append_node_generic`, `_append_throws`, `_write_generic`, `_write_return_type`, `_write_parameters`;
    and `GIRWriter._write_signal(signal)`, which has the same body without the throws / async attributes -/
def writeCallable (ns : Str) (c : Callable) : Except Err Xml := do
  let names := paramNames c.params
  let dk ← writeDocs c.docs
  let ret ← writeReturn ns names c.retval
  let inst ← writeInst ns names c.instanceParam
  let ps ← mapMExcept (writeParam ns names "parameter") c.params
  let paramsKid : List Xml :=
    if c.params.isEmpty && c.instanceParam.isNone then [] else [.elem "parameters" [] (inst ++ ps) none]
  pure (.elem c.tag (compact ([("name", some c.name)] ++ extraAttrs c ++ [
      ("version", keepTruthy c.version),
      ("introspectable", optIf (c.skip || !c.introspectable) sZero),
      ("deprecated", optIf (truthy c.deprecated || truthy c.docs.deprecatedDoc) sOne),
      ("deprecated-version", keepTruthy c.deprecated),
      ("stability", keepTruthy c.stability)] ++ callableTail c)) (dk ++ [ret] ++ paramsKid) none)

/-- the second loop over `<parameter>` elements in `_parse_function_common`: array length,
    `closure`, `destroy` (indices into the parameter list) -/
def resolveParam (names : List (Option Str)) (xp : Xml × Param) : Except Err Param :=
  match parseTypeArrayLength names xp.1.kids xp.2.ty with
  | .error e => .error e
  | .ok ty =>
    let idx (k : String) : Except Err (Option Str) :=
      if truthy (attrGet k xp.1.attrs) then resolveIndex names ((attrGet k xp.1.attrs).getD []) else .ok none
    match idx "closure" with
    | .error e => .error e
    | .ok cl => match idx "destroy" with
      | .error e => .error e
      | .ok de => .ok { xp.2 with ty := ty, closureName := cl, destroyName := de }

/-- the children of `<parameters>` (none when the element is missing) -/
def paramKids (kids : List Xml) : List Xml :=
  match findTag "parameters" kids with
  | some pn => pn.kids
  | none => []

/-- `paramnode = _find_first_child(parameters_node, 'instance-parameter'); if paramnode:` — an Element
    without children is falsy -/
def parseInst (ns : Str) (pk : List Xml) : Except Err (Option Param) :=
  match findTag "instance-parameter" pk with
  | some n => if n.kids.isEmpty then .ok none else (parseParam ns n).map some
  | none => .ok none

/-- `GIRParser._parse_function_common(node, klass)` (+ `func.invoker = method.get('invoker')` of
    `_parse_object_interface` for virtual methods).  An `ast.Signal` is constructed without `throws`
    (`Callable.__init__(self, name, retval, parameters, False)`). -/
def parseCallable (ns : Str) (klass : Klass) (x : Xml) : Except Err Callable :=
  let a := x.attrs
  match attrGet "name" a with
  | none => .error (.keyError "name")
  | some name =>
    -- `if not returnnode`: an Element without children is falsy as well
    match findTag "return-value" x.kids with
    | none => .error .valueError
    | some rn =>
      if rn.kids.isEmpty then .error .valueError else
      match parseReturn ns rn with
      | .error e => .error e
      | .ok ret0 =>
        let pk : List Xml := paramKids x.kids
        match parseInst ns pk with
        | .error e => .error e
        | .ok inst =>
          let pnodes := findAllTag "parameter" pk
          match mapMExcept (parseParam ns) pnodes with
          | .error e => .error e
          | .ok ps0 =>
            let names := paramNames ps0
            match mapMExcept (resolveParam names) (pnodes.zip ps0) with
            | .error e => .error e
            | .ok ps =>
              match parseTypeArrayLength names rn.kids ret0.ty with
              | .error e => .error e
              | .ok rty =>
                match parseDocs true x.kids with
                | .error e => .error e
                | .ok docs => .ok {
                    klass := klass, tag := x.tag, name := name, retval := { ret0 with ty := rty },
                    params := ps, instanceParam := inst,
                    throws := if klass = .signal then false else attrGet "throws" a == some sOne,
                    version := keepTruthy (attrGet "version" a), skip := parseFlag false (attrGet "skip" a),
                    introspectable := parseFlag true (attrGet "introspectable" a),
                    deprecated := keepTruthy (attrGet "deprecated-version" a),
                    stability := keepTruthy (attrGet "stability" a), docs := docs,
                    finishFunc := attrGet "glib:finish-func" a, syncFunc := attrGet "glib:sync-func" a,
                    asyncFunc := attrGet "glib:async-func" a,
                    symbol := if klass = .function then attrGet "c:identifier" a else none,
                    -- (the reader stores these on every class; only `ast.Function` has them for the writer)
                    shadowedBy := if klass = .function then attrGet "shadowed-by" a else none,
                    shadows := if klass = .function then attrGet "shadows" a else none,
                    movedTo := if klass = .function then attrGet "moved-to" a else none,
                    setProperty := if klass = .function then attrGet "glib:set-property" a else none,
                    getProperty := if klass = .function then attrGet "glib:get-property" a else none,
                    invoker := if klass = .vfunction then attrGet "invoker" a else none,
                    ctype := if klass = .callback then attrGet "c:type" a else none,
                    when := if klass = .signal then attrGet "when" a else none,
                    noRecurse := if klass = .signal then (attrGet "no-recurse" a).getD sZero == sOne else false,
                    detailed := if klass = .signal then (attrGet "detailed" a).getD sZero == sOne else false,
                    action := if klass = .signal then (attrGet "action" a).getD sZero == sOne else false,
                    noHooks := if klass = .signal then (attrGet "no-hooks" a).getD sZero == sOne else false,
                    emitter := if klass = .signal then attrGet "emitter" a else none,
                    anonymous := false }

/-! ### what a read/write cycle preserves: canonical forms and the executable side conditions

  `canon*` folds what the GIR format cannot carry (`complete_ctype` vs `ctype`, `not_nullable`,
  `direction=None` vs `'in'`, `caller_allocates` of in-parameters, `skip` of nodes, falsy strings).
  `wf*` are the (decidable) side conditions of the round-trip theorems; the harness evaluates them
  through the driver on every value it generates or reads from the real code. -/

def qualify (ns n : Str) : Str := if n.contains '.' then n else ns ++ '.' :: n

def canonTy : Ty → Ty
  | .unknown => .unknown
  | .varargs => .varargs
  | .plain c cc t => match t, effCtype c cc with
    | .none, none => .unknown
    | t, e => .plain e none t
  | .array c cc a z s l e => .array (effCtype c cc) none a z s l (canonTy e)
  | .list c cc n e => .list (effCtype c cc) none n (canonTy e)
  | .map c cc k v => .map (effCtype c cc) none (canonTy k) (canonTy v)

def wfTy (ns : Str) : Ty → Bool
  | .unknown => true
  | .varargs => true
  | .plain _ _ target => match target with
    | .none => true
    | .giname g =>
      let n := typeToName ns g
      truthy (some g) && !inTypeNames n && n != sList && n != sSList && n != sHash && qualify ns n == g
    | .fundamental f => inTypeNames f
    | .foreign _ => false          -- the reader does not look at `foreign` on <type>
  | .array _ _ a _ _ _ e => (a.isNone || validArrayTypes.contains (a.getD [])) && wfTy ns e
  | .list _ _ n e => (n == some sList || n == some sSList) && e != .varargs && wfTy ns e
  | .map _ _ k v => wfTy ns k && wfTy ns v

/-- the top-level array length is resolved in a second pass: `_parse_type_simple` alone leaves it unset -/
def dropLen : Ty → Ty
  | .array c cc a z s _ e => .array c cc a z s none e
  | t => t

def canonDocs (d : Docs) : Docs :=
  { attributes := d.attributes,
    doc := keepTruthy d.doc,
    docPos := if truthy d.doc then
        d.docPos.map (fun p => ⟨p.filename, some (p.line.getD sNone), keepTruthy p.column⟩)
      else none,
    versionDoc := keepTruthy d.versionDoc,
    deprecatedDoc := keepTruthy d.deprecatedDoc,
    stabilityDoc := keepTruthy d.stabilityDoc,
    mainPos := d.mainPos.map (fun p => { p with column := if p.column = some 0 then none else p.column }) }

def nodupKeys : List (Option Str × Option Str) → Bool
  | [] => true
  | (k, _) :: rest => !(rest.any (fun p => p.1 == k)) && nodupKeys rest

def wfDocs (isNode : Bool) (d : Docs) : Bool := nodupKeys d.attributes && (isNode || d.mainPos.isNone)

def canonParam (p : Param) : Param :=
  { p with ty := canonTy p.ty, direction := some (p.direction.getD sIn), transfer := keepTruthy p.transfer,
           nullable := p.nullable && !p.notNullable, notNullable := false, scope := keepTruthy p.scope,
           callerAllocates := (p.direction.isSome && p.direction != some sIn) && p.callerAllocates,
           docs := canonDocs p.docs }

def wfParam (ns : Str) (p : Param) : Bool :=
  wfTy ns p.ty && p.direction != some [] && wfDocs false p.docs

def canonReturn (r : Return) : Return :=
  { r with ty := canonTy r.ty, transfer := returnTransfer r, nullable := r.nullable && !r.notNullable,
           notNullable := false, docs := canonDocs r.docs }

def wfReturn (ns : Str) (r : Return) : Bool := wfTy ns r.ty && wfDocs false r.docs

def tyLength : Ty → Option Str
  | .array _ _ _ _ _ l _ => l
  | _ => none

def canonCallable (c : Callable) : Callable :=
  { c with retval := canonReturn c.retval, params := c.params.map canonParam,
           instanceParam := c.instanceParam.map canonParam, version := keepTruthy c.version, skip := false,
           introspectable := c.introspectable && !c.skip, deprecated := keepTruthy c.deprecated,
           stability := keepTruthy c.stability, docs := canonDocs c.docs, shadowedBy := keepTruthy c.shadowedBy,
           shadows := if truthy c.shadowedBy then none else keepTruthy c.shadows,
           invoker := keepTruthy c.invoker,
           ctype := if c.anonymous = true ∧ c.ctype = some c.name then none else c.ctype,
           when := keepTruthy c.when, emitter := keepTruthy c.emitter, anonymous := false }

/-- fields that exist only on one of the four classes are unset on the others; a signal does not throw and
    has no async attributes (`_write_signal` does not write them) -/
def klassFields (c : Callable) : Bool :=
  (c.klass == .function || (c.symbol.isNone && c.shadowedBy.isNone && c.shadows.isNone && c.movedTo.isNone
      && c.setProperty.isNone && c.getProperty.isNone))
  && (c.klass == .vfunction || c.invoker.isNone) && (c.klass == .callback || (c.ctype.isNone && !c.anonymous))
  && (if c.klass == .signal then !c.throws && c.finishFunc.isNone && c.syncFunc.isNone && c.asyncFunc.isNone
      else c.when.isNone && !c.noRecurse && !c.detailed && !c.action && !c.noHooks && c.emitter.isNone)

def wfCallable (ns : Str) (c : Callable) : Bool :=
  wfReturn ns c.retval && c.params.all (wfParam ns) && wfDocs true c.docs && klassFields c
  && (match c.instanceParam with
      | none => true
      -- the reader resolves closure / destroy / array length only for <parameter> elements
      | some p => wfParam ns p && p.closureName.isNone && p.destroyName.isNone && (tyLength p.ty).isNone)

/-! ### members of a record / union: `GIRWriter._write_field`, `GIRParser._parse_fields`, `_parse_field`
    and the array-length pass of `_parse_compound`

  `compound.fields` holds one `ast.Field` per member.  A member is written as `<field>TYPE</field>`,
  as `<field><callback/></field>` (function pointer member: `anonymous_node` is an `ast.Callback`)
  or as a bare `<record>` / `<union>` element (anonymous struct / union member: `anonymous_node`
  is an `ast.Record` / `ast.Union` whose name and ctype are the member's identifier,
  `Transformer._create_member_compound`; its CONTENT goes through `_write_record` / `_parse_compound`
  again and is not modelled here: the element is written empty).
  The `length` attribute of an array-typed field is the index of the length field in
  `compound.fields` (`Compound.get_field_index`), anonymous members included. -/

inductive MemberBody where
  | typed (ty : Ty)
  | callback (cb : Callable)
  | anon (tag : String)
  deriving Repr, DecidableEq, Inhabited

/-- `ast.Field` with what the writer looks at -/
structure Member where
  name : Option Str
  body : MemberBody
  readable : Bool
  writable : Bool
  /-- `Field.bits`: an int from the scanner, the attribute text from the reader; `if field.bits:` / `str(field.bits)` -/
  bits : Option Str
  isPrivate : Bool
  version : Option Str
  skip : Bool
  introspectable : Bool
  deprecated : Option Str
  stability : Option Str
  docs : Docs
  deriving Repr, DecidableEq, Inhabited

def memberNames (ms : List Member) : List (Option Str) := ms.map (·.name)

/-- `_append_version` + `_append_node_generic` -/
def genericAttrs (m : Member) : List (String × Option Str) := [
  ("version", keepTruthy m.version),
  ("introspectable", optIf (m.skip || !m.introspectable) sZero),
  ("deprecated", optIf (truthy m.deprecated || truthy m.docs.deprecatedDoc) sOne),
  ("deprecated-version", keepTruthy m.deprecated),
  ("stability", keepTruthy m.stability)]

/-- `_write_callback(field.anonymous_node, anonymous=True)`: always a `<callback>` element of an `ast.Callback` -/
def asCallback (cb : Callable) : Callable := { cb with klass := .callback, tag := "callback", anonymous := true }

/-- `GIRWriter._write_field(field, parent)` for a record / union `parent`; `names` = the names of `parent.fields` -/
def writeMember (ns : Str) (names : List (Option Str)) (m : Member) : Except Err Xml :=
  match m.body with
  | .anon tag =>
    -- `_write_record(field.anonymous_node)` / `_write_union(...)`: nothing of the Field itself is written
    .ok (.elem tag (compact [("name", m.name), ("c:type", m.name)]) [] none)
  | .callback cb => do
    let dk ← writeDocs m.docs
    let c ← writeCallable ns (asCallback cb)
    pure (.elem "field" (compact ([("name", m.name)] ++ genericAttrs m)) (dk ++ [c]) none)
  | .typed ty => do
    let dk ← writeDocs m.docs
    let t ← writeType ns (some names) ty
    pure (.elem "field" (compact ([("name", m.name)] ++ genericAttrs m ++ [
        ("readable", optIf (!m.readable) sZero),
        ("writable", optIf m.writable sOne),
        ("bits", keepTruthy m.bits),
        ("private", optIf m.isPrivate sOne)])) (dk ++ [t]) none)

/-- `for field in record.fields: self._write_field(field, record)` -/
def writeMembers (ns : Str) (ms : List Member) : Except Err (List Xml) :=
  mapMExcept (writeMember ns (memberNames ms)) ms

def anonTags : List String := ["callback", "record", "union"]
def memberTags : List String := ["field", "record", "union", "callback"]

/-- `GIRParser._parse_field(node, parent)` (the array length is resolved by `_parse_compound`) -/
def parseMember (ns : Str) (x : Xml) : Except Err Member :=
  let anonymousElt : Option Xml := if anonTags.contains x.tag then some x else findTag "callback" x.kids
  let body : Except Err MemberBody :=
    match anonymousElt with
    | some a =>
      if a.tag = "callback" then (parseCallable ns .callback a).map .callback
      -- `_parse_record(anonymous_elt, anonymous=True)` / `_parse_union`: content not modelled
      else .ok (.anon a.tag)
    | none =>
      if x.tag = "field" then (parseType ns x.kids).map .typed else .error .assertion
  match body with
  | .error e => .error e
  | .ok body =>
    let a := x.attrs
    match parseDocs false x.kids with
    | .error e => .error e
    | .ok docs => .ok {
        name := attrGet "name" a, body := body,
        readable := !(attrGet "readable" a == some sZero), writable := attrGet "writable" a == some sOne,
        bits := attrGet "bits" a, isPrivate := attrGet "private" a == some sOne,
        version := keepTruthy (attrGet "version" a), skip := parseFlag false (attrGet "skip" a),
        introspectable := parseFlag true (attrGet "introspectable" a),
        deprecated := keepTruthy (attrGet "deprecated-version" a),
        stability := keepTruthy (attrGet "stability" a), docs := docs }

/-- `_parse_type_array_length(compound.fields, fieldnode, field.type)` on a member: `field.type` is `None`
    for callback / anonymous members, and then `typeval.length_param_name = …` raises if it is reached -/
def lengthUpd (names : List (Option Str)) (node : Xml) (m : Member) : Except Err Member :=
  match m.body with
  | .typed t =>
    match parseTypeArrayLength names node.kids t with
    | .error e => .error e
    | .ok t' => .ok { m with body := .typed t' }
  | _ =>
    match parseTypeArrayLength names node.kids .unknown with
    | .error e => .error e
    | .ok _ =>
      match findTag "array" node.kids with
      | none => .ok m
      | some typenode => if (attrGet "length" typenode.attrs).isSome then .error .attributeError else .ok m

/-- `for fieldnode, field in zip(self._find_field_nodes(node), compound.fields): if fieldnode.tag == 'field': …`:
    every member ELEMENT (`<field>`, `<record>`, `<union>`, `<callback>`) is paired with the `compound.fields`
    entry `_parse_fields` made from it; only `<field>` elements carry a type (`zip` stops at the shorter list) -/
def lengthPass (names : List (Option Str)) : List Xml → List Member → Except Err (List Member)
  | [], ms => .ok ms
  | _ :: _, [] => .ok []
  | n :: ns, m :: ms =>
    match (if n.tag = "field" then lengthUpd names n m else .ok m) with
    | .error e => .error e
    | .ok m' => match lengthPass names ns ms with
      | .error e => .error e
      | .ok rest => .ok (m' :: rest)

/-- `GIRParser._find_field_nodes(node)` -/
def memberNodes (kids : List Xml) : List Xml := kids.filter (fun x => memberTags.contains x.tag)

/-- the member-related part of `GIRParser._parse_compound(cls, node)` on the children of `node`:
    `compound.fields.extend(self._parse_fields(node, compound))`, then the array-length loop -/
def parseMembers (ns : Str) (kids : List Xml) : Except Err (List Member) :=
  match mapMExcept (parseMember ns) (memberNodes kids) with
  | .error e => .error e
  | .ok ms => lengthPass (memberNames ms) (memberNodes kids) ms

def memberDropLen (m : Member) : Member :=
  match m.body with
  | .typed t => { m with body := .typed (dropLen t) }
  | _ => m

/-- what a read/write cycle keeps of a member.  An anonymous struct / union member is written through its
    `anonymous_node` alone: the `ast.Field` read back has the reader's defaults. -/
def canonMember (m : Member) : Member :=
  match m.body with
  | .anon tag =>
    { name := m.name, body := .anon tag, readable := true, writable := false, bits := none, isPrivate := false,
      version := none, skip := false, introspectable := true, deprecated := none, stability := none, docs := {} }
  | .callback cb =>
    { m with body := .callback (canonCallable (asCallback cb)), readable := true, writable := false, bits := none,
             isPrivate := false, version := keepTruthy m.version, skip := false,
             introspectable := m.introspectable && !m.skip, deprecated := keepTruthy m.deprecated,
             stability := keepTruthy m.stability, docs := canonDocs m.docs }
  | .typed t =>
    { m with body := .typed (canonTy t), bits := keepTruthy m.bits, version := keepTruthy m.version, skip := false,
             introspectable := m.introspectable && !m.skip, deprecated := keepTruthy m.deprecated,
             stability := keepTruthy m.stability, docs := canonDocs m.docs }

def wfMember (ns : Str) (m : Member) : Bool :=
  match m.body with
  | .anon tag => tag == "record" || tag == "union"
  | .callback cb => wfCallable ns (asCallback cb) && wfDocs false m.docs
  | .typed t => wfTy ns t && wfDocs false m.docs

/-- written as a `<field>` element -/
def isFieldElem (m : Member) : Bool :=
  match m.body with
  | .anon _ => false
  | _ => true


/-! ### the reader object: per-document header state of `GIRParser`

  `GIRParser.parse_tree` (re)assigns `_includes`, `_pkgconfig_packages`, `_c_includes` (fresh sets), `_doc_format`
  (`"unknown"`); `_parse_api` lets `_parse_include` / `_parse_pkgconfig_package` / `_parse_c_include` /
  `_parse_doc_format` update them for every header child of `<repository>` and then hands these very objects to
  the `ast.Namespace` (`namespace.includes = self._includes` …).  Which attributes `parse_tree` assigns is taken
  from the table re-extracted from girparser.py (`Gen.GirReaderState.parseTreeResets`), so the model follows the
  code: an attribute that is not reassigned keeps what earlier documents left in it. -/

inductive HItem where
  | incl (name version : Str)
  | package (name : Str)
  | cInclude (name : Str)
  | docFormat (name : Str)
  deriving Repr, DecidableEq, Inhabited

structure HState where
  includes : List (Str × Str)
  packages : List Str
  cIncludes : List Str
  docFormat : Str
  deriving Repr, DecidableEq, Inhabited

def sUnknown : Str := "unknown".toList

/-- the values `parse_tree` assigns -/
def hInit : HState := { includes := [], packages := [], cIncludes := [], docFormat := sUnknown }

/-- the assignments at the start of `parse_tree`, for the attributes it assigns (`resets`) -/
def hReset (resets : List String) (s : HState) : HState :=
  { includes := if resets.contains "_includes" then [] else s.includes,
    packages := if resets.contains "_pkgconfig_packages" then [] else s.packages,
    cIncludes := if resets.contains "_c_includes" then [] else s.cIncludes,
    docFormat := if resets.contains "_doc_format" then sUnknown else s.docFormat }

/-- `set.add` -/
def setAdd {α : Type} [BEq α] (x : α) (l : List α) : List α := if l.contains x then l else x :: l

/-- `_parse_include`, `_parse_pkgconfig_package`, `_parse_c_include`, `_parse_doc_format` -/
def hStep (s : HState) : HItem → HState
  | .incl n v => { s with includes := setAdd (n, v) s.includes }
  | .package n => { s with packages := setAdd n s.packages }
  | .cInclude n => { s with cIncludes := setAdd n s.cIncludes }
  | .docFormat n => { s with docFormat := n }

/-- `parse_tree` on the header children of a document: the reader's state afterwards, which is also the header
    of the namespace it returns -/
def parseHeader (resets : List String) (s : HState) (doc : List HItem) : HState :=
  doc.foldl hStep (hReset resets s)

/-- a history of `parse()` calls on one reader: the header of each returned namespace -/
def runHistory (resets : List String) (s : HState) : List (List HItem) → List HState
  | [] => []
  | d :: ds => parseHeader resets s d :: runHistory resets (parseHeader resets s d) ds


end GIVerif.GirCodec
