/-
  C19 model: giscanner/shlibs.py (`_ldd_library_pattern`, `resolve_from_ldd_output`,
  `sanitize_shlib_path`) and giscanner/utils.py (`_extract_dlname_field`,
  `extract_libtool_shlib`).  Import-free apart from the Py library and generated
  tables, so it links into the compiled driver.
-/
import GIVerif.Py.Str
import GIVerif.Gen.Shlibs

namespace GIVerif.Shlibs
open GIVerif.Py

def inRanges (rs : List (Nat × Nat)) (c : Char) : Bool :=
  rs.any (fun r => r.1 ≤ c.toNat && c.toNat ≤ r.2)

/-- the negated class `[^/A-Za-z0-9_-]` of `_ldd_library_pattern`, read from the source -/
def isSepChar (c : Char) : Bool := !inRanges Gen.lddExcluded c

/-- strip a literal prefix -/
def dropPrefix? : Str → Str → Option Str
  | s, [] => some s
  | [], _ :: _ => none
  | c :: cs, p :: ps => if c = p then dropPrefix? cs ps else none

/-- `lib%s [^/A-Za-z0-9_-] [^/]* $` matched at the start of `s` -/
def matchAt (name s : Str) : Bool :=
  match dropPrefix? s ("lib".toList ++ name) with
  | some (c :: rest) => isSepChar c && !rest.contains '/'
  | _ => false

/-- the optional group `(.*[/])?`: try after every `/` -/
def matchAfterSlash (name : Str) : Str → Bool
  | [] => false
  | c :: cs => (c == '/' && matchAt name cs) || matchAfterSlash name cs

/-- `_ldd_library_pattern(name).match(w)` for a word `w` without line breaks
    (words come from `str.split()`, so they contain no whitespace at all). -/
def matchWord (name w : Str) : Bool := matchAt name w || matchAfterSlash name w

/-- the words the resolver looks at: lines not ending in `:`, split on whitespace -/
def listingWords (output : Str) : List Str :=
  ((splitLines output).filter (fun l => !endsWith l [':'])).flatMap splitWs

/-- one iteration of the inner loops of `resolve_from_ldd_output`: the first pending
    pattern (dict order) matching the word is deleted and the word recorded -/
def step (st : List Str × List Str) (w : Str) : List Str × List Str :=
  match st.1.find? (fun r => matchWord r w) with
  | some r => (st.1.erase r, st.2 ++ [w])
  | none => st

/-- `patterns` dict keys: requested names that are not existing files, first
    occurrence order, duplicates collapsed (dict assignment) -/
def dedupKeepFirst : List Str → List Str
  | [] => []
  | x :: xs => x :: (dedupKeepFirst xs).filter (fun y => y != x)

def pendingOf (isFile : Str → Bool) (libs : List Str) : List Str :=
  dedupKeepFirst (libs.filter (fun l => !isFile l))

inductive Result where
  | ok (shlibs : List Str)
  | unresolved (names : List Str)
  deriving Repr, DecidableEq

def finish : List Str × List Str → Result
  | ([], acc) => .ok acc
  | (rem, _) => .unresolved rem

def resolveWords (pending : List Str) (words : List Str) : Result :=
  finish (words.foldl step (pending, []))

/-- `resolve_from_ldd_output(libraries, output)`; `.unresolved` is the `SystemExit` -/
def resolve (isFile : Str → Bool) (libs : List Str) (output : Str) : Result :=
  resolveWords (pendingOf isFile libs) (listingWords output)

/-- `list(map(sanitize_shlib_path, shlibs))` off macOS -/
def resolveSanitized (isFile : Str → Bool) (libs : List Str) (output : Str) : Result :=
  match resolve isFile libs output with
  | .ok l => .ok (l.map basename)
  | r => r

/-! ### libtool archives -/

def isDlnameChar (c : Char) : Bool := inRanges Gen.dlnameClass c

/-- `dlname='([A-z0-9\.\-\+]+)'\n` matched at the start of `s` -/
def dlnameAt (s : Str) : Option Str :=
  match dropPrefix? s "dlname='".toList with
  | some rest =>
    let g := rest.takeWhile isDlnameChar
    let after := rest.dropWhile isDlnameChar
    if g.isEmpty then none
    else match after with
      | '\'' :: '\n' :: _ => some g
      | _ => none
  | none => none

/-- `_libtool_pat.search(data)`: leftmost match -/
def dlnameSearch : Str → Option Str
  | [] => none
  | c :: cs => match dlnameAt (c :: cs) with
    | some g => some g
    | none => dlnameSearch cs

/-- `extract_libtool_shlib` off macOS: basename of the dlname field -/
def extractLibtoolShlib (data : Str) : Option Str := (dlnameSearch data).map basename

/-- `resolve_shlibs(options, binary, libraries)` off macOS/Windows: `.la` requests first
    (those without a dlname are skipped by `_resolve_libtool`), then the loader listing for
    the others.  `laData` gives the text of each `.la` file; `output` is what ldd printed. -/
def resolveShlibs (isFile : Str → Bool) (laData : Str → Str) (libs : List Str) (output : Str) : Result :=
  let la := libs.filter (fun l => endsWith l ".la".toList)
  let non := libs.filter (fun l => !endsWith l ".la".toList)
  let fromLa := la.filterMap (fun l => extractLibtoolShlib (laData l))
  if non.isEmpty then .ok fromLa
  else match resolveSanitized isFile non output with
    | .ok l => .ok (fromLa ++ l)
    | r => r

end GIVerif.Shlibs
