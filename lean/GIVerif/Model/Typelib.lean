/-
  C06 model, part 1: the format-generic codec of the typelib binary format
  (girepository/gitypelib-internal.h).

  Nothing in this file knows a blob by name: a *layout* is a list of members
  (name, first bit, width in bits) as MEASURED by translators/gen_typelib_layout.py
  with a compiled C probe against /repo's header (bit k of a struct is bit `k % 8`
  of byte `k / 8`, the little-endian numbering the probe reports).  Reading goes
  through one bounds-checked byte reader `rd : Nat → Option Nat`; an out-of-range
  byte makes the read fail, it is never replaced by a default.

  Import-free apart from the generated tables, so it links into the compiled driver.
-/
import GIVerif.Gen.TypelibLayout

namespace GIVerif.Typelib

/-- A byte string seen through a bounds-checked reader. `byte` is only ever consulted
    below `size` (see `getByte?`, the single access path). -/
structure Image where
  size : Nat
  byte : Nat → Nat

/-- the checked read: every access of the decoder goes through this function -/
def Image.getByte? (m : Image) (i : Nat) : Option Nat :=
  if i < m.size then some (m.byte i) else none

/-- a byte list as an image -/
def Image.ofList (l : List Nat) : Image := ⟨l.length, fun i => l.getD i 0⟩

abbrev Reader := Nat → Option Nat

/-- the reader of a byte list -/
def listReader (l : List Nat) : Reader := fun i => l[i]?

/-! ### bits -/

/-- value of the `w` bits starting at absolute bit `first` over a total byte function
    (specification form used by the lemmas) -/
def decodeBits (B : Nat → Nat) (first : Nat) : Nat → Nat
  | 0 => 0
  | w + 1 => ((B (first / 8)).testBit (first % 8)).toNat + 2 * decodeBits B (first + 1) w

/-- the executable read: the `w` bits starting at absolute bit `first`, `none` as soon as a
    byte is outside the image -/
def decodeBits? (rd : Reader) (first : Nat) : Nat → Option Nat
  | 0 => some 0
  | w + 1 =>
    match rd (first / 8) with
    | none => none
    | some b =>
      match decodeBits? rd (first + 1) w with
      | none => none
      | some rest => some ((b.testBit (first % 8)).toNat + 2 * rest)

/-- replace bit `j` of `x` by `b` -/
def putBit (x j : Nat) (b : Bool) : Nat := if x.testBit j == b then x else x ^^^ 2 ^ j

/-- replace absolute bit `k` of a byte list by `b` (no-op outside the list) -/
def setBit (l : List Nat) (k : Nat) (b : Bool) : List Nat :=
  match l[k / 8]? with
  | some x => l.set (k / 8) (putBit x (k % 8) b)
  | none => l

/-- write the low `w` bits of `v` at absolute bit `first` -/
def encodeBits (l : List Nat) (first : Nat) : Nat → Nat → List Nat
  | 0, _ => l
  | w + 1, v => encodeBits (setBit l first (v % 2 == 1)) (first + 1) w (v / 2)

/-! ### layouts -/

/-- one scalar or bit-field member: first bit relative to the struct start, width in bits -/
structure Field where
  name : String
  first : Nat
  width : Nat
  deriving Repr, DecidableEq

/-- one blob struct: `sizeof` and its scalar members -/
structure SLayout where
  name : String
  size : Nat
  fields : List Field
  deriving Repr

/-- the members of struct `s` in the generated table, in declaration order -/
def fieldsOf (s : String) : List Field :=
  Gen.blobFields.filterMap fun (st, f, first, w) => if st == s then some ⟨f, first, w⟩ else none

/-- `sizeof (s)` from the generated table (0 when the struct is unknown: every read then fails) -/
def sizeOf' (s : String) : Nat :=
  match Gen.blobSizes.find? (fun (st, _, _) => st == s) with
  | some (_, _, n) => n
  | none => 0

def layoutOf (s : String) : SLayout := ⟨s, sizeOf' s, fieldsOf s⟩

/-- byte offset of a nested struct / array member -/
def nestedOffset (s memb : String) : Option Nat :=
  match Gen.blobNested.find? (fun (st, f, _, _, _) => st == s && f == memb) with
  | some (_, _, off, _, _) => some off
  | none =>
    match Gen.blobArrays.find? (fun (st, f, _, _, _) => st == s && f == memb) with
    | some (_, _, off, _, _) => some off
    | none => none

/-- value of an enumerator of the generated enum table -/
def enumVal (e name : String) : Option Nat :=
  match Gen.typelibEnums.find? (fun (en, n, _) => en == e && n == name) with
  | some (_, _, v) => some v
  | none => none

def SLayout.field? (L : SLayout) (name : String) : Option Field :=
  L.fields.find? (fun f => f.name == name)

/-- read one member of a struct placed at byte `base` -/
def decodeField? (rd : Reader) (base : Nat) (f : Field) : Option Nat :=
  decodeBits? rd (8 * base + f.first) f.width

/-- write one member of a struct placed at byte `base` -/
def encodeField (l : List Nat) (base : Nat) (f : Field) (v : Nat) : List Nat :=
  encodeBits l (8 * base + f.first) f.width v

/-- read all members, in layout order -/
def decodeStruct? (rd : Reader) (base : Nat) : List Field → Option (List Nat)
  | [] => some []
  | f :: fs =>
    match decodeField? rd base f, decodeStruct? rd base fs with
    | some v, some vs => some (v :: vs)
    | _, _ => none

/-- write all members, in layout order -/
def encodeStruct (l : List Nat) (base : Nat) : List Field → List Nat → List Nat
  | f :: fs, v :: vs => encodeStruct (encodeField l base f v) base fs vs
  | _, _ => l

/-! ### well-formedness of a layout (decidable; evaluated on the generated tables in Props/C06) -/

/-- bit ranges `[a, a+wa)` and `[b, b+wb)` do not meet -/
def disjointBits (a wa b wb : Nat) : Bool := a + wa ≤ b || b + wb ≤ a

def Field.disjoint (f g : Field) : Bool := disjointBits f.first f.width g.first g.width

/-- pairwise disjoint members -/
def pairwiseDisjoint : List Field → Bool
  | [] => true
  | f :: fs => fs.all (fun g => f.disjoint g) && pairwiseDisjoint fs

/-- every member lies inside `size` bytes and has a positive width -/
def fieldsInside (size : Nat) (fs : List Field) : Bool :=
  fs.all (fun f => 0 < f.width && f.first + f.width ≤ 8 * size)

/-- a struct layout: members inside, pairwise disjoint -/
def wfStruct (size : Nat) (fs : List Field) : Bool := fieldsInside size fs && pairwiseDisjoint fs

/-- a value list fits a layout -/
def fits : List Field → List Nat → Bool
  | [], [] => true
  | f :: fs, v :: vs => decide (v < 2 ^ f.width) && fits fs vs
  | _, _ => false

end GIVerif.Typelib
