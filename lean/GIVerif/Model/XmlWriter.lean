/-
  C20 model: giscanner/xmlwriter.py (`_calc_attrs_length`, `collect_attributes`,
  `build_xml_tag`, class `XMLWriter`) and the two CPython functions it calls,
  `xml.sax.saxutils.escape` / `quoteattr`.  One Lean definition per Python function, same
  branch order.  Import-free apart from the Py library and the generated tables, so it links
  into the compiled driver.

  Literals that do not matter for the property (wrap column and comparison, indent unit,
  whitespace characters, the declaration line) and the replacement tables of saxutils are
  read from Gen/XmlWriter.lean, regenerated from the sources on every run.
-/
import GIVerif.Py.Str
import GIVerif.Gen.XmlWriter

namespace GIVerif.XmlWriter
open GIVerif.Py

/-! ### xml.sax.saxutils -/

/-- `s.replace(k, v)` for a one-character `k` -/
def replaceChar (k : Char) (v : Str) (s : Str) : Str :=
  s.flatMap (fun c => if c = k then v else [c])

/-- `__dict_replace(s, d)`: the replacements one after the other, in dict order -/
def dictReplace (tbl : List (Char × Str)) (s : Str) : Str :=
  tbl.foldl (fun d kv => replaceChar kv.1 kv.2 d) s

/-- `saxutils.escape(data)`: `&` first, then `>`, then `<` (three sequential `str.replace`) -/
def escape (s : Str) : Str := dictReplace Gen.escapeTable s

/-- `saxutils.escape(data, entities)` as called by `quoteattr`: additionally `\n \r \t` -/
def escapeEnt (s : Str) : Str := dictReplace Gen.quoteattrEntities (escape s)

/-- `saxutils.quoteattr(data)` -/
def quoteattr (s : Str) : Str :=
  let d := escapeEnt s
  if d.contains '"' then
    if d.contains '\'' then
      '"' :: dictReplace Gen.quotReplacement d ++ ['"']
    else
      '\'' :: d ++ ['\'']
  else
    '"' :: d ++ ['"']

/-! ### giscanner/xmlwriter.py, module level -/

/-- an attribute: name and value, `None` values allowed -/
abbrev Attr := Str × Option Str

/-- `s * n` for a Python string and a (possibly non-positive) integer -/
def rep (s : Str) (n : Int) : Str := (List.replicate n.toNat s).flatten

/-- `_calc_attrs_length(attributes, indent, self_indent)` -/
def calcAttrsLength (attrs : List Attr) (indent : Int) (selfIndent : Int) : Int :=
  if indent = -1 then -1
  else
    let attrLength : Nat := attrs.foldl (fun n a =>
      match a.2 with
      | none => n                                     -- `if value is None: continue`
      | some v => n + (2 + a.1.length + (quoteattr v).length)) 0
    (attrLength : Int) + indent + selfIndent

/-- the comparison `_calc_attrs_length(...) > 79` (operator and constant read from the source) -/
def wraps (x : Int) : Bool :=
  if Gen.wrapOp = "Gt" then decide (x > (Gen.wrapColumn : Int))
  else if Gen.wrapOp = "GtE" then decide (x ≥ (Gen.wrapColumn : Int))
  else if Gen.wrapOp = "Lt" then decide (x < (Gen.wrapColumn : Int))
  else if Gen.wrapOp = "LtE" then decide (x ≤ (Gen.wrapColumn : Int))
  else if Gen.wrapOp = "Eq" then decide (x = (Gen.wrapColumn : Int))
  else if Gen.wrapOp = "NotEq" then decide (x ≠ (Gen.wrapColumn : Int))
  else false

/-- the `for attr, value in attributes` loop of `collect_attributes`
    (`first` and `attr_value` are the loop-carried variables) -/
def collectLoop (indentLen : Int) (indentChar : Str) : List Attr → Bool → Str → Str
  | [], _, acc => acc
  | (_, none) :: rest, first, acc => collectLoop indentLen indentChar rest first acc
  | (a, some v) :: rest, first, acc =>
    let acc1 := if indentLen ≠ 0 && !first then acc ++ '\n' :: rep indentChar indentLen else acc
    collectLoop indentLen indentChar rest false (acc1 ++ ' ' :: a ++ '=' :: quoteattr v)

/-- `collect_attributes(tag_name, attributes, self_indent, self_indent_char, indent=-1)` -/
def collectAttributes (tagName : Str) (attrs : List Attr) (selfIndent : Int) (indentChar : Str)
    (indent : Int := -1) : Str :=
  if attrs.isEmpty then []
  else
    let indentLen : Int :=
      if wraps (calcAttrsLength attrs indent selfIndent) then selfIndent + tagName.length + 1 else 0
    collectLoop indentLen indentChar attrs true []

/-- the `suffix` of `build_xml_tag` -/
def tagSuffix (tagName : Str) : Option Str → Str
  | some d => '>' :: escape d ++ '<' :: '/' :: tagName ++ ['>']
  | none => ['/', '>']

/-- `build_xml_tag(tag_name, attributes, data, self_indent, self_indent_char)` -/
def buildXmlTag (tagName : Str) (attrs : List Attr) (data : Option Str) (selfIndent : Int := 0)
    (indentChar : Str := [' ']) : Str :=
  let pre := '<' :: tagName
  let suf := tagSuffix tagName data
  pre ++ collectAttributes tagName attrs selfIndent indentChar ((pre.length + suf.length : Nat) : Int) ++ suf

/-! ### class XMLWriter -/

structure State where
  /-- `self._data.getvalue()` -/
  data : Str
  /-- `self._tag_stack`, top of the stack first -/
  tagStack : List Str
  /-- `self._indent` (goes negative when `pop_tag` is called on an empty stack) -/
  indent : Int
  indentChar : Str
  newlineChar : Str
  /-- number of `IndexError`s raised by `pop_tag` on an empty stack so far -/
  errors : Nat
  deriving Repr, DecidableEq

/-- `XMLWriter.__init__` -/
def init : State :=
  { data := Gen.prolog, tagStack := [], indent := 0,
    indentChar := Gen.wsOn.1, newlineChar := Gen.wsOn.2, errors := 0 }

/-- `write_line(line, indent, do_escape)` -/
def writeLine (s : State) (line : Str) (indent : Bool := true) (doEscape : Bool := false) : State :=
  let line := if doEscape then escape line else line
  if indent then { s with data := s.data ++ (rep s.indentChar s.indent ++ line ++ s.newlineChar) }
  else { s with data := s.data ++ (line ++ s.newlineChar) }

/-- `_open_tag(tag_name, attributes)` -/
def openTag (s : State) (name : Str) (attrs : List Attr) : State :=
  let a := collectAttributes name attrs s.indent s.indentChar ((name.length + 2 : Nat) : Int)
  writeLine s ('<' :: name ++ a ++ ['>'])

/-- `_close_tag(tag_name)` -/
def closeTag (s : State) (name : Str) : State :=
  writeLine s ('<' :: '/' :: name ++ ['>'])

inductive Op where
  | push (name : Str) (attrs : List Attr)
  | pop
  | tag (name : Str) (attrs : List Attr) (data : Option Str)
  | comment (text : Str)
  | line (text : Str) (indent : Bool) (doEscape : Bool)
  | enableWs
  | disableWs
  deriving Repr, DecidableEq

/-- one public method call.  `pop_tag` on an empty stack decrements `_indent`, then raises
    `IndexError` (counted in `errors`); every other call is total. -/
def step (s : State) : Op → State
  | .push name attrs =>
    let s1 := openTag s name attrs
    { s1 with tagStack := name :: s1.tagStack, indent := s1.indent + Gen.indentUnit }
  | .pop =>
    let s1 := { s with indent := s.indent - Gen.indentUnit }
    match s1.tagStack with
    | [] => { s1 with errors := s1.errors + 1 }
    | name :: rest => closeTag { s1 with tagStack := rest } name
  | .tag name attrs data => writeLine s (buildXmlTag name attrs data s.indent s.indentChar)
  | .comment text => writeLine s ('<' :: '!' :: '-' :: '-' :: ' ' :: text ++ [' ', '-', '-', '>'])
  | .line text indent doEscape => writeLine s text indent doEscape
  | .enableWs => { s with indentChar := Gen.wsOn.1, newlineChar := Gen.wsOn.2 }
  | .disableWs => { s with indentChar := Gen.wsOff.1, newlineChar := Gen.wsOff.2 }

def run (s : State) (ops : List Op) : State := ops.foldl step s

/-- `get_xml()` -/
def getXml (s : State) : Str := s.data

/-- `get_encoded_xml()` -/
def getEncodedXml (s : State) : ByteArray := (String.ofList s.data).toUTF8

/-! ### writing code: calls, `with writer.tagcontext(...)` blocks, and code that raises -/

inductive Prog where
  | prim (op : Op)
  | ctx (name : Str) (attrs : List Attr) (body : List Prog)
  | raise

mutual
/-- run one statement; the flag says whether an exception is propagating afterwards.
    `tagcontext`: `push_tag`, the body, and `pop_tag` in the `finally` clause. -/
def execProg (s : State) : Prog → State × Bool
  | .prim op =>
    let s1 := step s op
    (s1, decide (s1.errors ≠ s.errors))
  | .raise => (s, true)
  | .ctx name attrs body =>
    let r := execList (step s (.push name attrs)) body
    let s2 := step r.1 .pop
    (s2, r.2 || decide (s2.errors ≠ r.1.errors))
/-- run a block: stops at the first statement that raises -/
def execList (s : State) : List Prog → State × Bool
  | [] => (s, false)
  | p :: ps =>
    let r := execProg s p
    if r.2 then r else execList r.1 ps
end

end GIVerif.XmlWriter
