/-
  C12 model: giscanner/gdumpparser.py (GDumpParser: `_introspect_*`, `_parse_parents`,
  `_split_type_and_symbol_prefix`, `_pair_boxed_type`, `_pair_pointer_type`,
  `_find_class_record`, `_add_record_fields`, the get-type removal of `parse`,
  `_introspect_error_quark`) and the parts of giscanner/maintransformer.py that finish the
  merge (`_pass_type_resolution`: parent-chain walk, `_resolve_and_filter_type_list`;
  `_split_uscored_by_type` / `_pair_static_method` as far as they decide whether an
  error-quark function stays in the namespace or is floated into a class (`Namespace.float`);
  `_pair_class_virtuals`; `_pair_quarks_with_enums` over `Namespace.symbols`), plus `Type.create_from_gtype_name` / `Type._compare` of ast.py.

  The model starts where the dump parser starts: at the namespace produced by
  `Transformer.parse` (a list of nodes, insertion order of `Namespace.names`) and at the dump
  XML as a tree of records.  `to_underscores_noprefix` (C04's function) is an input: every
  node carries its underscored name.  Import-free apart from the Py library and generated
  tables, so it links into the compiled driver.
-/
import GIVerif.Py.Str
import GIVerif.Gen.Dump

namespace GIVerif.Dump
open GIVerif.Py

/-! ## property flags (`_introspect_properties`) -/

/-- Python `x & m` for an `int` x of either sign and a non-negative mask m
    (two's complement semantics of Python's unbounded ints: `~n & m = m - (n & m)`). -/
def pyAnd (x : Int) (m : Nat) : Nat :=
  match x with
  | .ofNat n => n &&& m
  | .negSucc n => m - (n &&& m)

structure PFlags where
  readable : Bool
  writable : Bool
  construct : Bool
  constructOnly : Bool
  deriving DecidableEq, Repr

/-- `readable = (flags & G_PARAM_READABLE) != 0` … with the constants of the source -/
def decodeFlags (w : Int) : PFlags :=
  { readable := pyAnd w Gen.gParamReadable != 0
    writable := pyAnd w Gen.gParamWritable != 0
    construct := pyAnd w Gen.gParamConstruct != 0
    constructOnly := pyAnd w Gen.gParamConstructOnly != 0 }

/-! ## types (`ast.Type` as far as the dump needs it) -/

inductive Ty where
  /-- `target_fundamental` set (with the ctype of the table entry) -/
  | fund (name : Str) (ctype : Str)
  /-- `target_giname` set; came from a GType name, so `ctype` is None -/
  | giname (n : Str)
  /-- unresolved, `gtype_name` only -/
  | gtype (g : Str)
  /-- `ast.Map` / `ast.Array` built by `create_from_gtype_name` (fundamental `<map>` / `<array>`) -/
  | container (kind : Str) (arrayType : Str) (elems : Str)
  deriving DecidableEq, Repr

def lookupStr {β : Type} (tbl : List (Str × β)) (k : Str) : Option β :=
  (tbl.find? (fun e => e.1 == k)).map (·.2)

/-- `Type.create_from_gtype_name` -/
def createFromGtypeName (g : Str) : Ty :=
  match lookupStr Gen.gtypeFundamentals g with
  | some (f, c) => .fund f c
  | none =>
    match lookupStr Gen.gtypeContainers g with
    | some (k, a, e) => .container k a e
    | none => .gtype g

def tyFund : Ty → Option Str
  | .fund n _ => some n
  | .container k _ _ => some ('<' :: k ++ ['>'])
  | _ => none

def tyGiname : Ty → Option Str
  | .giname n => some n
  | _ => none

def tyCtype : Ty → Option Str
  | .fund _ c => some c
  | _ => none

/-- `Type._compare(self, other, operator.eq)` with `self = a` -/
def tyEq (a b : Ty) : Bool :=
  match tyFund a with
  | some f => tyFund b == some f
  | none =>
    match tyGiname a with
    | some g => tyGiname b == some g
    | none => tyCtype a == tyCtype b

/-- `Type.resolved` -/
def tyResolved : Ty → Bool
  | .gtype _ => false
  | _ => true

/-! ## the namespace -/

inductive Kind where
  | func | quark | record | union | enum | bitfield | cls | iface | boxed | callback | other
  deriving DecidableEq, Repr

structure Field where
  name : Str
  /-- anonymous callback member: the parameters' ctypes -/
  anon : Option (List Str) := none
  /-- otherwise the ctype of the field's type (None for anonymous struct/union members) -/
  ctype : Option Str := none
  deriving DecidableEq, Repr

structure PropN where
  name : Str
  ty : Ty
  flags : PFlags
  default : Option Str
  deriving DecidableEq, Repr

structure Sig where
  name : Str
  ret : Ty
  params : List (Str × Ty)
  when : Option Str
  noRecurse : Bool
  detailed : Bool
  action : Bool
  noHooks : Bool
  deriving DecidableEq, Repr

structure Node where
  name : Str
  kind : Kind
  ctype : Option Str := none
  gtypeName : Option Str := none
  getType : Option Str := none
  symPrefix : Option Str := none
  /-- functions: the C symbol -/
  symbol : Option Str := none
  /-- functions: `is_type_meta_function()` -/
  metaFn : Bool := false
  /-- functions: `retval.type.ctype == 'GQuark'` -/
  retQuark : Bool := false
  nparams : Nat := 0
  /-- `to_underscores_noprefix(name).lower()` -/
  uscored : Str := []
  fields : List Field := []
  /-- callbacks: parameter ctypes -/
  cbParams : List Str := []
  parentChain : List Ty := []
  parent : Option Ty := none
  abstract : Bool := false
  final : Bool := false
  fundamental : Bool := false
  interfaces : List Ty := []
  prereqs : List Ty := []
  props : List PropN := []
  sigs : List Sig := []
  typeStruct : Option Str := none
  gtypeStructFor : Option Str := none
  vfuncs : List Str := []
  errorDomain : Option Str := none
  deriving DecidableEq, Repr

abbrev NS := List Node

/-- `Namespace.get` -/
def nsGet (ns : NS) (name : Str) : Option Node := ns.find? (fun n => n.name == name)

/-- `Namespace.remove` as far as `names` goes -/
def nsRemove (ns : NS) (name : Str) : NS := ns.filter (fun n => n.name != name)

/-- `Namespace.append(node, replace=True)`: the previous holder of the name is removed, the
    new node goes to the end of the ordered dict -/
def nsAppend (ns : NS) (n : Node) : NS := nsRemove ns n.name ++ [n]

def nsUpdate (ns : NS) (name : Str) (f : Node → Node) : NS :=
  ns.map (fun n => if n.name == name then f n else n)

/-- `Namespace.get_by_symbol` -/
def nsGetBySymbol (ns : NS) (sym : Str) : Option Node := ns.find? (fun n => n.symbol == some sym)

structure Env where
  nsName : Str
  idPrefixes : List Str
  symPrefixes : List Str
  /-- `_parsed_includes` in order: namespace name, its `type_names` as (GType name, node name) -/
  includes : List (Str × List (Str × Str))

def giname (env : Env) (name : Str) : Str := env.nsName ++ '.' :: name

/-- own-namespace branch of `strip_identifier`: the first identifier prefix of the namespace
    that starts `ident` is cut (`None` = TransformerException: unknown or foreign identifier) -/
def stripIdentifier (env : Env) (ident : Str) : Option Str :=
  let hidden := startsWith ident ['_']
  let ident' := if hidden then ident.drop 1 else ident
  match env.idPrefixes.find? (fun p => startsWith ident' p) with
  | some p => some ((if hidden then ['_'] else []) ++ ident'.drop p.length)
  | none => none

def withUscore (p : Str) : Str := if endsWith p ['_'] then p else p ++ ['_']

/-- own-namespace branch of `split_csymbol`: first symbol prefix (with `_`) that starts the symbol -/
def splitCSymbol (env : Env) (sym : Str) : Option Str :=
  match env.symPrefixes.find? (fun p => startsWith sym (withUscore p)) with
  | some p => some (sym.drop (withUscore p).length)
  | none => none

/-! ## the dump -/

structure DProp where
  name : Str
  type : Str
  flags : Int
  default : Option Str

structure DSignal where
  name : Str
  ret : Str
  when : Option Str
  noRecurse : Option Str
  detailed : Option Str
  action : Option Str
  noHooks : Option Str
  params : List Str

structure DEntry where
  tag : Str
  name : Str
  getType : Str
  parents : Option Str := none
  abstract : Option Str := none
  final : Option Str := none
  implements : List Str := []
  prereqs : List Str := []
  props : List DProp := []
  signals : List DSignal := []
  /-- `to_underscores_noprefix(strip_identifier(name)).lower()` (C04's function; input) -/
  uscored : Str := []

inductive DItem where
  | type (e : DEntry)
  | quark (function domain : Str)

/-- `_split_type_and_symbol_prefix`: `.error` = message.fatal / failed assert -/
def splitTypeAndSymbolPrefix (env : Env) (getType : Str) : Except String Str :=
  match splitCSymbol env getType with
  | none => .error "abort: get-type symbol is not in this namespace"
  | some name =>
    if name == ['g', 'e', 't', '_', 't', 'y', 'p', 'e'] || name == ['_', 'g', 'e', 't', '_', 'g', 't', 'y', 'p', 'e'] then
      .error "fatal: the class would have no name"
    else if endsWith name ['_', 'g', 'e', 't', '_', 't', 'y', 'p', 'e'] then
      .ok (name.take (name.length - 9))
    else
      .ok (name.take (name.length - 10))

/-- `_parse_parents`: `parents_str.split(',')` unless the attribute is absent or empty -/
def parseParents (parents : Option Str) : List Ty :=
  match parents with
  | none => []
  | some [] => []
  | some s => (splitChar ',' s []).map createFromGtypeName

def decodeProp (p : DProp) : PropN :=
  { name := p.name, ty := createFromGtypeName p.type, flags := decodeFlags p.flags, default := p.default }

/-- `_introspect_properties`: one `ast.Property` per `<property>`, appended in document order -/
def introspectProperties (ps : List DProp) : List PropN := ps.map decodeProp

/-- argument names `object`, `p0`, `p1`, … -/
def natToStr (n : Nat) : Str := (toString n).toList

def sigParams : Nat → List Str → List (Str × Ty)
  | _, [] => []
  | i, t :: ts =>
    ((if i == 0 then ['o', 'b', 'j', 'e', 'c', 't'] else 'p' :: natToStr (i - 1)), createFromGtypeName t) :: sigParams (i + 1) ts

def isOne (a : Option Str) : Bool := a.getD ['0'] == ['1']

def decodeSignal (s : DSignal) : Sig :=
  { name := s.name, ret := createFromGtypeName s.ret, params := sigParams 0 s.params, when := s.when
    noRecurse := isOne s.noRecurse, detailed := isOne s.detailed, action := isOne s.action
    noHooks := isOne s.noHooks }

/-- `_introspect_signals` -/
def introspectSignals (ss : List DSignal) : List Sig := ss.map decodeSignal

/-- `bool(xmlnode.attrib.get('abstract', False))` -/
def attrTruthy : Option Str → Bool
  | some s => !s.isEmpty
  | none => false

/-- `_add_record_fields` -/
def addRecordFields (ns : NS) (n : Node) : Node :=
  match nsGet ns n.name with
  | some r => if r.kind == .record then { n with ctype := r.ctype, fields := r.fields } else n
  | none => n

/-- state of `GDumpParser.parse` while it walks the dump -/
structure PState where
  ns : NS
  boxed : List Node := []
  pointers : List Node := []
  privates : List Str := []

/-- dict assignment `d[node.gtype_name] = node` -/
def dictSet (d : List Node) (n : Node) : List Node :=
  if d.any (fun m => m.gtypeName == n.gtypeName) then
    d.map (fun m => if m.gtypeName == n.gtypeName then n else m)
  else d ++ [n]

/-- `_introspect_object` (`fundamental = false`) and `_introspect_fundamental` -/
def introspectObject (env : Env) (st : PState) (x : DEntry) (fundamental : Bool) : Except String PState := do
  let pfx ← splitTypeAndSymbolPrefix env x.getType
  match stripIdentifier env x.name with
  | none => if fundamental then pure st else .error "fatal: identifier is not in this namespace"
  | some oname =>
    let node : Node :=
      { name := oname, kind := .cls, gtypeName := some x.name, getType := some x.getType
        symPrefix := some pfx, abstract := attrTruthy x.abstract, final := attrTruthy x.final
        parentChain := parseParents x.parents, fundamental := fundamental, uscored := x.uscored
        props := if fundamental then [] else introspectProperties x.props
        sigs := if fundamental then [] else introspectSignals x.signals
        interfaces := x.implements.map createFromGtypeName }
    pure { st with ns := nsAppend st.ns (addRecordFields st.ns node) }

/-- `_introspect_interface` -/
def introspectInterface (env : Env) (st : PState) (x : DEntry) : Except String PState := do
  let pfx ← splitTypeAndSymbolPrefix env x.getType
  match stripIdentifier env x.name with
  | none => .error "fatal: identifier is not in this namespace"
  | some iname =>
    let ctype := match nsGet st.ns iname with
      | some r => if r.kind == .record then r.ctype else none
      | none => none
    let node : Node :=
      { name := iname, kind := .iface, gtypeName := some x.name, getType := some x.getType
        symPrefix := some pfx, uscored := x.uscored, ctype := ctype
        props := introspectProperties x.props, sigs := introspectSignals x.signals
        prereqs := x.prereqs.map createFromGtypeName }
    if startsWith x.getType ['_'] then pure { st with privates := st.privates ++ [x.name] }
    else pure { st with ns := nsAppend st.ns node }

/-- `_introspect_enum` (members are C13's; only the registration data is kept here) -/
def introspectEnum (env : Env) (st : PState) (x : DEntry) : Except String PState := do
  let pfx ← splitTypeAndSymbolPrefix env x.getType
  match stripIdentifier env x.name with
  | none => .error "fatal: identifier is not in this namespace"
  | some ename =>
    let node : Node :=
      { name := ename, kind := if x.tag == ['f', 'l', 'a', 'g', 's'] then .bitfield else .enum
        ctype := some x.name, gtypeName := some x.name, getType := some x.getType
        symPrefix := some pfx, uscored := x.uscored }
    pure { st with ns := nsAppend st.ns node }

/-- `_introspect_boxed` / `_introspect_pointer`: kept aside, keyed by GType name -/
def introspectBoxedLike (env : Env) (st : PState) (x : DEntry) (pointer : Bool) : Except String PState :=
  match stripIdentifier env x.name with
  | none => .error "fatal: identifier is not in this namespace"
  | some bname => do
    let pfx ← splitTypeAndSymbolPrefix env x.getType
    let node : Node :=
      { name := bname, kind := .boxed, gtypeName := some x.name, getType := some x.getType
        symPrefix := some pfx, uscored := x.uscored }
    if pointer then pure { st with pointers := dictSet st.pointers node }
    else pure { st with boxed := dictSet st.boxed node }

/-- `_introspect_error_quark` -/
def introspectErrorQuark (st : PState) (function domain : Str) : PState :=
  match nsGetBySymbol st.ns function with
  | none => st
  | some f => { st with ns := nsAppend st.ns { f with kind := .quark, errorDomain := some domain } }

/-- `_introspect_type` dispatch -/
def introspectItem (env : Env) (st : PState) : DItem → Except String PState
  | .quark f d => pure (introspectErrorQuark st f d)
  | .type x =>
    if x.tag == ['e', 'n', 'u', 'm'] || x.tag == ['f', 'l', 'a', 'g', 's'] then introspectEnum env st x
    else if x.tag == ['c', 'l', 'a', 's', 's'] then introspectObject env st x false
    else if x.tag == ['i', 'n', 't', 'e', 'r', 'f', 'a', 'c', 'e'] then introspectInterface env st x
    else if x.tag == ['b', 'o', 'x', 'e', 'd'] then
      (if x.name == ['G', 'P', 'a', 'r', 'a', 'm', 'S', 'p', 'e', 'c', 'M', 'i', 'n', 'i', 'O', 'b', 'j', 'e', 'c', 't'] then .error "outside: gstreamer workaround"
       else introspectBoxedLike env st x false)
    else if x.tag == ['p', 'o', 'i', 'n', 't', 'e', 'r'] then introspectBoxedLike env st x true
    else if x.tag == ['f', 'u', 'n', 'd', 'a', 'm', 'e', 'n', 't', 'a', 'l'] then introspectObject env st x true
    else .error "abort: unhandled tag"

def introspectAll (env : Env) : PState → List DItem → Except String PState
  | st, [] => pure st
  | st, i :: is => do
    let st' ← introspectItem env st i
    introspectAll env st' is

def isCompound (k : Kind) : Bool := k == .record || k == .union

/-- `_pair_boxed_type` -/
def pairBoxed (env : Env) (ns : NS) (b : Node) : NS :=
  match b.gtypeName.bind (stripIdentifier env) with
  | none => ns
  | some name =>
    match nsGet ns name with
    | none => ns ++ [b]
    | some p =>
      if isCompound p.kind then
        nsUpdate ns name (fun n => { n with gtypeName := b.gtypeName, getType := b.getType, symPrefix := b.symPrefix })
      else ns

/-- `_pair_pointer_type`: a bare pointer type is dropped -/
def pairPointer (env : Env) (ns : NS) (b : Node) : NS :=
  match b.gtypeName.bind (stripIdentifier env) with
  | none => ns
  | some name =>
    match nsGet ns name with
    | none => ns
    | some p =>
      if isCompound p.kind then
        nsUpdate ns name (fun n => { n with gtypeName := b.gtypeName, getType := b.getType, symPrefix := b.symPrefix })
      else ns

def isClassLike (n : Node) : Bool := n.kind == .cls || n.kind == .iface

def recordNamed (ns : NS) (name : Str) : Option (Option Str) :=
  match nsGet ns name with
  | some r => some (if r.kind == .record then some r.name else none)
  | none => none

/-- the structure `_find_class_record` pairs a class / interface with: `<name>Class`, or the
    first of `<name>Iface`, `<name>Interface` that exists (`if pair_record: break`), provided
    it is a record -/
def classRecordName (ns : NS) (c : Node) : Option Str :=
  if c.kind == .cls then (recordNamed ns (c.name ++ ['C', 'l', 'a', 's', 's'])).join
  else
    match recordNamed ns (c.name ++ ['I', 'f', 'a', 'c', 'e']) with
    | some r => r
    | none => (recordNamed ns (c.name ++ ['I', 'n', 't', 'e', 'r', 'f', 'a', 'c', 'e'])).join

/-- the two assignments of `_find_class_record` -/
def linkOne (ns : NS) (c r : Str) : NS :=
  ns.map (fun n =>
    if n.name == c then { n with typeStruct := some r }
    else if n.name == r then { n with gtypeStructFor := some c }
    else n)

def classPairs (ns : NS) : List (Str × Str) :=
  (ns.filter isClassLike).filterMap (fun c => (classRecordName ns c).map (fun r => (c.name, r)))

/-- the loop `for node in namespace.values(): if Class/Interface: _find_class_record(node)`
    (names and kinds do not change while it runs, so the lookups are done up front) -/
def findClassRecords (ns : NS) : NS :=
  (classPairs ns).foldl (fun acc p => linkOne acc p.1 p.2) ns

/-- `isinstance(node, ast.Registered) and node.get_type is not None` -/
def isRegistered (n : Node) : Bool :=
  (n.kind == .record || n.kind == .union || n.kind == .enum || n.kind == .bitfield || n.kind == .cls
    || n.kind == .iface || n.kind == .boxed) && n.getType.isSome

/-- names of the functions `parse` collects in `to_remove` (`.error`: a failed assert) -/
def getTypeFunctionNames (env : Env) : List Node → Except String (List Str)
  | [] => pure []
  | n :: ns =>
    if isRegistered n then
      match n.getType with
      | none => getTypeFunctionNames env ns
      | some g =>
        if g == ['i', 'n', 't', 'e', 'r', 'n'] then getTypeFunctionNames env ns
        else
          match splitCSymbol env g with
          | none => .error "abort: get-type symbol is not in this namespace"
          | some name => do
            let rest ← getTypeFunctionNames env ns
            pure (name :: rest)
    else getTypeFunctionNames env ns

def hasDup : List Str → Bool
  | [] => false
  | x :: xs => xs.contains x || hasDup xs

/-- the end of `parse`: the get-type functions leave the namespace -/
def removeGetTypes (env : Env) (ns : NS) : Except String NS := do
  let names ← getTypeFunctionNames env ns
  if names.any (fun nm => match nsGet ns nm with
      | some f => !(f.kind == .func || f.kind == .quark)
      | none => true) then .error "abort: get-type function is not in the namespace"
  else if hasDup names then .error "abort: get-type function removed twice"
  else pure (ns.filter (fun n => !names.contains n.name))

/-- `GDumpParser.parse` -/
def parseDump (env : Env) (ns : NS) (dump : List DItem) : Except String (NS × List Str) := do
  let st ← introspectAll env { ns := ns } dump
  let ns1 := st.boxed.foldl (pairBoxed env) st.ns
  let ns2 := st.pointers.foldl (pairPointer env) ns1
  let ns3 := findClassRecords ns2
  let ns4 ← removeGetTypes env ns3
  pure (ns4, st.privates)

/-! ## MainTransformer: type resolution -/

/-- `_resolve_type_from_gtype_name` followed by the `lookup_giname` check of `resolve_type`:
    the scanned namespace first, then the includes -/
def resolveGtype (env : Env) (ns : NS) (g : Str) : Option Str :=
  match ns.find? (fun n => n.gtypeName == some g) with
  | some n => some (giname env n.name)
  | none =>
    env.includes.findSome? (fun inc =>
      (inc.2.find? (fun e => e.1 == g)).map (fun e => inc.1 ++ '.' :: e.2))

/-- `resolve_type` on a type made by `create_from_gtype_name` (mutation made explicit) -/
def resolveTy (res : Str → Option Str) : Ty → Ty
  | .gtype g => match res g with
    | some n => .giname n
    | none => .gtype g
  | t => t

/-- the parent-chain walk of `_pass_type_resolution`: the first parent for which
    `lookup_typenode` finds a node (fundamental names resolve but have no node) -/
def parentWalk (res : Str → Option Str) : List Ty → Option Ty
  | [] => none
  | p :: ps =>
    match tyGiname (resolveTy res p) with
    | some n => some (.giname n)
    | none => parentWalk res ps

def defaultIfaceParent : Ty := .giname ['G', 'O', 'b', 'j', 'e', 'c', 't', '.', 'O', 'b', 'j', 'e', 'c', 't']

def resolveParent (res : Str → Option Str) (isIface : Bool) (chain : List Ty) : Option Ty :=
  match parentWalk res chain with
  | some p => some p
  | none => if isIface then some defaultIfaceParent else none

/-- `list.remove(x)`: drop the first item equal to x (`item == x`, item on the left) -/
def removeFirst (x : Ty) : List Ty → List Ty
  | [] => []
  | t :: ts => if tyEq t x then ts else t :: removeFirst x ts

/-- in-place mutation of one list element by `resolve_type`: the first element that still
    reads `a` now reads `b` -/
def replaceFirst (a b : Ty) : List Ty → List Ty
  | [] => []
  | t :: ts => if t = a then b :: ts else t :: replaceFirst a b ts

/-- the loop of `_resolve_and_filter_type_list`: iterate over the original list, remove
    from the copy what does not resolve -/
def filterLoop (res : Str → Option Str) : List Ty → List Ty → List Ty
  | [], new => new
  | t :: ts, new =>
    let t' := resolveTy res t
    if tyResolved t' then filterLoop res ts (replaceFirst t t' new)
    else filterLoop res ts (removeFirst t' new)

def resolveAndFilter (res : Str → Option Str) (l : List Ty) : List Ty := filterLoop res l l

def resolveProp (res : Str → Option Str) (p : PropN) : PropN := { p with ty := resolveTy res p.ty }

def resolveSig (res : Str → Option Str) (s : Sig) : Sig :=
  { s with ret := resolveTy res s.ret, params := s.params.map (fun p => (p.1, resolveTy res p.2)) }

/-- `_pass_type_resolution` on one class / interface -/
def resolveNode (res : Str → Option Str) (n : Node) : Node :=
  if isClassLike n then
    { n with
      parent := resolveParent res (n.kind == .iface) n.parentChain
      props := n.props.map (resolveProp res)
      sigs := n.sigs.map (resolveSig res)
      interfaces := if n.kind == .cls then resolveAndFilter res n.interfaces else n.interfaces
      prereqs := if n.kind == .iface then resolveAndFilter res n.prereqs else n.prereqs }
  else n

def resolvePass (env : Env) (ns : NS) : NS := ns.map (resolveNode (resolveGtype env ns))

/-! ## MainTransformer: underscored type names, static-method pairing of quark functions -/

/-- `_uscore_type_names`: registered types by their symbol prefix, other records / unions by
    their underscored name; a later node overrides an earlier one (dict assignment) -/
def uscoreTypeNames (ns : NS) : List (Str × Node) :=
  ns.filterMap (fun n =>
    if isRegistered n then n.symPrefix.map (fun p => (p, n))
    else if isCompound n.kind then some (n.uscored, n)
    else none)

def lookupLast {β : Type} (d : List (Str × β)) (k : Str) : Option β :=
  (d.reverse.find? (fun e => e.1 == k)).map (·.2)

/-- every way of writing `s` as `p` or `p ++ "_" ++ rest`, shortest `p` first -/
def uscoreCutsAux : Str → Str → List (Str × Str)
  | acc, [] => [(acc.reverse, [])]
  | acc, c :: cs =>
    if c = '_' then (acc.reverse, cs) :: uscoreCutsAux (c :: acc) cs
    else uscoreCutsAux (c :: acc) cs

/-- the candidates `_split_uscored_by_type` tries, in its order: `rsplit('_', 0)`,
    `rsplit('_', 1)`, … (longest type string first) -/
def uscoreCuts (s : Str) : List (Str × Str) := (uscoreCutsAux [] s).reverse

/-- `_split_uscored_by_type` -/
def splitUscoredByType (reg : List (Str × Node)) (s : Str) : Option (Node × Str) :=
  (uscoreCuts s).findSome? (fun c => (lookupLast reg c.1).map (fun n => (n, c.2)))

/-- `_pair_function` on an error-quark function (no parameters, not a constructor name):
    `true` = `_pair_static_method` floats it out of the namespace (a class owns it) -/
def quarkFloated (env : Env) (reg : List (Str × Node)) (q : Node) : Except String Bool :=
  match q.symbol with
  | none => pure false
  | some sym =>
    if startsWith sym ['_'] || q.metaFn then pure false
    else
      match splitCSymbol env sym with
      | none => .error "abort: symbol is not in this namespace"
      | some sub =>
        match splitUscoredByType reg sub with
        | some (t, fname) => pure (!fname.isEmpty && t.kind == .cls)
        | none => pure false

/-- the function-pairing loop of `transform` as far as the error-quark functions go: `.1` = the
    namespace afterwards (a function that a class now owns has left `Namespace.names`), `.2` = the
    functions `Namespace.float` took out, in loop order.  `float` keeps the function reachable:
    it deletes the symbol from `Namespace.symbols` and inserts it again, i.e. at the END of the dict. -/
def floatQuarks (env : Env) (reg : List (Str × Node)) : NS → Except String (NS × List Node)
  | [] => pure ([], [])
  | n :: ns => do
    let r ← floatQuarks env reg ns
    if n.kind == .quark then
      if n.nparams != 0 then .error "outside: error-quark function with parameters"
      else if (← quarkFloated env reg n) then pure (r.1, n :: r.2) else pure (n :: r.1, r.2)
    else pure (n :: r.1, r.2)

/-- `Namespace.symbols.values()` as far as the error-quark functions go when
    `_pair_quarks_with_enums` runs: those still in the namespace in namespace order (both dicts
    receive an `ErrorQuarkFunction` at their end in `_introspect_error_quark`), then the floated
    ones in the order they were floated -/
def symbolsOrder (kept : NS) (floated : List Node) : List Node := kept ++ floated

/-! ## MainTransformer: virtual methods -/

/-- `_resolve_type_from_ctype`, own-namespace branch: strip `*`, cut the first matching
    identifier prefix, look the name up; else by C type -/
def resolveCtypeOwn (env : Env) (ns : NS) (c : Str) : Option Node :=
  let stripped := c.filter (· != '*')
  match env.idPrefixes.find? (fun p => startsWith stripped p) with
  | some p =>
    match nsGet ns (stripped.drop p.length) with
    | some n => some n
    | none => ns.reverse.find? (fun n => n.ctype == some stripped)
  | none => none

/-- parameters of the callback behind a field of the class structure -/
def fieldCallback (env : Env) (ns : NS) (f : Field) : Option (List Str) :=
  match f.anon with
  | some ps => some ps
  | none =>
    match f.ctype with
    | some c =>
      match resolveCtypeOwn env ns c with
      | some n => if n.kind == .callback then some n.cbParams else none
      | none => none
    | none => none

/-- "Check the first parameter is the object" -/
def isVfuncField (env : Env) (ns : NS) (cls : Node) (f : Field) : Bool :=
  match fieldCallback env ns f with
  | some (p :: _) =>
    (match resolveCtypeOwn env ns p with
     | some n => n.name == cls.name
     | none => false)
  | _ => false

/-- `_pair_class_virtuals`: names of the virtual methods, in field order -/
def pairClassVirtuals (env : Env) (ns : NS) (cls : Node) : List Str :=
  match cls.typeStruct with
  | none => []
  | some r =>
    match nsGet ns r with
    | none => []
    | some rec => (rec.fields.filter (isVfuncField env ns cls)).map (·.name)

def pairVirtuals (env : Env) (ns : NS) : NS :=
  ns.map (fun n => if isClassLike n then { n with vfuncs := pairClassVirtuals env ns n } else n)

/-! ## MainTransformer: `_pair_quarks_with_enums` -/

/-- the fallback table: every enumeration by underscored name and by name -/
def uscoreEnums (ns : NS) : List (Str × Node) :=
  ns.flatMap (fun n => if n.kind == .enum then [(n.uscored, n), (n.name, n)] else [])

/-- the node an error-quark function's domain is written to -/
def quarkTarget (env : Env) (reg : List (Str × Node)) (ns : NS) (q : Node) : Except String (Option Node) :=
  match q.symbol with
  | none => pure none
  | some sym =>
    if sym.take (sym.length - 6) == ['g', '_', 'i', 'o', '_', 'e', 'r', 'r', 'o', 'r'] then .error "outside: g_io_error special case"
    else
      match splitCSymbol env sym with
      | none => .error "abort: symbol is not in this namespace"
      | some sub =>
        let short := sub.take (sub.length - 6)
        match lookupLast reg short with
        | some n => pure (some n)
        | none => pure (lookupLast (uscoreEnums ns) short)

def setErrorDomain (ns : NS) (target : Str) (dom : Option Str) : NS :=
  nsUpdate ns target (fun n => if n.kind == .enum then { n with errorDomain := dom } else n)

/-- the loop `for node in list(self._namespace.symbols.values())`: every error-quark function
    the namespace knows by symbol — those still in it AND those moved into a class as static
    methods in the meantime — in the order of the `symbols` dict (`qs`) -/
def pairQuarksLoop (env : Env) (reg : List (Str × Node)) (ns0 : NS) : List Node → NS → Except String NS
  | [], acc => pure acc
  | q :: qs, acc =>
    if q.kind == .quark then do
      match (← quarkTarget env reg ns0 q) with
      | some t => pairQuarksLoop env reg ns0 qs (setErrorDomain acc t.name q.errorDomain)
      | none => pairQuarksLoop env reg ns0 qs acc
    else pairQuarksLoop env reg ns0 qs acc

def pairQuarksWithEnums (env : Env) (reg : List (Str × Node)) (ns : NS) (floated : List Node) : Except String NS :=
  pairQuarksLoop env reg ns (symbolsOrder ns floated) ns

/-! ## the whole merge -/

structure Merged where
  afterParse : NS
  /-- `_uscore_type_names` -/
  reg : List (Str × Node)
  /-- the namespace when `_pair_quarks_with_enums` starts -/
  paired : NS
  /-- the error-quark functions that became static methods of a class -/
  floated : List Node
  final : NS
  privates : List Str

/-- `GDumpParser.parse` followed by the C12-relevant steps of `MainTransformer.transform` -/
def merge (env : Env) (ns : NS) (dump : List DItem) : Except String Merged := do
  let (ns1, priv) ← parseDump env ns dump
  let ns2 := resolvePass env ns1
  let reg := uscoreTypeNames ns2
  let fl ← floatQuarks env reg ns2
  let ns4 := pairVirtuals env fl.1
  let ns5 ← pairQuarksWithEnums env reg ns4 fl.2
  pure { afterParse := ns1, reg := reg, paired := ns4, floated := fl.2, final := ns5, privates := priv }

/-! ## the writer's order (girwriter.py `_write_class`: `sorted(...)`) -/

/-- `_write_property`: `if prop.default_value is not None: attrs.append(('default-value', …))` —
    only an absent default is not written; the empty string is -/
def writtenDefault : Option Str → Option Str
  | none => none
  | some s => some s

def strLe (a b : Str) : Bool := decide (a ≤ b)

/-- `sorted(node.properties)` / `sorted(node.signals)`: by name, stable -/
def sortByName {α : Type} (name : α → Str) (l : List α) : List α :=
  l.mergeSort (fun a b => strLe (name a) (name b))

end GIVerif.Dump
