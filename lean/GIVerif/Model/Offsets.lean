/-
  C08 model: girepository/giroffsets.c (whole file), the part of girepository/girffi.c it
  calls (`gi_type_tag_get_ffi_type`, as the measured table Gen.ffiTagTable), and the
  places of girepository/girnode.c where the results are written into StructBlob /
  UnionBlob / FieldBlob.  One definition per C function, same branch order.

  C `int` arithmetic is modelled as 32-bit two's complement (`wrap32`, and `BitVec 32`
  for the bit operations of GI_ALIGN); the property theorems carry explicit no-overflow
  hypotheses, so the wrap-around behaviour chosen here for the (undefined in C) overflow
  case is never relied upon.

  Import-free apart from the Py library and generated tables, so it links into the
  compiled driver.
-/
import GIVerif.Py.Str
import GIVerif.Gen.FfiSizes

namespace GIVerif.Offsets
open GIVerif.Py

/-- reduction of a mathematical integer to a C `int` (32-bit two's complement) -/
def wrap32 (x : Int) : Int := (x + 2147483648) % 4294967296 - 2147483648

/-- `#define GI_ALIGN(n, align) (((n) + (align) - 1) & ~((align) - 1))` on C ints -/
def giAlign (n a : Int) : Int :=
  let x : BitVec 32 := BitVec.ofInt 32 n + BitVec.ofInt 32 a - 1#32
  let m : BitVec 32 := ~~~(BitVec.ofInt 32 a - 1#32)
  (x &&& m).toInt

/-- glib's `MAX(a, b)  (((a) > (b)) ? (a) : (b))` -/
def cMax (a b : Int) : Int := if a > b then a else b

/-- what the size helpers hand back: `*size`, `*alignment` and the `gboolean` result -/
structure SA where
  size : Int
  align : Int
  ok : Bool
  deriving Repr, DecidableEq, Inhabited

/-- `*size = -1; *alignment = -1; return FALSE;` -/
def SA.fail : SA := ⟨-1, -1, false⟩

/-- `ffi_type_pointer.size`, `.alignment` -/
def ptrSA : SA := ⟨Gen.ffiPointerSize, Gen.ffiPointerAlign, true⟩

/-! ### enumerations: compute_enum_storage_type, get_enum_size_alignment -/

def probeWidth (n : Nat) : Nat :=
  match Gen.probeEnums.find? (fun e => e.1 == n) with
  | some e => e.2.1
  | none => 0

def probeSigned (n : Nat) : Bool :=
  match Gen.probeEnums.find? (fun e => e.1 == n) with
  | some e => e.2.2
  | none => false

/-- the fold `if (value > max_value) max_value = value; if (value < min_value) min_value = value;`
    starting from `max_value = 0, min_value = 0` -/
def enumMinMax (values : List Int) : Int × Int :=
  values.foldl (fun (mm : Int × Int) v =>
    (if v < mm.1 then v else mm.1, if v > mm.2 then v else mm.2)) (0, 0)

/-- the decision chain of compute_enum_storage_type: (width, signed_type) -/
def enumWidthSigned (minV maxV : Int) : Nat × Bool :=
  if minV < 0 then
    if minV > -128 && maxV ≤ 127 then (probeWidth 7, true)
    else if minV ≥ Gen.gMinShort && maxV ≤ Gen.gMaxShort then (probeWidth 8, true)
    else if maxV ≤ Gen.gMaxInt then (probeWidth 9, true)
    else (Gen.sizeofGint64, true)
  else
    if maxV ≤ 127 then (probeWidth 1, probeSigned 1)
    else if maxV ≤ 255 then (probeWidth 2, probeSigned 2)
    else if maxV ≤ Gen.gMaxShort then (probeWidth 3, probeSigned 3)
    else if maxV ≤ Gen.gMaxUShort then (probeWidth 4, probeSigned 4)
    else if maxV ≤ Gen.gMaxInt then (probeWidth 5, probeSigned 5)
    else (probeWidth 6, probeSigned 6)

/-- `width`/`signed_type` to a GITypeTag; `none` is `g_error ("Unexpected enum width")` -/
def storageTag (ws : Nat × Bool) : Option Nat :=
  match ws.1 with
  | 1 => some (if ws.2 then Gen.tagInt8 else Gen.tagUInt8)
  | 2 => some (if ws.2 then Gen.tagInt16 else Gen.tagUInt16)
  | 4 => some (if ws.2 then Gen.tagInt32 else Gen.tagUInt32)
  | 8 => some (if ws.2 then Gen.tagInt64 else Gen.tagUInt64)
  | _ => none

/-- compute_enum_storage_type on (min, max) -/
def enumStorage (minV maxV : Int) : Option Nat := storageTag (enumWidthSigned minV maxV)

/-- compute_enum_storage_type on the member values -/
def enumStorageOfValues (values : List Int) : Option Nat :=
  let mm := enumMinMax values
  enumStorage mm.1 mm.2

/-- bytes of a storage tag: the `switch` of get_enum_size_alignment picks
    ffi_type_uint8/16/32/64 -/
def storageWidth (tag : Nat) : Option Nat :=
  if tag == Gen.tagInt8 || tag == Gen.tagUInt8 then some 1
  else if tag == Gen.tagInt16 || tag == Gen.tagUInt16 then some 2
  else if tag == Gen.tagInt32 || tag == Gen.tagUInt32 then some 4
  else if tag == Gen.tagInt64 || tag == Gen.tagUInt64 then some 8
  else none

/-- get_enum_size_alignment; the second component is "g_error was hit" -/
def enumSA (values : List Int) : SA × Bool :=
  match enumStorageOfValues values with
  | none => (SA.fail, true)
  | some tag =>
    match storageWidth tag with
    | none => (SA.fail, true)
    | some w =>
      match Gen.ffiUIntTable.find? (fun e => e.1 == w) with
      | some e => (⟨e.2.1, e.2.2, true⟩, false)
      | none => (SA.fail, true)

/-! ### types: get_type_size_alignment -/

/-- GIrNodeType as far as giroffsets.c looks at it -/
inductive Ty where
  | basic (tag : Nat) (isPointer : Bool)
  | array (isPointer hasSize : Bool) (size : Int) (elem : Ty)
  | iface (name : Str) (isPointer : Bool)
  deriving Repr, Inhabited

/-- `gi_type_tag_get_ffi_type (tag, FALSE)` as measured; `none` = g_assert_not_reached -/
def ffiOfTag (tag : Nat) : Option (Nat × Nat × Nat) :=
  match Gen.ffiTagTable.find? (fun e => e.1 == tag) with
  | some e => some (e.2.2.1, e.2.2.2.1, e.2.2.2.2)
  | none => none

/-- get_type_size_alignment.  `iface` is get_interface_size_alignment (it needs the module).
    The Bool is "a g_warning / g_error / fatal was emitted" (g-ir-compiler makes warnings
    fatal, so for the tool this means: no typelib is written). -/
def typeSA (iface : Str → SA × Bool) : Ty → SA × Bool
  | .basic tag isPointer =>
    if isPointer then (ptrSA, false)
    else match ffiOfTag tag with
      | none => (SA.fail, true)
      | some (kind, size, align) =>
        if kind == 2 then (SA.fail, true)            -- "%s has void type"
        else if kind == 1 then (SA.fail, true)       -- "is not a pointer and is of type"
        else (⟨size, align, true⟩, false)
  | .array isPointer hasSize n elem =>
    if isPointer then (ptrSA, false)
    else if !hasSize then (SA.fail, false)
    else
      let e := typeSA iface elem
      if !e.1.ok then (SA.fail, e.2)
      else (⟨wrap32 (n * e.1.size), e.1.align, true⟩, e.2)
  | .iface name isPointer =>
    if isPointer then (ptrSA, false) else iface name

/-! ### members and the two loops -/

inductive Member where
  /-- G_IR_NODE_FIELD; `isCallback` is `field->callback != NULL` -/
  | field (name : Str) (isCallback : Bool) (ty : Ty)
  /-- a bare G_IR_NODE_CALLBACK member (`<callback>` directly inside a `<record>`) -/
  | callback (name : Str)
  /-- functions, constants, ...: not looked at -/
  | other
  deriving Repr, Inhabited

/-- girparser.c start_type, C arrays in a FIELD: `is_pointer` starts TRUE and is cleared when the array
    has a fixed size, or when it has neither a length nor a c:type ending in `*` (`T data[];`, the
    flexible array member as g-ir-scanner writes it) -/
def arrayFieldIsPointer (hasSize hasLength ctypeIsPointer : Bool) : Bool :=
  if hasSize then false
  else if !hasLength then (if !ctypeIsPointer then false else true)
  else true

/-- the GIrNodeType start_type builds for a C array typed field (`size` is `atoi (fixed-size)`, -1 when absent) -/
def fieldArrayTy (hasSize : Bool) (size : Int) (hasLength ctypeIsPointer : Bool) (elem : Ty) : Ty :=
  .array (arrayFieldIsPointer hasSize hasLength ctypeIsPointer) hasSize (if hasSize then size else -1) elem

/-- a member after get_field_size_alignment -/
inductive MemberSA where
  | field (sa : SA)
  | callback
  | other
  deriving Repr, DecidableEq, Inhabited

/-- get_field_size_alignment -/
def fieldSA (iface : Str → SA × Bool) (isCallback : Bool) (ty : Ty) : SA × Bool :=
  if isCallback then (ptrSA, false) else typeSA iface ty

/-- the `for` loop of compute_struct_field_offsets from a given state
    (size, alignment, have_error); returns the `field->offset` assigned to every FIELD
    member in order, and the final (size, alignment, have_error) -/
def structLoop (ptr : SA) : Int → Int → Bool → List MemberSA → List Int × Int × Int × Bool
  | size, al, err, [] => ([], size, al, err)
  | size, al, err, .field sa :: ms =>
    if !err && sa.ok then
      let off := giAlign size sa.align
      let r := structLoop ptr (wrap32 (off + sa.size)) (cMax al sa.align) false ms
      (off :: r.1, r.2)
    else
      let r := structLoop ptr size al true ms
      (-1 :: r.1, r.2)
  | size, al, err, .callback :: ms =>
    structLoop ptr (wrap32 (giAlign size ptr.align + ptr.size)) (cMax al ptr.align) err ms
  | size, al, err, .other :: ms => structLoop ptr size al err ms

/-- what a struct / union computation leaves in the node -/
structure Layout where
  size : Int
  align : Int
  offsets : List Int
  deriving Repr, DecidableEq, Inhabited

/-- the tail of both functions: pad to the alignment, or (-1, -1) on error -/
def finishLayout (offs : List Int) (size al : Int) (err : Bool) : Layout :=
  let size' := giAlign size al
  if !err then ⟨size', al, offs⟩ else ⟨-1, -1, offs⟩

/-- compute_struct_field_offsets on members whose sizes have been determined -/
def structLayout (ptr : SA) (ms : List MemberSA) : Layout :=
  let r := structLoop ptr 0 1 false ms
  finishLayout r.1 r.2.1 r.2.2.1 r.2.2.2

/-- the `for` loop of compute_union_field_offsets: (size, alignment, have_error).
    Bare callbacks are not looked at here (the C code has no such branch). -/
def unionLoop : Int → Int → Bool → List MemberSA → Int × Int × Bool
  | size, al, err, [] => (size, al, err)
  | size, al, err, .field sa :: ms =>
    if !err && sa.ok then unionLoop (cMax size sa.size) (cMax al sa.align) false ms
    else unionLoop size al true ms
  | size, al, err, _ :: ms => unionLoop size al err ms

/-- `field->offset` of union members is never assigned: it keeps the 0 of g_malloc0 -/
def unionOffsets : List MemberSA → List Int
  | [] => []
  | .field _ :: ms => 0 :: unionOffsets ms
  | _ :: ms => unionOffsets ms

/-- compute_union_field_offsets -/
def unionLayout (ms : List MemberSA) : Layout :=
  let r := unionLoop 0 1 false ms
  finishLayout (unionOffsets ms) r.1 r.2.1 r.2.2

/-! ### the module: get_interface_size_alignment / _g_ir_node_compute_offsets -/

inductive NodeKind where
  | struct | boxed | object | iface | union | enum | flags | callback | other
  deriving Repr, DecidableEq, Inhabited

structure Node where
  name : Str
  kind : NodeKind
  members : List Member
  values : List Int
  deriving Repr, Inhabited

/-- `_g_ir_find_node` within the module: first entry with that name -/
def findNode (env : List Node) (name : Str) : Option Node := env.find? (fun n => n.name == name)

/-- girparser.c start_function, `<callback>` inside a `<field>`: a record or class field embeds it
    (`field->callback`); in a union, boxed or interface the field's type becomes `gpointer`
    (`parse_type (ctx, "gpointer")`: tag VOID, is_pointer), `ctx->current_typed` is cleared (so the
    next function-like element is a member of the container again, not this field's callback) and the
    signature is skipped -/
def inlineCallbackField (parent : NodeKind) (name : Str) : Member :=
  match parent with
  | .struct | .object => .field name true (.basic Gen.tagVoid false)
  | _ => .field name false (.basic Gen.tagVoid true)

/-- get_field_size_alignment for every member, in order.  The C loop stops calling it after
    the first failure; `warnPrefix` accounts for that. -/
def membersSA (iface : Str → SA × Bool) : List Member → List (MemberSA × Bool)
  | [] => []
  | .field _ cb ty :: ms => let r := fieldSA iface cb ty; (.field r.1, r.2) :: membersSA iface ms
  | .callback _ :: ms => (.callback, false) :: membersSA iface ms
  | .other :: ms => (.other, false) :: membersSA iface ms

/-- did any size query that the C loop really performs warn?  (queries stop at the first
    failing field) -/
def warnPrefix : List (MemberSA × Bool) → Bool
  | [] => false
  | (.field sa, w) :: ms => w || (sa.ok && warnPrefix ms)
  | (_, _) :: ms => warnPrefix ms

/-- Result of computing one node: what is stored in it, plus "a warning or fatal error
    was emitted on the way". -/
structure NodeResult where
  layout : Layout
  warn : Bool
  deriving Repr, Inhabited

/-- `_g_ir_node_compute_offsets (build, node)` for the node called `name`, followed by the
    read-back of get_interface_size_alignment.  `stack` lists the nodes whose alignment
    currently is the -2 "in progress" mark; `fuel` bounds the nesting depth (one unit per
    descent; the depth cannot exceed the number of nodes because of the -2 mark, so
    `env.length + 1` is always enough — running out is reported as a warning). -/
def nodeSA (env : List Node) : Nat → List Str → Str → SA × Bool
  | 0, _, _ => (SA.fail, true)
  | fuel + 1, stack, name =>
    match findNode env name with
    | none => (SA.fail, true)                                 -- "Can't resolve type": fatal
    | some node =>
      match node.kind with
      | .enum | .flags => enumSA node.values
      | .callback => (ptrSA, false)
      | .other => (SA.fail, true)                             -- "is not a pointer and is of type"
      | .union =>
        if stack.contains name then (⟨0, -2, false⟩, true)    -- "Recursion encountered"
        else
          let ms := membersSA (nodeSA env fuel (name :: stack)) node.members
          let l := unionLayout (ms.map (·.1))
          (⟨l.size, l.align, l.align > 0⟩, warnPrefix ms)
      | _ =>
        if stack.contains name then (⟨0, -2, false⟩, true)
        else
          let ms := membersSA (nodeSA env fuel (name :: stack)) node.members
          let l := structLayout ptrSA (ms.map (·.1))
          (⟨l.size, l.align, l.align > 0⟩, warnPrefix ms)

/-- `_g_ir_node_compute_offsets` for a top-level struct-like or union node: the layout
    left in the node and its fields -/
def computeNode (env : List Node) (node : Node) : NodeResult :=
  let iface := nodeSA env (env.length + 1) [node.name]
  let ms := membersSA iface node.members
  match node.kind with
  | .union => ⟨unionLayout (ms.map (·.1)), warnPrefix ms⟩
  | _ => ⟨structLayout ptrSA (ms.map (·.1)), warnPrefix ms⟩

/-! ### what girnode.c stores in the typelib, and what the accessors read back -/

/-- `if (field->offset >= 0 && field->offset < 0xFFFF) blob->struct_offset = field->offset;
    else blob->struct_offset = 0xFFFF;` (guint16; 0xFFFF is the "unknown" marker).  The `% 65536` is
    the conversion to guint16 of the assignment; C08_stored shows it never changes the value. -/
def blobOffset (off : Int) : Nat := if off ≥ 0 && off < 65535 then (off % 65536).toNat else 65535

/-- `blob->alignment = alignment` (a 6-bit field) -/
def blobAlign (a : Int) : Nat := (a % 64).toNat

/-- `blob->size = size` (guint32) -/
def blobSize (s : Int) : Nat := (s % 4294967296).toNat

structure Stored where
  size : Nat
  align : Nat
  offsets : List Nat
  deriving Repr, DecidableEq, Inhabited

def storeLayout (l : Layout) : Stored := ⟨blobSize l.size, blobAlign l.align, l.offsets.map blobOffset⟩

end GIVerif.Offsets
