/-
  C17 model: girepository/girepository.c — the typelib search path, version parsing and
  ordering, the exact-version search, the latest-version election, the loaded / lazily
  loaded tables, conflict detection, registration, dependency loading, load-from-memory and
  the queries.  One Lean definition per C function (named in the comment).

  File system = association list  directory path ↦ list of entries; an entry is a file name
  plus the header of the typelib stored in it (namespace, version, dependency strings).
  A directory's entries are given in the order g_dir_read_name delivers them.

  Literals ('-', '.', ".typelib", "<builtin>", "GIRepository", "2.0", "girepository-1.0") are
  those of the source; translators/gen_repo.py re-reads them on every run and
  `C17_source_shape` (Props/C17.lean) compares.

  Import-free apart from the Py library and the generated table, so it links into the driver.
-/
import GIVerif.Py.Str
import GIVerif.Gen.Repo

namespace GIVerif.Repo
open GIVerif.Py

/-! ### strtol / parse_version / compare_version -/

/-- C `isspace` in the "C" locale -/
def isCSpace (c : Char) : Bool :=
  c = ' ' || c = '\t' || c = '\n' || c = '\x0b' || c = '\x0c' || c = '\r'

def isDigit (c : Char) : Bool := c.isDigit

/-- value of a run of decimal digits -/
def digitsVal (ds : Str) : Nat := ds.foldl (fun a c => 10 * a + (c.toNat - '0'.toNat)) 0

/-- clamp to the range of a 64-bit `long` (strtol's ERANGE behaviour) -/
def clampLong (v : Int) : Int :=
  if v > 9223372036854775807 then 9223372036854775807
  else if v < -9223372036854775808 then -9223372036854775808 else v

/-- `(int) long` on x86-64 / gcc: reduction modulo 2^32 into [-2^31, 2^31) -/
def toInt32 (v : Int) : Int := (v + 2147483648) % 4294967296 - 2147483648

/-- the optional sign of strtol -/
def isNeg : Str → Bool
  | '-' :: _ => true
  | _ => false

def stripSign : Str → Str
  | '-' :: r => r
  | '+' :: r => r
  | s => s

/-- `strtol (s, &end, 10)`: (value, text at `end`).  No digits ⇒ no conversion: value 0 and
    `end = s`. -/
def strtol (s : Str) : Int × Str :=
  let s1 := s.dropWhile isCSpace
  let s2 := stripSign s1
  let ds := s2.takeWhile isDigit
  if ds.isEmpty then (0, s)
  else
    let n : Int := digitsVal ds
    (clampLong (if isNeg s1 then -n else n), s2.dropWhile isDigit)

/-- `parse_version`: `none` = FALSE.  `dot == end` holds exactly when the text at `end` starts
    with '.', because the characters strtol consumes (blanks, sign, digits) are never '.'. -/
def parseVersion (v : Str) : Option (Int × Int) :=
  let r := strtol v
  if !v.contains '.' then some (toInt32 r.1, 0)
  else match r.2 with
    | '.' :: tail =>
      let r2 := strtol tail
      if r2.2.isEmpty then some (toInt32 r.1, toInt32 r2.1) else none
    | _ => none

/-- the comparison of `compare_version` on parsed pairs -/
def cmpPair (a b : Int × Int) : Int :=
  if a.1 > b.1 then 1 else if b.1 > a.1 then -1
  else if a.2 > b.2 then 1 else if b.2 > a.2 then -1 else 0

/-- `compare_version`; `none` = one of the two `g_assert (success)` fails -/
def compareVersion (v1 v2 : Str) : Option Int :=
  match parseVersion v1, parseVersion v2 with
  | some a, some b => some (cmpPair a b)
  | _, _ => none

/-! ### the file system and the search path -/

/-- header of a typelib: namespace, nsversion, the '|'-separated dependency string split -/
structure Hdr where
  ns : Str
  ver : Str
  deps : List Str
  deriving DecidableEq, Repr

structure Entry where
  name : Str
  hdr : Hdr
  deriving DecidableEq, Repr

abbrev FS := List (Str × List Entry)

/-- `g_dir_open` / `g_mapped_file_new`: the entries of a directory, `none` if it does not exist -/
def lookupDir (fs : FS) (d : Str) : Option (List Entry) :=
  match fs.find? (fun p => p.1 == d) with
  | some p => some p.2
  | none => none

/-- `g_build_filename (dir, name, NULL)` for directories without trailing separator -/
def buildFilename (dir name : Str) : Str := dir ++ '/' :: name

def typelibSuffix : Str := ".typelib".toList
def builtinSource : Str := "<builtin>".toList
def selfName : Str := "GIRepository".toList
def selfVersion : Str := "2.0".toList
def selfFilename : Str := "GIRepository-2.0.typelib".toList

/-- `init_globals`: the entries of GI_TYPELIB_PATH (g_strsplit on ':' — the empty string gives
    no entry), then `<libdir>/girepository-1.0` -/
def initSearchPath (env : Option Str) (libdir : Str) : List Str :=
  (match env with
   | none => []
   | some [] => []
   | some e => splitChar ':' e []) ++ [buildFilename libdir "girepository-1.0".toList]

/-- `g_irepository_prepend_search_path` -/
def prependSearchPath (path : List Str) (dir : Str) : List Str := dir :: path

/-! ### exact-version search -/

/-- `"%s-%s.typelib"` -/
def exactFileName (ns ver : Str) : Str := ns ++ '-' :: ver ++ typelibSuffix

structure Found where
  path : Str
  hdr : Hdr
  deriving DecidableEq, Repr

/-- the loop of `find_namespace_version`: first directory in which the file can be mapped -/
def findInDirs (fs : FS) (fname : Str) : List Str → Option Found
  | [] => none
  | d :: ds =>
    match lookupDir fs d with
    | none => findInDirs fs fname ds
    | some es =>
      match es.find? (fun e => e.name == fname) with
      | some e => some ⟨buildFilename d fname, e.hdr⟩
      | none => findInDirs fs fname ds

/-- `find_namespace_version` -/
def findVersion (fs : FS) (ns ver : Str) (path : List Str) : Option Found :=
  if ns == selfName && ver != selfVersion then none
  else findInDirs fs (exactFileName ns ver) path

/-! ### latest-version election -/

/-- the text between the last '-' and the last '.' of an entry whose last '.' comes after its
    last '-' (`g_strndup (last_dash+1, name_end-(last_dash+1))`) -/
def versionOfEntry (name : Str) : Str :=
  (((name.reverse.dropWhile (· ≠ '.')).drop 1).takeWhile (· ≠ '-')).reverse

/-- the filters of the inner loop of `enumerate_namespace_versions`, up to `parse_version` -/
def entryVersion (ns name : Str) : Option Str :=
  if !endsWith name typelibSuffix then none
  else if !startsWith name (ns ++ ['-']) then none
  else if ns == selfName && name != selfFilename then none
  else
    let v := versionOfEntry name
    if (parseVersion v).isSome then some v else none

/-- `struct NamespaceVersionCandidadate` (the mapped file is represented by its header) -/
structure Cand where
  pathIndex : Nat
  path : Str
  version : Str
  hdr : Hdr
  deriving DecidableEq, Repr

/-- one directory of `enumerate_namespace_versions`; candidates are PREPENDED -/
def scanDir (ns dirname : Str) (index : Nat) : List Entry → List Str → List Cand → List Str × List Cand
  | [], found, cands => (found, cands)
  | e :: es, found, cands =>
    match entryVersion ns e.name with
    | none => scanDir ns dirname index es found cands
    | some v =>
      if found.contains v then scanDir ns dirname index es found cands
      else scanDir ns dirname index es (v :: found)
             (⟨index, buildFilename dirname e.name, v, e.hdr⟩ :: cands)

/-- the outer loop: `index` counts the directories that could be opened -/
def enumLoop (fs : FS) (ns : Str) : List Str → Nat → List Str → List Cand → List Cand
  | [], _, _, cands => cands
  | d :: ds, index, found, cands =>
    match lookupDir fs d with
    | none => enumLoop fs ns ds index found cands
    | some es =>
      let r := scanDir ns d index es found cands
      enumLoop fs ns ds (index + 1) r.1 r.2

/-- `enumerate_namespace_versions` -/
def enumerateVersions (fs : FS) (ns : Str) (path : List Str) : List Cand :=
  enumLoop fs ns path 0 [] []

/-- `compare_candidate_reverse`; an unparsable version (g_assert) cannot occur for enumerated
    candidates (`enumerate_parses`), it is mapped to 0 -/
def cmpCand (c1 c2 : Cand) : Int :=
  match compareVersion c1.version c2.version with
  | none => 0
  | some r =>
    if r > 0 then -1 else if r < 0 then 1
    else if c1.pathIndex = c2.pathIndex then 0
    else if c1.pathIndex > c2.pathIndex then 1 else -1

/-- insertion into a sorted list, stable: the new element goes before the first element that
    it does not compare greater than -/
def insertCand (c : Cand) : List Cand → List Cand
  | [] => [c]
  | x :: xs => if cmpCand c x ≤ 0 then c :: x :: xs else x :: insertCand c xs

/-- `g_slist_sort (candidates, compare_candidate_reverse)`: GLib's merge sort is stable; any
    stable sort gives the same list -/
def sortCands : List Cand → List Cand
  | [] => []
  | c :: cs => insertCand c (sortCands cs)

/-- `find_namespace_latest`: sort, take the head -/
def findLatest (fs : FS) (ns : Str) (path : List Str) : Option Cand :=
  (sortCands (enumerateVersions fs ns path)).head?

/-! ### repository state -/

structure Typelib where
  id : Nat
  hdr : Hdr
  deriving DecidableEq, Repr

/-- one hash-table entry: the key is `namespace\0source`, the value the typelib.  The
    namespace part of the key is always the header namespace of the value
    (`register_internal` builds it from the header). -/
structure Loaded where
  source : Str
  tl : Typelib
  deriving DecidableEq, Repr

def Loaded.ns (l : Loaded) : Str := l.tl.hdr.ns

structure Repo where
  typelibs : List Loaded
  lazy : List Loaded
  nextId : Nat
  searchPath : List Str
  deriving DecidableEq, Repr

def Repo.init (searchPath : List Str) : Repo := ⟨[], [], 0, searchPath⟩

inductive Err where
  | notFound | mismatch | versionConflict
  | abort      -- g_assert failure
  | crash      -- NULL dereference (dependency string without '-')
  | fuel       -- model artefact: recursion bound reached (cyclic dependencies)
  deriving DecidableEq, Repr

/-- `g_hash_table_lookup (table, namespace)` -/
def lookupTbl (tbl : List Loaded) (ns : Str) : Option Loaded :=
  tbl.find? (fun l => l.ns == ns)

/-- `g_hash_table_insert (table, build_typelib_key (namespace, source), typelib)`: an existing
    key is KEPT (with its old source) and only the value is replaced -/
def insertTbl : List Loaded → Str → Typelib → List Loaded
  | [], source, tl => [⟨source, tl⟩]
  | l :: ls, source, tl =>
    if l.ns == tl.hdr.ns then ⟨l.source, tl⟩ :: ls else l :: insertTbl ls source tl

/-- `g_hash_table_steal (lazy_typelibs, key)`: the entry of the namespace leaves the table -/
def eraseTbl (tbl : List Loaded) (ns : Str) : List Loaded :=
  tbl.filter (fun l => l.ns != ns)

inductive Status where
  | found (tl : Typelib)
  | conflict (loaded : Str)
  /-- NULL without `version_conflict`; `lazyEntry` = the entry of the lazy table when `*lazy_status`
      is TRUE (found there, but the caller did not allow a lazily loaded typelib) -/
  | absent (lazyEntry : Option Loaded)
  deriving DecidableEq, Repr

/-- `check_version_conflict` -/
def checkVersionConflict (tl : Typelib) (expected : Option Str) : Status :=
  match expected with
  | none => .found tl
  | some v => if v = tl.hdr.ver then .found tl else .conflict tl.hdr.ver

/-- `get_registered_status` -/
def getRegisteredStatus (s : Repo) (ns : Str) (ver : Option Str) (allowLazy : Bool) : Status :=
  match lookupTbl s.typelibs ns with
  | some l => checkVersionConflict l.tl ver
  | none =>
    match lookupTbl s.lazy ns with
    | none => .absent none
    | some l =>
      if !allowLazy then
        -- "the caller has to load it eagerly, but another version is still a conflict"
        match checkVersionConflict l.tl ver with
        | .conflict v => .conflict v
        | _ => .absent (some l)
      else checkVersionConflict l.tl ver

/-- `get_registered (repository, namespace, NULL)` -/
def getRegistered (s : Repo) (ns : Str) : Option Typelib :=
  match getRegisteredStatus s ns none true with
  | .found tl => some tl
  | _ => none

/-- split of a dependency string at its last '-' (`strrchr (dependency, '-')`); `none` when
    there is no '-' (the C code then dereferences NULL) -/
def splitDep (d : Str) : Option (Str × Str) :=
  if d.contains '-' then
    some (((d.reverse.dropWhile (· ≠ '-')).drop 1).reverse, (d.reverse.takeWhile (· ≠ '-')).reverse)
  else none

abbrev Req := Repo → Str → Str → Repo × Except Err Typelib

/-- `load_dependencies_recurse`, with the recursive `g_irepository_require (repository, ns,
    version, 0, error)` passed in -/
def loadDepsWith (req : Req) : Repo → List Str → Repo × Except Err Unit
  | s, [] => (s, .ok ())
  | s, d :: ds =>
    match splitDep d with
    | none => (s, .error .crash)
    | some (dn, dv) =>
      match req s dn dv with
      | (s', .ok _) => loadDepsWith req s' ds
      | (s', .error e) => (s', .error e)

/-- `register_internal` -/
def registerInternalWith (req : Req) (s : Repo) (source : Str) (lazy : Bool) (tl : Typelib) :
    Repo × Except Err Typelib :=
  if lazy then
    if (lookupTbl s.lazy tl.hdr.ns).isSome then (s, .error .abort)
    else ({ s with lazy := insertTbl s.lazy source tl }, .ok tl)
  else
    match loadDepsWith req s tl.hdr.deps with
    | (s1, .error e) => (s1, .error e)
    | (s1, .ok ()) =>
      match lookupTbl s1.lazy tl.hdr.ns with
      | some l =>
        -- "transitioning from lazily loaded state": the key of the lazy entry (namespace and
        -- source) is stolen from the lazy table and re-used in the table of loaded typelibs
        ({ s1 with lazy := eraseTbl s1.lazy tl.hdr.ns,
                   typelibs := insertTbl s1.typelibs l.source tl }, .ok tl)
      | none => ({ s1 with typelibs := insertTbl s1.typelibs source tl }, .ok tl)

/-- what `require_internal` holds after the search: the mapped file (its path and header) and
    `tmp_version`, the version its FILE NAME stands for — the requested one (`g_strdup (version)`)
    or the version string of the elected candidate -/
structure Mapped where
  path : Str
  hdr : Hdr
  version : Str
  deriving DecidableEq, Repr

/-- the file `require_internal` maps: the exact one when a version is given, else the elected -/
def findFile (fs : FS) (ns : Str) (ver : Option Str) (path : List Str) : Option Mapped :=
  match ver with
  | some v => (findVersion fs ns v path).map (fun f => ⟨f.path, f.hdr, v⟩)
  | none => (findLatest fs ns path).map (fun c => ⟨c.path, c.hdr, c.version⟩)

/-- `require_internal`.  `fuel` bounds the depth of the dependency recursion (the C code has
    no bound: cyclic dependencies recurse until the stack is exhausted).  The nested requires
    use the process-global search path and flags 0. -/
def requireInternal (fs : FS) : Nat → Repo → Str → Option Str → Bool → List Str →
    Repo × Except Err Typelib
  | 0, s, _, _, _, _ => (s, .error .fuel)
  | fuel + 1, s, ns, ver, lazy, path =>
    match getRegisteredStatus s ns ver lazy with
    | .found tl => (s, .ok tl)
    | .conflict _ => (s, .error .versionConflict)
    | .absent (some l) =>
      -- loaded lazily before and required eagerly now: the dependencies of the typelib that is
      -- there are loaded and it moves to the loaded typelibs; no file is searched
      -- (`g_irepository_get_typelib_path` = the source of the lazy entry)
      registerInternalWith
        (fun s' dn dv => requireInternal fs fuel s' dn (some dv) false s'.searchPath)
        s l.source false l.tl
    | .absent none =>
      match findFile fs ns ver path with
      | none => (s, .error .notFound)
      | some f =>
        let tl : Typelib := ⟨s.nextId, f.hdr⟩
        let s0 := { s with nextId := s.nextId + 1 }
        if f.hdr.ns ≠ ns then (s0, .error .mismatch)
        else if f.hdr.ver ≠ f.version then (s0, .error .mismatch)
        else
          registerInternalWith
            (fun s' dn dv => requireInternal fs fuel s' dn (some dv) false s'.searchPath)
            s0 f.path lazy tl

/-- `g_irepository_require` -/
def require (fs : FS) (fuel : Nat) (s : Repo) (ns : Str) (ver : Option Str) (lazy : Bool) :=
  requireInternal fs fuel s ns ver lazy s.searchPath

/-- `g_irepository_require_private` -/
def requirePrivate (fs : FS) (fuel : Nat) (s : Repo) (dir ns : Str) (ver : Option Str) (lazy : Bool) :=
  requireInternal fs fuel s ns ver lazy [dir]

/-- `g_typelib_new_from_memory` + `g_irepository_load_typelib`: registered at this version ⇒ the
    namespace is returned and the new typelib is not registered; registered at another version
    (`version_conflict` set by the failed lookup) ⇒ NAMESPACE_VERSION_CONFLICT; else registration
    under "<builtin>" — of the lazily loaded typelib when there is one (and the LAZY flag is absent),
    else of the typelib passed in. -/
def loadTypelib (fs : FS) (fuel : Nat) (s : Repo) (hdr : Hdr) (lazy : Bool) : Repo × Except Err Typelib :=
  let tl : Typelib := ⟨s.nextId, hdr⟩
  let s0 := { s with nextId := s.nextId + 1 }
  match getRegisteredStatus s0 hdr.ns (some hdr.ver) lazy with
  | .found t => (s0, .ok t)
  | .conflict _ => (s0, .error .versionConflict)
  | .absent (some l) =>
    -- "loaded lazily before: keep that typelib and load it eagerly now"
    registerInternalWith
      (fun s' dn dv => requireInternal fs fuel s' dn (some dv) false s'.searchPath)
      s0 builtinSource lazy l.tl
  | .absent none =>
    registerInternalWith
      (fun s' dn dv => requireInternal fs fuel s' dn (some dv) false s'.searchPath)
      s0 builtinSource lazy tl

/-! ### queries -/

/-- `g_irepository_get_loaded_namespaces` (hash-table order: compare as multisets) -/
def getLoadedNamespaces (s : Repo) : List Str := s.typelibs.map Loaded.ns ++ s.lazy.map Loaded.ns

/-- `g_irepository_get_version` -/
def getVersion (s : Repo) (ns : Str) : Option Str := (getRegistered s ns).map (·.hdr.ver)

/-- `g_irepository_get_typelib_path` -/
def getTypelibPath (s : Repo) (ns : Str) : Option Str :=
  match lookupTbl s.typelibs ns with
  | some l => some l.source
  | none => (lookupTbl s.lazy ns).map (·.source)

/-- `g_irepository_get_immediate_dependencies` -/
def getImmediateDependencies (s : Repo) (ns : Str) : Option (List Str) :=
  (getRegistered s ns).map (·.hdr.deps)

def addSet (d : Str) (acc : List Str) : List Str := if acc.contains d then acc else acc ++ [d]

/-- the loop of `get_typelib_dependencies_transitive`; `g_return_if_fail (typelib != NULL)`
    leaves the loop of the current invocation -/
def depsLoop (s : Repo) (recur : Hdr → List Str → List Str) : List Str → List Str → List Str
  | [], acc => acc
  | d :: ds, acc =>
    let acc := addSet d acc
    match splitDep d with
    | none => acc
    | some (dn, _) =>
      match getRegistered s dn with
      | none => acc
      | some tl => depsLoop s recur ds (recur tl.hdr acc)

/-- `get_typelib_dependencies_transitive` (no visited set in the C code either) -/
def depsTransitive (s : Repo) : Nat → Hdr → List Str → List Str
  | 0, _, acc => acc
  | fuel + 1, h, acc => depsLoop s (depsTransitive s fuel) h.deps acc

/-- `g_irepository_get_dependencies` (a set: compare sorted) -/
def getDependencies (s : Repo) (fuel : Nat) (ns : Str) : Option (List Str) :=
  (getRegistered s ns).map (fun tl => depsTransitive s fuel tl.hdr [])

/-- `g_irepository_is_registered` -/
def isRegistered (s : Repo) (ns : Str) (ver : Option Str) : Bool :=
  match getRegisteredStatus s ns ver true with
  | .found _ => true
  | _ => false

/-- `g_irepository_enumerate_versions` (unordered: compare sorted).  The loaded version is
    added unless `g_list_find_custom (ret, loaded_version, g_str_equal)` finds something; with
    `g_str_equal` as the comparison (0 = match) it finds the first version that is DIFFERENT
    from the loaded one. -/
def enumerateVersionsQuery (fs : FS) (s : Repo) (ns : Str) : List Str :=
  let vs := (enumerateVersions fs ns s.searchPath).reverse.map (·.version)
  match getVersion s ns with
  | some v => if vs.any (fun x => x != v) then vs else v :: vs
  | none => vs

/-! ### histories -/

inductive Op where
  | prepend (dir : Str)
  | require (ns : Str) (ver : Option Str) (lazy : Bool)
  | requirePrivate (dir ns : Str) (ver : Option Str) (lazy : Bool)
  | load (hdr : Hdr) (lazy : Bool)
  | query            -- the queries do not change the state
  deriving DecidableEq, Repr

/-- one call; the result typelib / error is dropped here (the driver reports it) -/
def step (fs : FS) (fuel : Nat) (s : Repo) : Op → Repo
  | .prepend d => { s with searchPath := prependSearchPath s.searchPath d }
  | .require ns ver lazy => (require fs fuel s ns ver lazy).1
  | .requirePrivate d ns ver lazy => (requirePrivate fs fuel s d ns ver lazy).1
  | .load hdr lazy => (loadTypelib fs fuel s hdr lazy).1
  | .query => s

def run (fs : FS) (fuel : Nat) (s : Repo) (ops : List Op) : Repo := ops.foldl (step fs fuel) s

end GIVerif.Repo
