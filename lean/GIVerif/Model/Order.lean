/-
  C16 model: everything in the scanner that decides an ORDER or iterates an unordered
  container on the way to the emitted GIR.

    giscanner/girwriter.py     `sorted(...)` emission sites, `nscmp`, `_write_class/_record/...`
    giscanner/ast.py           `Node._compare`, `Include._compare`, `Type._compare`,
                               `Node.get_main_position` (current and pre-d6b0d4f versions)
    giscanner/message.py       `Position.__eq__/__hash__` (is_typedef is NOT part of the identity)
    giscanner/transformer.py   `parse`, `_create_typedef_compound`, `_create_tag_ns_compound`,
                               `_append_new_node` (the tag namespace), `_parse_include` (current and pre-5d8d03e),
                               `_split_c_string_for_namespace_matches`, `_resolve_type_from_ctype`
    giscanner/annotationparser.py `parse_comment_blocks` (the block dictionary)

  Conventions.  A Python `set` is a list WITHOUT an order one may rely on: every statement
  about code that iterates a set is quantified over all permutations of that list.  A `dict`
  is an insertion-ordered association list (`dictSet` keeps the position of an existing key).
  `sorted` is modelled by a stable insertion sort over the `<=` induced by the code's `__lt__`
  keys (for a total preorder the result of a stable sort is unique, so this IS Timsort's result).

  Import-free apart from the Py library and generated tables (links into the driver).
-/
import GIVerif.Py.Str

namespace GIVerif.Order
open GIVerif.Py

/-! ### orders used as sort keys -/

/-- Python `str.__le__`: lexicographic by code point -/
def strLe : Str → Str → Bool
  | [], _ => true
  | _ :: _, [] => false
  | a :: as, b :: bs => a.toNat < b.toNat || (a.toNat == b.toNat && strLe as bs)

def natLe (a b : Nat) : Bool := a ≤ b

/-- Python tuple `<=` of a pair: the first components decide unless they are equal -/
def pairLe [DecidableEq α] (le1 : α → α → Bool) (le2 : β → β → Bool) (a b : α × β) : Bool :=
  if a.1 = b.1 then le2 a.2 b.2 else le1 a.1 b.1

/-- stable insertion: before the first element that is not smaller -/
def insertBy (le : α → α → Bool) (a : α) : List α → List α
  | [] => [a]
  | b :: l => if le a b then a :: b :: l else b :: insertBy le a l

/-- a stable sort (structural recursion, so that `decide` can run it); for a total preorder
    every stable sort -- CPython's Timsort included -- returns this list -/
def isort (le : α → α → Bool) : List α → List α
  | [] => []
  | a :: l => insertBy le a (isort le l)

/-- `sorted(l, key=key)` -/
def sortBy (le : κ → κ → Bool) (key : α → κ) (l : List α) : List α :=
  isort (fun a b => le (key a) (key b)) l

/-- strict part of a `<=` -/
def ltOf (le : κ → κ → Bool) (a b : κ) : Bool := le a b && !le b a

/-- `min(l, key=key)`: the FIRST element whose key is minimal (CPython replaces the
    candidate only on a strict `<`) -/
def minBy (le : κ → κ → Bool) (key : α → κ) : List α → Option α
  | [] => none
  | x :: xs => some (xs.foldl (fun m y => if ltOf le (key y) (key m) then y else m) x)

/-! ### Python containers -/

/-- `d[k] = v` on an insertion-ordered dict -/
def dictSet [DecidableEq κ] : List (κ × β) → κ → β → List (κ × β)
  | [], k, v => [(k, v)]
  | (k', v') :: rest, k, v => if k' = k then (k', v) :: rest else (k', v') :: dictSet rest k v

def dictGet [DecidableEq κ] (d : List (κ × β)) (k : κ) : Option β :=
  (d.find? (fun e => e.1 = k)).map (·.2)

def dictHas [DecidableEq κ] (d : List (κ × β)) (k : κ) : Bool := d.any (fun e => e.1 = k)

/-- the elements of `set(l)` in SOME order: first occurrences (any permutation of this list
    is a possible iteration order) -/
def setOf [DecidableEq α] : List α → List α
  | [] => []
  | x :: xs => x :: (setOf xs).filter (fun y => y ≠ x)

/-! ### source positions (`message.Position`, `ast.Node.file_positions`) -/

/-- a `Position` after the defaulting of `sort_key` (`filename or ''`, `line or 0`,
    `column or 0`) -/
structure Pos where
  file : Str
  line : Nat
  col : Nat
  isTypedef : Bool
  deriving DecidableEq, Repr

/-- `Position.__eq__` / `__hash__` and `sort_key` of `get_main_position` -/
def Pos.key (p : Pos) : Str × Nat × Nat := (p.file, p.line, p.col)

def posKeyLe : Str × Nat × Nat → Str × Nat × Nat → Bool := pairLe strLe (pairLe natLe natLe)

/-- `set.add`: an element equal (by key) to one already present is dropped -/
def addPos (ps : List Pos) (p : Pos) : List Pos :=
  if ps.any (fun q => q.key = p.key) then ps else ps ++ [p]

/-- `Node.get_main_position` as of d6b0d4f: the smallest (filename, line, column), positions
    of definitions preferred over positions of typedefs; `ps` is the set in iteration order -/
def getMainPosition (ps : List Pos) : Option Pos :=
  if ps.isEmpty then none
  else
    let nonTypedef := ps.filter (fun p => !p.isTypedef)
    if !nonTypedef.isEmpty then minBy posKeyLe Pos.key nonTypedef
    else minBy posKeyLe Pos.key ps

/-- what `_write_generic` prints into `<source-position>` -/
def mainPositionKey (ps : List Pos) : Option (Str × Nat × Nat) := (getMainPosition ps).map Pos.key

/-- `Node.get_main_position` BEFORE d6b0d4f (regression witness only): the first non-typedef
    position in iteration order, else the last typedef position -/
def getMainPositionOld (ps : List Pos) : Option Pos :=
  match ps.find? (fun p => !p.isTypedef) with
  | some p => some p
  | none => ps.getLast?

/-! ### the writer's sibling orders (`girwriter.py`) -/

/-- `Include._compare`: (name, version) -/
def sortedIncludes (incs : List (Str × Str)) : List (Str × Str) :=
  sortBy (pairLe strLe strLe) id incs

/-- `sorted(set(namespace.exported_packages))`, `sorted(set(namespace.c_includes))`;
    the argument is the set in iteration order -/
def sortedStrs (l : List Str) : List Str := sortBy strLe id l

inductive Kind where
  | alias | function | functionMacro | enum | bitfield | klass | interface | callback
  | record | union | boxed | constant | docsection | member
  deriving DecidableEq, Repr

/-- the part of an `ast.Node` that decides where its element and its children are written.
    Every list is in the order the Python object holds it (insertion order). -/
structure Node where
  kind : Kind
  name : Str
  interfaces : List Str := []      -- Class.interfaces / Interface.prerequisites: target_giname
  constructors : List Str := []
  staticMethods : List Str := []
  vfuncs : List Str := []
  methods : List Str := []
  properties : List Str := []
  fields : List Str := []          -- declaration order, never sorted
  signals : List Str := []
  members : List Str := []         -- enum members, declaration order, never sorted
  positions : List Pos := []       -- a set
  deriving DecidableEq, Repr

/-- `nscmp`: aliases first, then `Node._compare` (namespace is the same object for all) -/
def nscmpKey (n : Node) : Nat × Str := (if n.kind = .alias then 0 else 1, n.name)

def nscmpLe : Nat × Str → Nat × Str → Bool := pairLe natLe strLe

def tagged (tag : String) (l : List Str) : List (Str × Str) := l.map (fun n => (tag.toList, n))

/-- the (element, name) sequence of the children `_write_<kind>` emits -/
def writeChildren (n : Node) : List (Str × Str) :=
  match n.kind with
  | .klass =>
      tagged "implements" (sortBy strLe id n.interfaces)
      ++ tagged "constructor" (sortBy strLe id n.constructors)
      ++ tagged "function" (sortBy strLe id n.staticMethods)
      ++ tagged "virtual-method" (sortBy strLe id n.vfuncs)
      ++ tagged "method" (sortBy strLe id n.methods)
      ++ tagged "property" (sortBy strLe id n.properties)
      ++ tagged "field" n.fields
      ++ tagged "glib:signal" (sortBy strLe id n.signals)
  | .interface =>
      tagged "prerequisite" (sortBy strLe id n.interfaces)
      ++ tagged "function" (sortBy strLe id n.staticMethods)
      ++ tagged "virtual-method" (sortBy strLe id n.vfuncs)
      ++ tagged "method" (sortBy strLe id n.methods)
      ++ tagged "property" (sortBy strLe id n.properties)
      ++ tagged "field" n.fields
      ++ tagged "glib:signal" (sortBy strLe id n.signals)
  | .record | .union =>
      tagged "field" n.fields
      ++ tagged "constructor" (sortBy strLe id n.constructors)
      ++ tagged "method" (sortBy strLe id n.methods)
      ++ tagged "function" (sortBy strLe id n.staticMethods)
  | .boxed =>
      tagged "constructor" (sortBy strLe id n.constructors)
      ++ tagged "method" (sortBy strLe id n.methods)
      ++ tagged "function" (sortBy strLe id n.staticMethods)
  | .enum | .bitfield =>
      tagged "member" n.members
      ++ tagged "function" (sortBy strLe id n.staticMethods)
  | _ => []

def kindTag : Kind → String
  | .alias => "alias" | .function => "function" | .functionMacro => "function-macro"
  | .enum => "enumeration" | .bitfield => "bitfield" | .klass => "class"
  | .interface => "interface" | .callback => "callback" | .record => "record"
  | .union => "union" | .boxed => "glib:boxed" | .constant => "constant"
  | .docsection => "docsection" | .member => ""

structure Elem where
  tag : Str
  name : Str
  pos : Option (Str × Nat × Nat)
  children : List (Str × Str)
  deriving DecidableEq, Repr

def writeNode (n : Node) : Elem :=
  { tag := (kindTag n.kind).toList, name := n.name, pos := mainPositionKey n.positions,
    children := writeChildren n }

/-- `_write_namespace`: `for node in sorted(namespace.values(), key=nscmp)`; `ast.Member`
    nodes are skipped by `_write_node` -/
def writeNamespace (nodes : List Node) : List Elem :=
  ((sortBy nscmpLe nscmpKey nodes).filter (fun n => n.kind ≠ .member)).map writeNode

/-! ### the C tag namespace (`Transformer.parse` and friends) -/

inductive CKind where
  | record | union
  deriving DecidableEq, Repr

/-- an `ast.Compound`; `cell` is the identity of its `fields` list object (a second typedef of
    a tag SHARES the list of the first: `new_compound.fields = compound.fields`) -/
structure Compound where
  kind : CKind
  name : Option Str
  ctype : Str
  tag : Option Str
  cell : Nat
  isOpaque : Bool
  disguised : Bool
  pointer : Bool
  positions : List Pos
  deriving DecidableEq, Repr

/-- the symbols of the C lexer that touch the tag namespace -/
inductive Sym where
  /-- `typedef struct <tag> <ident>;` / `typedef struct { fields } <ident>;` (tag = none):
      `_create_typedef_compound(cls, symbol)` -/
  | typedef (kind : CKind) (ident : Str) (tag : Option Str) (anonFields : List Str) (file : Str) (line : Nat)
  /-- `struct <tag> { fields };` : `_create_tag_ns_compound(cls, symbol)` -/
  | struct (kind : CKind) (tag : Str) (fields : List Str) (file : Str) (line : Nat)
  deriving DecidableEq, Repr

structure St where
  objs : List Compound := []            -- heap: index = object identity
  cells : List (List Str) := []         -- heap of `fields` list objects
  tagNs : List (Str × Nat) := []        -- Transformer._tag_ns (dict)
  names : List (Str × Nat) := []        -- Namespace.names (OrderedDict)
  warnings : Nat := 0                   -- TransformerException -> message.warn_symbol
  deriving DecidableEq, Repr

inductive PErr where
  | conflict (name : Str)               -- message.fatal("Namespace conflict for ...")
  | internal
  deriving DecidableEq, Repr

def modifyAt (l : List α) (i : Nat) (f : α → α) : List α :=
  match l[i]? with
  | some a => l.set i (f a)
  | none => l

/-- `_append_new_node` restricted to compounds: same object again is ignored, another object
    under the same name is fatal -/
def appendNew (s : St) (name : Str) (id : Nat) : Except PErr St :=
  match dictGet s.names name with
  | some id' => if id' = id then .ok s else .error (.conflict name)
  | none => .ok { s with names := s.names ++ [(name, id)] }

/-- the tail of the loop body of `parse`: `if node and node.name: _append_new_node(node)`;
    `if ... node.tag_name and node.tag_name not in self._tag_ns: self._tag_ns[tag] = node` -/
def register (s : St) (id : Nat) : Except PErr St :=
  match s.objs[id]? with
  | none => .error .internal
  | some c =>
    match (match c.name with
           | some n => appendNew s n id
           | none => .ok s) with
    | .error e => .error e
    | .ok s =>
      match c.tag with
      | some t => if dictHas s.tagNs t then .ok s else .ok { s with tagNs := s.tagNs ++ [(t, id)] }
      | none => .ok s

/-- one iteration of the loop of `Transformer.parse`; `strip` is `strip_identifier`
    (`none` = TransformerException: the symbol is skipped with a warning) -/
def step (strip : Str → Option Str) (s : St) : Sym → Except PErr St
  | .typedef kind ident tag anonFields file line =>
    match strip ident with
    | none => .ok { s with warnings := s.warnings + 1 }
    | some name =>
      let pos : Pos := ⟨file, line, 0, true⟩
      match tag.bind (fun t => (dictGet s.tagNs t).map (fun id => (t, id))) with
      | some (t, id) =>
        match s.objs[id]? with
        | none => .error .internal
        | some c =>
          if c.name.isSome then
            -- another typedef of an already promoted struct: a new compound sharing the fields
            let nc : Compound := ⟨kind, some name, ident, some t, c.cell, false, false, false, [pos]⟩
            register { s with objs := s.objs ++ [nc] } s.objs.length
          else
            -- first typedef of a struct known only by its tag: clobber name and ctype
            register { s with objs := modifyAt s.objs id (fun c =>
              { c with name := some name, ctype := ident, positions := addPos c.positions pos }) } id
      | none =>
        match tag with
        | some t =>
          let nc : Compound := ⟨kind, some name, ident, some t, s.cells.length, true, true, false, [pos]⟩
          register { s with objs := s.objs ++ [nc], cells := s.cells ++ [[]] } s.objs.length
        | none =>
          let nc : Compound := ⟨kind, some name, ident, none, s.cells.length, false, false, false, [pos]⟩
          register { s with objs := s.objs ++ [nc], cells := s.cells ++ [anonFields] } s.objs.length
  | .struct kind tag fields file line =>
    let pos : Pos := ⟨file, line, 0, false⟩
    match dictGet s.tagNs tag with
    | some id =>
      match s.objs[id]? with
      | none => .error .internal
      | some c =>
        let cells := modifyAt s.cells c.cell (fun fs => fs ++ fields)
        let nfields := ((cells[c.cell]?).getD []).length
        register { s with cells := cells, objs := modifyAt s.objs id (fun c =>
          { c with isOpaque := nfields == 0, disguised := false,
                   positions := addPos c.positions pos }) } id
    | none =>
      let nc : Compound := ⟨kind, none, tag, some tag, s.cells.length, fields.length == 0, false, false, [pos]⟩
      register { s with objs := s.objs ++ [nc], cells := s.cells ++ [fields] } s.objs.length

def steps (strip : Str → Option Str) (s : St) : List Sym → Except PErr St
  | [] => .ok s
  | x :: xs => match step strip s x with
    | .ok s' => steps strip s' xs
    | .error e => .error e

/-- the promotion loop at the end of `parse`: structs never typedef'd are named after their tag -/
def promote (strip : Str → Option Str) (s : St) : List (Str × Nat) → Except PErr St
  | [] => .ok s
  | (t, id) :: rest =>
    match s.objs[id]? with
    | none => .error .internal
    | some c =>
      if c.name.isSome then promote strip s rest
      else match strip t with
        | none => promote strip { s with warnings := s.warnings + 1 } rest
        | some n =>
          match appendNew { s with objs := modifyAt s.objs id (fun c => { c with name := some n }) } n id with
          | .ok s' => promote strip s' rest
          | .error e => .error e

/-- `Transformer.parse(symbols)` on a fresh transformer -/
def parseFrom (strip : Str → Option Str) (s : St) (syms : List Sym) : Except PErr St :=
  match steps strip s syms with
  | .ok s' => promote strip s' s'.tagNs
  | .error e => .error e

def parse (strip : Str → Option Str) (syms : List Sym) : Except PErr St := parseFrom strip {} syms

/-- what the writer prints of a record/union -/
structure Rec where
  kind : CKind
  name : Str
  ctype : Str
  fields : List Str
  isOpaque : Bool
  disguised : Bool
  pointer : Bool
  pos : Option (Str × Nat × Nat)
  deriving DecidableEq, Repr

def recOf (s : St) (e : Str × Nat) : Option Rec :=
  (s.objs[e.2]?).map fun c =>
    ⟨c.kind, e.1, c.ctype, (s.cells[c.cell]?).getD [], c.isOpaque, c.disguised, c.pointer,
     mainPositionKey c.positions⟩

/-- the records of the namespace in OUTPUT order (sorted by name, like `_write_namespace`) -/
def emitted (s : St) : List Rec :=
  (sortBy strLe (fun e : Str × Nat => e.1) s.names).filterMap (recOf s)

def parseEmit (strip : Str → Option Str) (syms : List Sym) : Except PErr (List Rec) :=
  match parse strip syms with
  | .ok s => .ok (emitted s)
  | .error e => .error e

/-! ### the block dictionary (`GtkDocCommentBlockParser.parse_comment_blocks`) -/

/-- `comment_blocks[name] = block` for every parsed block, in the order supplied: the LAST block
    of an identifier wins; the second component counts the "multiple comment blocks" warnings -/
def blockDict [DecidableEq κ] (blocks : List (κ × β)) : List (κ × β) × Nat :=
  blocks.foldl (fun acc b => (dictSet acc.1 b.1 b.2, if dictHas acc.1 b.1 then acc.2 + 1 else acc.2)) ([], 0)

/-- a hypothetical "first block wins" dictionary (mutation witness only) -/
def blockDictFirst [DecidableEq κ] (blocks : List (κ × β)) : List (κ × β) :=
  blocks.foldl (fun acc b => if dictHas acc b.1 then acc else acc ++ [b]) []

/-! ### transitive includes and C type resolution (`transformer.py`) -/

/-- a dependency namespace as far as `_resolve_type_from_ctype` looks at it -/
structure DepNs where
  name : Str
  idPrefixes : List Str
  names : List Str                 -- Namespace.names keys
  ctypes : List (Str × Str)        -- Namespace.ctypes: C type -> node name
  deriving DecidableEq, Repr

/-- the recursion of `Transformer._parse_include` as far as `_parsed_includes` is concerned:
    post-order walk; `incs n` is the list the `for include in ...` loop of namespace `n` runs over,
    `(name, version)` pairs; `if include.name not in self._parsed_includes` looks at the name only.
    Returns the keys of `_parsed_includes` in dict order. -/
def parseIncludeOver (incs : Str → List (Str × Str)) : Nat → List Str → Str → List Str
  | 0, parsed, _ => parsed
  | fuel + 1, parsed, n =>
    let parsed := (incs n).foldl
      (fun acc i => if acc.contains i.1 then acc else parseIncludeOver incs fuel acc i.1) parsed
    if parsed.contains n then parsed else parsed ++ [n]

/-- `Transformer._parse_include` (since 5d8d03e): `for include in sorted(namespace.includes)`.
    `iter n` is the order in which Python happens to iterate the `includes` SET of namespace `n`;
    the loop runs over `sorted(...)` of it (`Include._compare`: by name, then version). -/
def parseInclude (iter : Str → List (Str × Str)) : Nat → List Str → Str → List Str :=
  parseIncludeOver (fun n => sortedIncludes (iter n))

/-- the version before 5d8d03e: the loop ran over the set in iteration order -/
def parseIncludeOld (iter : Str → List (Str × Str)) : Nat → List Str → Str → List Str :=
  parseIncludeOver iter

/-- one entry of `matches` in `_split_c_string_for_namespace_matches(ident, is_identifier=True)`:
    the first prefix of the namespace the identifier starts with -/
def matchOf (ident : Str) (ns : DepNs) : Option (DepNs × Str × Nat) :=
  (ns.idPrefixes.find? (fun p => startsWith ident p)).map (fun p => (ns, ident.drop p.length, p.length))

/-- `target = namespace.get(name) or namespace.get_by_ctype(pointer_stripped)`; the GI name -/
def targetIn (ident : Str) (m : DepNs × Str × Nat) : Option Str :=
  if m.1.names.contains m.2.1 then some m.2.1
  else dictGet m.1.ctypes ident

/-- `typeval.target_giname = '%s.%s' % (namespace.name, target.name)` -/
def giNameOf (ident : Str) (m : DepNs × Str × Nat) : Option Str :=
  (targetIn ident m).map (fun t => m.1.name ++ '.' :: t)

/-- `_resolve_type_from_ctype_all_namespaces`: `namespace.get_by_ctype(pointer_stripped)` -/
def fallbackOf (ident : Str) (d : DepNs) : Option Str :=
  (dictGet d.ctypes ident).map (fun t => d.name ++ '.' :: t)

/-- `_resolve_type_from_ctype` for an identifier that is not in the scanned namespace:
    `deps` are `_parsed_includes.values()` in dict order; candidates are stably sorted by
    prefix length (`_sort_matches`), the first namespace that knows the type wins.  Returns
    `target_giname`. -/
def resolveCtype (deps : List DepNs) (ident : Str) : Option Str :=
  let ms := sortBy natLe (fun m : DepNs × Str × Nat => m.2.2) (deps.filterMap (matchOf ident))
  if ms.isEmpty then
    -- no prefix matches (`ValueError`): `_resolve_type_from_ctype_all_namespaces`
    deps.findSome? (fallbackOf ident)
  else ms.findSome? (giNameOf ident)

/-! ### the fixed point of `IntrospectablePass.validate` and the order of the namespace walk

  giscanner/introspectablepass.py, `validate`:

      while True:
          before = self._count_introspectable()
          self._namespace.walk(self._introspectable_alias_analysis)
          self._namespace.walk(self._introspectable_callable_analysis)
          if self._count_introspectable() == before:
              break

  `Namespace.walk` visits `Namespace.names` in insertion order, which is the order of the
  DECLARATIONS (and of the dump entries).  The model keeps the nodes at fixed indices and makes
  the visiting order a parameter `ord`, so "the declarations were written in another order" is
  "the walks visit the same nodes in another order".  (C05's model of the same pass,
  Model/Introspectable.lean, follows every walk of `validate` in namespace order; this one is
  only about the loop and about what may depend on the order.) -/

inductive IKind where
  | alias      -- ast.Alias: `_introspectable_alias_analysis`
  | callable   -- ast.Callable (function, callback, method, vfunc, signal, anonymous callback of a field)
  | other      -- everything else that is walked (records, fields, properties, constants, ...)
  deriving DecidableEq, Repr

/-- What the loop reads of one walked node.  `_type_is_introspectable` of a type is a conjunction
    over the leaves of the type (`Array`/`List`/`Map` recurse): a leaf that does not point into the
    scanned namespace has a fixed answer, a leaf that points at node `r` of the namespace answers
    `r.introspectable and not r.skip`.  For an alias the type is its target, for a callable every
    parameter type and the return type (plus `is_inline`, which is fixed). -/
structure INode where
  kind : IKind
  skip : Bool            -- `obj.skip`, or that of a parent (the callable walk is pruned below a skipped node)
  ok : Bool              -- all fixed leaves answer True (and the function is not inline)
  refs : List Nat        -- the walked nodes the other leaves point at (`lookup_typenode`)
  deriving DecidableEq, Repr

/-- the last lines of `_type_is_introspectable`: `target.introspectable and (not target.skip)` -/
def refOkI (nodes : List INode) (tf : List Bool) (r : Nat) : Bool :=
  match nodes[r]? with
  | none => false
  | some t => tf.getD r false && !t.skip

/-- every type the node mentions is introspectable, for the current flags `tf` -/
def condI (nodes : List INode) (tf : List Bool) (n : INode) : Bool :=
  n.ok && n.refs.all (refOkI nodes tf)

/-- one visit: a node selected by `sel` loses its flag when one of its types is not introspectable -/
def stepI (sel : INode → Bool) (nodes : List INode) (tf : List Bool) (i : Nat) : List Bool :=
  match nodes[i]? with
  | none => tf
  | some n => if sel n && !condI nodes tf n then tf.set i false else tf

/-- `_introspectable_alias_analysis` at node `i` (no `skip` test, never prunes) -/
def aliasStepI (nodes : List INode) : List Bool → Nat → List Bool :=
  stepI (fun n => n.kind == .alias) nodes

/-- `_introspectable_callable_analysis` at node `i`: `if obj.skip: return False`, then the
    parameter / return / inline tests (the Signal-emitter branch changes no flag) -/
def callStepI (nodes : List INode) : List Bool → Nat → List Bool :=
  stepI (fun n => n.kind == .callable && !n.skip) nodes

/-- `Namespace.walk(callback)`, visiting the nodes in the order `ord` -/
def walkI (step : List Bool → Nat → List Bool) (ord : List Nat) (tf : List Bool) : List Bool :=
  ord.foldl step tf

/-- body of the `while True:` loop -/
def roundI (nodes : List INode) (ord : List Nat) (tf : List Bool) : List Bool :=
  walkI (callStepI nodes) ord (walkI (aliasStepI nodes) ord tf)

/-- `_count_introspectable` (the nodes the loop never touches add a constant) -/
def cntI (tf : List Bool) : Nat := tf.count true

/-- the `while True:` loop with explicit fuel (`cntI tf + 1` rounds always suffice:
    `C16_fixpoint_reached`) -/
def loopI (nodes : List INode) (ord : List Nat) : Nat → List Bool → List Bool
  | 0, tf => tf
  | fuel + 1, tf =>
    let tf' := roundI nodes ord tf
    if cntI tf' == cntI tf then tf' else loopI nodes ord fuel tf'

/-- a state no visit of either walk changes -/
def stableI (nodes : List INode) (tf : List Bool) : Bool :=
  (List.range nodes.length).all fun i => aliasStepI nodes tf i == tf && callStepI nodes tf i == tf

end GIVerif.Order
