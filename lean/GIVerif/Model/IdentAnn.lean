/-
  C03 model: identifier-level annotations and tags, giscanner/maintransformer.py
  (`_get_annotation_name`, `_get_block`, `_pass_read_annotations_early`, `_pass_read_annotations`,
  `_apply_annotations_annotated/_callable/_function/_field/_property/_signal/_constant/
  _enum_members`, `_pair_class_virtuals` (block part), `_pair_property_accessors`,
  `_pass_read_annotations2` (`_apply_annotation_rename_to`, virtual invoker)) and the
  identifier-level attribute mapping of giscanner/girwriter.py (`_append_version`,
  `_append_node_generic`, `_write_generic`, `_write_callable`, `_write_function_common`,
  `_write_property`, `_write_class`, `_write_record`, `_write_union`, `_write_signal`, ...).

  Comment blocks are a finite map `Str → Option Block` (the dict `self._blocks`), exactly as
  the separately verified parser (C10) delivers them.  Parameter/return annotations (C01) and the
  decision which function becomes whose method (C04) are NOT modelled: the container of every
  function after pairing is part of the input (`Node.methods/ctors/statics`).

  Import-free apart from the Py library and generated tables, so it links into the driver.
-/
import GIVerif.Py.Str
import GIVerif.Gen.IdentAnn

namespace GIVerif.IdentAnn
open GIVerif.Py
open GIVerif.Gen.IdentAnn

/-- the Python exceptions the identifier-level code can raise -/
inductive Err where
  | indexError      -- `annotation[0]` on an annotation given without option
  | attributeError  -- `parent.virtual_methods` on a parent that has none
  deriving DecidableEq, Repr

instance instDecEqExcept {ε α : Type} [DecidableEq ε] [DecidableEq α] : DecidableEq (Except ε α) := fun a b =>
  match a, b with
  | .ok x, .ok y => if h : x = y then isTrue (by rw [h]) else isFalse (fun h' => h (by cases h'; rfl))
  | .error x, .error y => if h : x = y then isTrue (by rw [h]) else isFalse (fun h' => h (by cases h'; rfl))
  | .ok _, .error _ => isFalse (fun h => by cases h)
  | .error _, .ok _ => isFalse (fun h => by cases h)

/-- Python truthiness of `None | str` -/
def truthyS : Option Str → Bool
  | some (_ :: _) => true
  | _ => false

/-- a GtkDocTag as far as identifier-level code reads it (`Since:`, `Deprecated:`, `Stability:`) -/
structure Tag where
  value : Option Str := none
  description : Option Str := none
  deriving DecidableEq, Repr

/-- a GtkDocCommentBlock as far as identifier-level code reads it -/
structure Block where
  description : Option Str := none
  /-- every annotation except `attributes`, with its option list -/
  anns : List (Str × List Str) := []
  /-- the `(attributes k=v ...)` dict, `none` when the annotation is absent -/
  attributes : Option (List (Str × Option Str)) := none
  since : Option Tag := none
  deprecated : Option Tag := none
  stability : Option Tag := none
  deriving DecidableEq, Repr

abbrev Blocks := Str → Option Block

/-- `block.annotations.get(name)` -/
def Block.get (b : Block) (name : Str) : Option (List Str) :=
  (b.anns.find? (fun a => a.1 = name)).map (·.2)

/-- `name in block.annotations` -/
def Block.has (b : Block) (name : Str) : Bool := (b.get name).isSome

/-- the identifier-level state of one GIR element (ast.Annotated plus the per-kind extras) -/
structure Elem where
  doc : Option Str := none
  version : Option Str := none
  versionDoc : Option Str := none
  deprecated : Option Str := none
  deprecatedDoc : Option Str := none
  stability : Option Str := none
  stabilityDoc : Option Str := none
  attributes : List (Str × Str) := []
  skip : Bool := false
  foreign : Bool := false
  isConstructor : Bool := false
  isMethod : Bool := false
  setProperty : Option Str := none
  getProperty : Option Str := none
  finishFunc : Option Str := none
  syncFunc : Option Str := none
  asyncFunc : Option Str := none
  setter : Option Str := none
  getter : Option Str := none
  defaultValue : Option Str := none
  emitter : Option Str := none
  unrefFunc : Option Str := none
  refFunc : Option Str := none
  setValueFunc : Option Str := none
  getValueFunc : Option Str := none
  copyFunc : Option Str := none
  freeFunc : Option Str := none
  value : Option Str := none
  invoker : Option Str := none
  deriving DecidableEq, Repr

def Elem.fresh : Elem := {}

/-! ### block keys -/

/-- Python `fmt % (args...)` for formats that only contain `%s` -/
def fmt : Str → List Str → Str
  | '%' :: 's' :: rest, a :: as => a ++ fmt rest as
  | c :: rest, as => c :: fmt rest as
  | [], _ => []

def lowerChar (c : Char) : Char := if 'A' ≤ c ∧ c ≤ 'Z' then Char.ofNat (c.toNat + 32) else c
/-- `str.lower()` on C identifiers (ASCII; checked against CPython by the harness) -/
def lower (s : Str) : Str := s.map lowerChar

def keyProp (ann name : Str) : Str := fmt keyFmtProperty [ann, name]
def keySig (ann name : Str) : Str := fmt keyFmtSignal [ann, name]
def keyField (ann name : Str) : Str := fmt keyFmtField [ann, name]
def keyVfunc (structAnn name : Str) : Str := fmt keyFmtVfunc [structAnn, name]
def keySection (ann : Str) : Str := fmt keyFmtSection [lower ann]

/-! ### `_apply_annotations_annotated` and friends -/

/-- `x[0]` -/
def first? : List Str → Except Err Str
  | x :: _ => .ok x
  | [] => .error .indexError

/-- `annotation[0] if annotation else None` -/
def firstOrNone : Option (List Str) → Option Str
  | some (x :: _) => some x
  | _ => none

/-- `if new: node.x = new` -/
def setIf (new old : Option Str) : Option Str := if truthyS new then new else old

/-- `OrderedDict.__setitem__` -/
def dictSet : List (Str × Str) → Str → Str → List (Str × Str)
  | [], k, v => [(k, v)]
  | (k', v') :: rest, k, v => if k' = k then (k, v) :: rest else (k', v') :: dictSet rest k v

/-- `for key, value in attributes_annotation.items(): if value: node.attributes[key] = value` -/
def applyAttributes (m : List (Str × Str)) (l : List (Str × Option Str)) : List (Str × Str) :=
  l.foldl (fun m kv => match kv.2 with
    | some (c :: cs) => dictSet m kv.1 (c :: cs)
    | _ => m) m

/-- `x[0]` behind an `is not None` test: `none` when the annotation is absent -/
def optFirst : Option (List Str) → Except Err (Option Str)
  | none => .ok none
  | some l => (first? l).map some

/-- `if tag is not None: if tag.value: node.x = tag.value` -/
def tagValue (t : Option Tag) (old : Option Str) : Option Str :=
  match t with | some t => setIf t.value old | none => old
def tagDesc (t : Option Tag) (old : Option Str) : Option Str :=
  match t with | some t => setIf t.description old | none => old

/-- the statements of `_apply_annotations_annotated` that cannot raise; they assign disjoint
    attributes, so their sequence is one record update -/
def applyPure (isFunction : Bool) (e : Elem) (b : Block) : Elem :=
  { e with
    doc := if truthyS b.description then b.description else e.doc
    version := tagValue b.since e.version
    versionDoc := tagDesc b.since e.versionDoc
    deprecated := tagValue b.deprecated e.deprecated
    deprecatedDoc := tagDesc b.deprecated e.deprecatedDoc
    stability := tagValue b.stability e.stability
    stabilityDoc := tagDesc b.stability e.stabilityDoc
    attributes := match b.attributes with
      | some l => applyAttributes e.attributes l
      | none => e.attributes
    skip := e.skip || b.has annSkip
    foreign := e.foreign || b.has annForeign
    isConstructor := e.isConstructor || (b.has annConstructor && isFunction)
    isMethod := e.isMethod || b.has annMethod }

def orOld (new old : Option Str) : Option Str := match new with | some v => some v | none => old

/-- `_apply_annotations_annotated(node, block)`; `isFunction` is `isinstance(node, ast.Function)`.
    `set_property[0]` / `get_property[0]` raise IndexError on an option-less annotation. -/
def applyAnnotated (isFunction : Bool) (e : Elem) : Option Block → Except Err Elem
  | none => .ok e
  | some b => do
    let sp ← optFirst (if isFunction then b.get annSetProperty else none)
    let gp ← optFirst (if isFunction then b.get annGetProperty else none)
    pure { applyPure isFunction e b with setProperty := orOld sp e.setProperty, getProperty := orOld gp e.getProperty }

/-- the identifier-level part of `_apply_annotations_callable(node, chain, block)`
    (every node it is called on is an `ast.Callable`) -/
def applyCallable (isFunction : Bool) (e : Elem) : Option Block → Except Err Elem
  | none => .ok e
  | some b => do
    let ff ← optFirst (b.get annFinishFunc)
    let sf ← optFirst (b.get annSyncFunc)
    let af ← optFirst (b.get annAsyncFunc)
    applyAnnotated isFunction
      { e with finishFunc := orOld ff e.finishFunc, syncFunc := orOld sf e.syncFunc, asyncFunc := orOld af e.asyncFunc }
      (some b)

/-- `_apply_annotations_field` (block-level documentation only; the `@field` parameter of the
    parent's block belongs to parameter-level annotations) -/
def applyField (blocks : Blocks) (ann name : Str) : Except Err Elem :=
  match blocks (keyField ann name) with
  | some b => applyAnnotated false Elem.fresh (some b)
  | none => .ok Elem.fresh

/-- `_apply_annotations_property` (identifier-level part): `if setter: prop.setter = setter[0]` ... -/
def applyProperty (blocks : Blocks) (ann name : Str) : Except Err Elem := do
  let block := blocks (keyProp ann name)
  let e ← applyAnnotated false Elem.fresh block
  match block with
  | none => pure e
  | some b =>
    pure { e with setter := orOld (firstOrNone (b.get annSetter)) e.setter
                  getter := orOld (firstOrNone (b.get annGetter)) e.getter
                  defaultValue := orOld (firstOrNone (b.get annDefaultValue)) e.defaultValue }

/-- `_apply_annotations_signal` (identifier-level part) -/
def applySignal (blocks : Blocks) (ann name : Str) : Except Err Elem :=
  match blocks (keySig ann name) with
  | none => .ok Elem.fresh
  | some b => do
    let e ← applyAnnotated false Elem.fresh (some b)
    pure { e with emitter := orOld (firstOrNone (b.get annEmitter)) e.emitter }

/-- `_apply_annotations_constant` -/
def applyConstant (e : Elem) : Option Block → Except Err Elem
  | none => .ok e
  | some b => do
    let e ← applyAnnotated false e (some b)
    pure { e with value := orOld (firstOrNone (b.get annValue)) e.value }

/-- one member of `_apply_annotations_enum_members` (block-level documentation only) -/
def applyMember (blocks : Blocks) (symbol : Str) : Except Err Elem :=
  match blocks symbol with
  | some b => applyAnnotated false Elem.fresh (some b)
  | none => .ok Elem.fresh

/-! ### namespace nodes -/

inductive Kind where
  | alias | function | callback | klass | interface | record | union | enum | bitfield | constant | other
  deriving DecidableEq, Repr

/-- a function after pairing: C symbol, GI name, and what `_pair_class_virtuals` compares -/
structure Method where
  symbol : Str
  name : Str
  ret : Str := []
  nparams : Nat := 0
  deriving DecidableEq, Repr

/-- a callback field of the class structure whose first parameter is the instance -/
structure VSlot where
  name : Str
  ret : Str := []
  nparams : Nat := 0
  deriving DecidableEq, Repr

structure PropInfo where
  name : Str
  readable : Bool := true
  writable : Bool := true
  constructOnly : Bool := false
  isBool : Bool := false
  /-- the default the runtime dump reports (`prop.default_value` before any annotation) -/
  default : Option Str := none
  deriving DecidableEq, Repr

structure Node where
  kind : Kind
  ctype : Option Str := none
  gtypeName : Option Str := none
  cName : Str := []
  /-- functions: `node.symbol` and the GI name after pairing -/
  symbol : Str := []
  name : Str := []
  /-- enum members: `m.symbol` -/
  members : List Str := []
  fields : List Str := []
  /-- the fields holding an anonymous callback (a separate branch of `_write_field`) -/
  cbFields : List Str := []
  props : List PropInfo := []
  sigs : List Str := []
  /-- annotation name of the `glib_type_struct` record -/
  structAnn : Option Str := none
  vslots : List VSlot := []
  methods : List Method := []
  ctors : List Method := []
  statics : List Method := []
  deriving DecidableEq, Repr

/-- `_get_annotation_name(node)` -/
def annotationName (n : Node) : Str :=
  match n.ctype with
  | some c => c
  | none => match n.gtypeName with
    | some g => g
    | none => n.cName

/-- the name `_pass_read_annotations_early` looks a record's block up with -/
def recordEarlyName (n : Node) : Str :=
  match n.ctype with
  | some c => c
  | none => n.cName

def Kind.isCompound (k : Kind) : Bool := k = .klass || k = .interface || k = .record || k = .union

/-- keys `_pass_read_annotations` pops from the block dict when it visits `n` -/
def sectionKeys (n : Node) : List Str := if n.kind.isCompound then [keySection (annotationName n)] else []

/-- `if block: node.unref_func = annotation[0] if annotation else None ...` (ast.Class) -/
def classFuncs (e : Elem) : Option Block → Elem
  | some b => { e with unrefFunc := firstOrNone (b.get annUnrefFunc), refFunc := firstOrNone (b.get annRefFunc),
                       setValueFunc := firstOrNone (b.get annSetValueFunc),
                       getValueFunc := firstOrNone (b.get annGetValueFunc) }
  | none => e

/-- `if block: node.copy_func = ...; node.free_func = ...` (ast.Record, ast.Union) -/
def boxedFuncs (e : Elem) : Option Block → Elem
  | some b => { e with copyFunc := firstOrNone (b.get annCopyFunc), freeFunc := firstOrNone (b.get annFreeFunc) }
  | none => e

/-- the element itself: `_pass_read_annotations_early` followed by `_pass_read_annotations`.  The
    source is a sequence of `isinstance` tests; this is that sequence specialised per node class,
    in source order (records get their own block in the early pass, under `ctype or c_name`;
    callbacks get theirs twice; the SECTION block comes after the node's own block) -/
def annotateSelf (blocks : Blocks) (n : Node) : Except Err Elem :=
  let blk := blocks (annotationName n)
  let sec := blocks (keySection (annotationName n))
  match n.kind with
  | .alias => applyAnnotated false Elem.fresh blk
  | .function => applyCallable true Elem.fresh (blocks n.symbol)
  | .callback => do
    let e ← applyCallable false Elem.fresh blk
    applyAnnotated false e blk
  | .klass => do
    let e ← applyAnnotated false Elem.fresh blk
    let e ← applyAnnotated false e sec
    pure (classFuncs e blk)
  | .interface => do
    let e ← applyAnnotated false Elem.fresh blk
    applyAnnotated false e sec
  | .record => do
    let e ← applyAnnotated false Elem.fresh (blocks (recordEarlyName n))
    let e ← applyAnnotated false e sec
    pure (boxedFuncs e blk)
  | .union => do
    let e ← applyAnnotated false Elem.fresh blk
    let e ← applyAnnotated false e sec
    pure (boxedFuncs e blk)
  | .enum | .bitfield => applyAnnotated false Elem.fresh blk
  | .constant => applyConstant Elem.fresh blk
  | .other => .ok Elem.fresh

def hasMembers (n : Node) : Bool := n.kind = .enum || n.kind = .bitfield
def hasProps (n : Node) : Bool := n.kind = .klass || n.kind = .interface

structure NodeOut where
  self : Except Err Elem
  members : List (Except Err Elem) := []
  fields : List (Except Err Elem) := []
  props : List (Except Err Elem) := []
  sigs : List (Except Err Elem) := []
  deriving DecidableEq, Repr

/-- `self._blocks` after the SECTION blocks in `popped` were popped -/
def without (blocks : Blocks) (popped : List Str) : Blocks :=
  fun k => if k ∈ popped then none else blocks k

/-- everything `_pass_read_annotations` does when it visits `n` -/
def annotateNode (blocks : Blocks) (n : Node) : NodeOut :=
  { self := annotateSelf blocks n
    members := if hasMembers n then n.members.map (applyMember blocks) else []
    fields := if n.kind.isCompound then n.fields.map (applyField blocks (annotationName n)) else []
    -- properties and signals are looked up after the node's own SECTION block was popped
    props := if hasProps n then
        n.props.map (fun p => (applyProperty (without blocks (sectionKeys n)) (annotationName n) p.name).map
          -- a property the block gives no (default-value) keeps what the runtime dump reported
          (fun e => { e with defaultValue := orOld e.defaultValue p.default })) else []
    sigs := if hasProps n then
        n.sigs.map (applySignal (without blocks (sectionKeys n)) (annotationName n)) else [] }

/-- `self._namespace.walk(self._pass_read_annotations)` over the toplevel nodes: each visit sees
    the block dict without the SECTION blocks consumed by earlier visits -/
def pass1 (blocks : Blocks) : List Str → List Node → List NodeOut
  | _, [] => []
  | popped, n :: ns => annotateNode (without blocks popped) n :: pass1 blocks (sectionKeys n ++ popped) ns

/-! ### virtual methods -/

/-- name + signature test of `_pair_class_virtuals` (parameter types are compared by the source
    but the result of that comparison is not used) -/
def vmatch (v : VSlot) (m : Method) : Bool := m.name = v.name && m.ret = v.ret && m.nparams = v.nparams

/-- `_pair_class_virtuals` for one slot: own block `Struct::name` (`own`), else the field's doc; then
    the first matching method becomes the invoker.  A slot WITHOUT a block of its own also gets the
    invoker's block applied on top; one with a block only learns the invoker's name
    (`_get_vfunc_block(node, vfunc) is not None`).  Methods come paired with
    `self._blocks.get(method.symbol)`. -/
def vfuncPair (own : Option Block) (fieldDoc : Option Str) (methods : List (Method × Option Block)) (v : VSlot) :
    Except Err Elem := do
  let e := match own with
    | none => { Elem.fresh with doc := fieldDoc }
    | some _ => Elem.fresh
  let e ← applyCallable false e own
  match methods.find? (fun m => vmatch v m.1) with
  | none => pure e
  | some m =>
    if own.isSome then pure { e with invoker := some m.1.name }
    else applyCallable false { e with invoker := some m.1.name } m.2

/-- `for vfunc in parent.virtual_methods: if vfunc.name == invoker_name: ...; break`; `owned nm` is
    `_get_vfunc_block(parent, vfunc) is not None` -/
def virtualApply (owned : Str → Bool) (fname : Str) (b : Block) (slot : Str) :
    List (Str × Elem) → Except Err (List (Str × Elem))
  | [] => .ok []
  | (nm, e) :: rest =>
    if nm = slot then
      if owned nm then .ok ((nm, { e with invoker := some fname }) :: rest)
      else do
        let e' ← applyCallable false { e with invoker := some fname } (some b)
        pure ((nm, e') :: rest)
    else do
      let rest' ← virtualApply owned fname b slot rest
      pure ((nm, e) :: rest')

/-- the usable `(virtual slot)` annotation of a function: the option list is not empty and the
    function `is_method` (paired as a method, or annotated `(method)`); on anything else the
    annotation is warned about and ignored -/
def virtualSlot (paired : Method → Bool) (f : Method × Option Block) : Option (Block × Str) :=
  match f.2 with
  | none => none
  | some b =>
    match b.get annVfunc with
    | some (slot :: _) => if paired f.1 || b.has annMethod then some (b, slot) else none
    | _ => none

/-- the `(virtual slot)` part of `_pass_read_annotations2` for one function `f` (with its block) of a
    class whose virtual methods currently are `vs` (slot name, state) -/
def virtualStep (owned : Str → Bool) (paired : Method → Bool) (vs : List (Str × Elem)) (f : Method × Option Block) :
    Except Err (List (Str × Elem)) :=
  match virtualSlot paired f with
  | some (b, slot) => virtualApply owned f.1.name b slot vs
  | none => .ok vs

/-- order in which `Node._walk` visits the functions of a container -/
def walkFuncs (n : Node) : List Method :=
  match n.kind with
  | .klass => n.methods ++ n.statics ++ n.ctors
  | .interface => n.methods ++ n.statics
  | .record | .union => n.ctors ++ n.methods ++ n.statics
  | .enum | .bitfield => n.statics
  | _ => []

/-- does any visited function carry a usable `(virtual ...)` annotation? -/
def hasVirtualAnn (paired : Method → Bool) (fs : List (Method × Option Block)) : Bool :=
  fs.any (fun f => (virtualSlot paired f).isSome)

/-- `method in node.methods` (functions are identified by their C symbol) -/
def pairedIn (n : Node) (f : Method) : Bool := n.methods.any (fun m => m.symbol = f.symbol)

/-- `_get_vfunc_block(parent, vfunc) is not None`, by slot name -/
def ownedIn (slots : List (VSlot × Option Block)) (nm : Str) : Bool :=
  slots.any (fun s => s.1.name = nm && s.2.isSome)

/-- each function with `self._blocks.get(symbol)` -/
def withBlocks (blocks : Blocks) (fs : List Method) : List (Method × Option Block) :=
  fs.map (fun f => (f, blocks f.symbol))

/-- `_pair_class_virtuals` for one container, given the blocks already looked up: `slots` are the
    class struct's slots with their own `Struct::name` block, `methods` the container's methods with
    their blocks -/
def vfuncsPairCore (n : Node) (fieldDoc : Str → Option Str) (slots : List (VSlot × Option Block))
    (methods : List (Method × Option Block)) : Except Err (List (Str × Elem)) :=
  if hasProps n then
    slots.mapM (fun v => do
      let e ← vfuncPair v.2 (fieldDoc v.1.name) methods v.1
      pure (v.1.name, e))
  else .ok []

/-- the `(virtual slot)` annotations of the container's functions (`_pass_read_annotations2`, in
    walk order) applied to the virtual methods `vs` produced by the pairing; a container without
    `virtual_methods` (record, union) raises AttributeError on the first usable annotation -/
def vfuncsVirtualCore (n : Node) (slots : List (VSlot × Option Block)) (funcs : List (Method × Option Block))
    (vs : List (Str × Elem)) : Except Err (List (Str × Elem)) :=
  if hasProps n then funcs.foldlM (virtualStep (ownedIn slots) (pairedIn n)) vs
  else if hasVirtualAnn (pairedIn n) funcs then .error .attributeError
  else .ok vs

/-- all virtual methods of a container: pairing, then the `(virtual)` annotations.  (In
    `MainTransformer.transform` the pairing of EVERY class precedes the first `(virtual)`
    annotation: `annotateAll` runs the two phases over the whole namespace one after the other.) -/
def vfuncsCore (n : Node) (fieldDoc : Str → Option Str) (slots : List (VSlot × Option Block))
    (methods funcs : List (Method × Option Block)) : Except Err (List (Str × Elem)) := do
  let vs ← vfuncsPairCore n fieldDoc slots methods
  vfuncsVirtualCore n slots funcs vs

/-- the keys `_pair_class_virtuals` looks the slots' own blocks up with -/
def slotBlocks (blocks : Blocks) (n : Node) : List (VSlot × Option Block) :=
  match n.structAnn with
  | none => []
  | some sa => n.vslots.map (fun v => (v, blocks (keyVfunc sa v.name)))

/-- all virtual methods of a class: pairing, then the `(virtual)` annotations of its functions in
    walk order.  `fieldDoc` gives the docs the class-struct fields got in pass 1. -/
def vfuncsOf (blocks : Blocks) (n : Node) (fieldDoc : Str → Option Str) : Except Err (List (Str × Elem)) :=
  vfuncsCore n fieldDoc (slotBlocks blocks n) (withBlocks blocks n.methods) (withBlocks blocks (walkFuncs n))

/-! ### `_apply_annotation_rename_to` as a fold over the functions in walk order -/

/-- `shadows` / `shadowed_by` of every function, by C symbol -/
structure RState where
  shadows : Str → Option Str
  shadowedBy : Str → Option Str

def RState.init : RState := ⟨fun _ => none, fun _ => none⟩

/-- one visit of `_apply_annotation_rename_to`: `src` is `node.symbol`, `tgt` the annotation's
    option, `nameOf` is `get_by_symbol(..).name` restricted to functions -/
def renameStep (nameOf : Str → Option Str) (st : RState) (r : Str × Str) : RState :=
  match nameOf r.2 with
  | none => st                                   -- "Can't find symbol"
  | some gname =>
    if r.2 = r.1 then st                         -- `target is node`: "can't be renamed to itself"
    else if truthyS (st.shadowedBy r.2) then st  -- "already shadowed by"
    else if truthyS (st.shadows r.2) then st     -- "already shadows"
    else if truthyS (st.shadowedBy r.1) then st  -- "is already shadowed by ..., can't shadow ... as well"
    else match nameOf r.1 with
      | none => st
      | some fname =>
        { shadowedBy := fun s => if s = r.2 then some fname else st.shadowedBy s
          shadows := fun s => if s = r.1 then some gname else st.shadows s }

def renameFold (nameOf : Str → Option Str) (reqs : List (Str × Str)) : RState :=
  reqs.foldl (renameStep nameOf) RState.init

/-- the requests in walk order: functions whose block has a usable `rename-to` -/
def renameReqs (blocks : Blocks) (fs : List Method) : List (Str × Str) :=
  (withBlocks blocks fs).filterMap (fun f => match f.2 with
    | some b => match b.get annRenameTo with
      | some (t :: _) => some (f.1.symbol, t)
      | _ => none
    | none => none)

/-- functions in the order `_pass_read_annotations2` visits them: toplevel nodes in namespace
    order, each container's functions in `_walk` order -/
def walk2 (ns : List Node) : List Method :=
  ns.flatMap (fun n => if n.kind = .function then [{ symbol := n.symbol, name := n.name }] else walkFuncs n)

def nameOfIn (fs : List Method) (s : Str) : Option Str := (fs.find? (fun f => f.symbol = s)).map (·.name)

/-! ### `_pair_property_accessors` -/

def replaceMinus (s : Str) : Str := s.map (fun c => if c = '-' then '_' else c)

/-- getter candidates with their priorities, in dict order -/
def getterCandidates (p : PropInfo) (getter : Option Str) : List (Str × Nat) :=
  match getter with
  | some g => [(g, 99)]
  | none =>
    let nn := replaceMinus p.name
    if p.readable then
      [("get_".toList ++ nn, 50)]
      ++ (if p.isBool && !("is_".toList).isPrefixOf nn then [("is_".toList ++ nn, 25)] else [])
      ++ (if !p.writable && p.isBool then [(nn, 10)] else [])
    else []

def candPrio (c : List (Str × Nat)) (n : Str) : Option Nat :=
  -- later dict assignments overwrite earlier ones with the same key
  (c.reverse.find? (fun x => x.1 = n)).map (·.2)

/-- state of the inner `for method in node.methods` loop for one property: the property's
    (setter, getter), the methods' (set_property, get_property) by position, and the positions of
    `inferred_getters` (methods whose get_property was None and was filled in by the heuristic) -/
structure AccSt where
  prop : Option Str × Option Str
  ms : List (Method × Option Str × Option Str)
  inferred : List Nat := []

/-- one iteration of the inner `for method in node.methods` loop -/
def accessorStep (p : PropInfo) (setter : Option Str) (cands : List (Str × Nat)) (st : AccSt) (i : Nat) : AccSt :=
  match st.ms[i]? with
  | none => st
  | some (m, sp, gp) =>
    if setter.isSome && setter = some m.name then
      { st with prop := (some m.name, st.prop.2), ms := st.ms.set i (m, some p.name, gp) }
    else match candPrio cands m.name with
      | some prio =>
        -- a method that already is the getter of another property is not an inferred candidate
        if prio < 99 && gp.isSome && gp != some p.name then st else
        let cur : Int := match st.prop.2 with
          | some (c :: cs) => match candPrio cands (c :: cs) with | some q => q | none => -1
          | _ => -1
        let getter' := if (prio : Int) ≥ cur then some m.name else st.prop.2
        { prop := (st.prop.1, getter'), ms := st.ms.set i (m, sp, some p.name),
          inferred := if gp.isNone then st.inferred ++ [i] else st.inferred }
      | none => st

/-- `for method in inferred_getters: if method.name != prop.getter: method.get_property = None` -/
def dropUnchosen (getter : Option Str) (ms : List (Method × Option Str × Option Str)) (inferred : List Nat) :
    List (Method × Option Str × Option Str) :=
  inferred.foldl (fun ms i => match ms[i]? with
    | some (m, sp, _) => if getter = some m.name then ms else ms.set i (m, sp, none)
    | none => ms) ms

/-- `_pair_property_accessors` for one property.  The two `if not x.introspectable: continue` tests
    of the source never fire at this point of `transform` (nothing has cleared the flag of a property
    or a method yet; IntrospectablePass runs later) and are not represented. -/
def pairOne (p : PropInfo) (pe : Option Str × Option Str) (ms : List (Method × Option Str × Option Str)) :
    (Option Str × Option Str) × List (Method × Option Str × Option Str) :=
  let setter : Option Str := match pe.1 with
    | some s => some s
    | none => if p.writable && !p.constructOnly then some ("set_".toList ++ replaceMinus p.name) else none
  let cands := getterCandidates p pe.2
  let st := (List.range ms.length).foldl (accessorStep p setter cands) { prop := pe, ms := ms }
  (st.prop, dropUnchosen st.prop.2 st.ms st.inferred)


/-! ### the whole identifier-level pipeline, in the order of `MainTransformer.transform` -/

structure NodeRes where
  self : Elem
  members : List Elem := []
  fields : List Elem := []
  props : List Elem := []
  sigs : List Elem := []
  vfuncs : List (Str × Elem) := []
  deriving DecidableEq, Repr

structure FuncRes where
  m : Method
  elem : Elem
  shadows : Option Str := none
  shadowedBy : Option Str := none
  deriving DecidableEq, Repr

structure Result where
  nodes : List NodeRes
  funcs : List FuncRes
  deriving DecidableEq, Repr

def NodeOut.sequence (o : NodeOut) : Except Err NodeRes := do
  let self ← o.self
  let members ← o.members.mapM id
  let fields ← o.fields.mapM id
  let props ← o.props.mapM id
  let sigs ← o.sigs.mapM id
  pure { self, members, fields, props, sigs }

/-- the doc a class-struct field got in pass 1 (fallback documentation of a virtual method) -/
def fieldDocOf (ns : List Node) (rs : List NodeRes) (structAnn : Option Str) (field : Str) : Option Str :=
  match structAnn with
  | none => none
  | some sa =>
    match (ns.zip rs).find? (fun p => p.1.kind = .record && annotationName p.1 = sa) with
    | none => none
    | some (n, r) =>
      match (n.fields.zip r.fields).find? (fun q => q.1 = field) with
      | some (_, e) => e.doc
      | none => none

/-- `_pair_property_accessors(node)` on the states produced by pass 1 -/
def pairAccessors (n : Node) (r : NodeRes) (funcs : List FuncRes) : NodeRes × List FuncRes :=
  if hasProps n then
    let ms := n.methods.map (fun m =>
      match funcs.find? (fun f => f.m.symbol = m.symbol) with
      | some f => (m, f.elem.setProperty, f.elem.getProperty)
      | none => (m, none, none))
    let step (acc : List Elem × List (Method × Option Str × Option Str)) (pe : PropInfo × Elem) :=
      let res := pairOne pe.1 (pe.2.setter, pe.2.getter) acc.2
      (acc.1 ++ [{ pe.2 with setter := res.1.1, getter := res.1.2 }], res.2)
    let out := (n.props.zip r.props).foldl step ([], ms)
    let funcs' := funcs.map (fun f =>
      match out.2.find? (fun x => x.1.symbol = f.m.symbol) with
      | some (_, sp, gp) => { f with elem := { f.elem with setProperty := sp, getProperty := gp } }
      | none => f)
    ({ r with props := out.1 }, funcs')
  else (r, funcs)

def pairAccessorsAll : List (Node × NodeRes) → List FuncRes → List NodeRes × List FuncRes
  | [], fs => ([], fs)
  | (n, r) :: rest, fs =>
    let (r', fs') := pairAccessors n r fs
    let (rs, fs'') := pairAccessorsAll rest fs'
    (r' :: rs, fs'')

/-- identifier-level effect of `MainTransformer.transform` on a namespace -/
def annotateAll (blocks : Blocks) (ns : List Node) : Except Err Result := do
  -- _pass_read_annotations_early + _pass_read_annotations
  let rs ← (pass1 blocks [] ns).mapM NodeOut.sequence
  let fs := walk2 ns
  let fel ← fs.mapM (fun f => do
    let e ← applyCallable true Elem.fresh (blocks f.symbol)
    pure ({ m := f, elem := e } : FuncRes))
  let bl := without blocks (ns.flatMap sectionKeys)
  -- _pair_class_virtuals for every class in namespace order ...
  let paired ← (ns.zip rs).mapM (fun p =>
    vfuncsPairCore p.1 (fieldDocOf ns rs p.1.structAnn) (slotBlocks bl p.1) (withBlocks bl p.1.methods))
  -- ... and only then the (virtual) annotations of _pass_read_annotations2, again in namespace order
  let rs ← ((ns.zip rs).zip paired).mapM (fun q => do
    let vs ← vfuncsVirtualCore q.1.1 (slotBlocks bl q.1.1) (withBlocks bl (walkFuncs q.1.1)) q.2
    pure { q.1.2 with vfuncs := vs })
  -- _pair_property_accessors
  let (rs, fel) := pairAccessorsAll (ns.zip rs) fel
  -- _apply_annotation_rename_to
  let st := renameFold (nameOfIn fs) (renameReqs bl fs)
  let fel := fel.map (fun f => { f with shadows := st.shadows f.m.symbol, shadowedBy := st.shadowedBy f.m.symbol })
  pure { nodes := rs, funcs := fel }

/-! ### the writer's identifier-level attributes -/

/-- which `_write_*` function emits the element -/
inductive WKind where
  | function | callback | vfunc | alias | enum | member | constant | klass | interface | record | union
  | field | callbackField | property | signal
  deriving DecidableEq, Repr

def optAttr (name : String) (v : Option Str) : List (Str × Str) :=
  match v with | some (c :: cs) => [(name.toList, c :: cs)] | _ => []

/-- `if x is not None: attrs.append(...)` -/
def someAttr (name : String) (v : Option Str) : List (Str × Str) :=
  match v with | some s => [(name.toList, s)] | none => []

/-- `_append_version` + `_append_node_generic` (every element writer calls both: pinned by
    `C03_writer_tables`); `introspectable` is the flag IntrospectablePass may have cleared for
    reasons outside this property -/
def genericAttrs (_k : WKind) (introspectable : Bool) (e : Elem) : List (Str × Str) :=
  optAttr "version" e.version
  ++ (if e.skip || !introspectable then [("introspectable".toList, "0".toList)] else [])
  ++ (if truthyS e.deprecated || truthyS e.deprecatedDoc then [("deprecated".toList, "1".toList)] else [])
  ++ optAttr "deprecated-version" e.deprecated
  ++ optAttr "stability" e.stability

/-- the identifier-level XML attributes of one element, as a list of (name, value);
    `sh`/`sb` are the function's `shadows` / `shadowed_by` -/
def writeAttrs (k : WKind) (introspectable : Bool) (e : Elem) (sh sb : Option Str) : List (Str × Str) :=
  let callable := someAttr "glib:finish-func" e.finishFunc ++ someAttr "glib:sync-func" e.syncFunc
    ++ someAttr "glib:async-func" e.asyncFunc
  match k with
  | .function =>
    (if truthyS sb then optAttr "shadowed-by" sb else optAttr "shadows" sh)
    ++ someAttr "glib:set-property" e.setProperty ++ someAttr "glib:get-property" e.getProperty
    ++ genericAttrs k introspectable e ++ callable
  | .callback => genericAttrs k introspectable e ++ callable
  | .vfunc => optAttr "invoker" e.invoker ++ genericAttrs k introspectable e ++ callable
  | .klass =>
    genericAttrs k introspectable e ++ optAttr "glib:ref-func" e.refFunc ++ optAttr "glib:unref-func" e.unrefFunc
    ++ optAttr "glib:set-value-func" e.setValueFunc ++ optAttr "glib:get-value-func" e.getValueFunc
  | .record =>
    (if e.foreign then [("foreign".toList, "1".toList)] else [])
    ++ optAttr "copy-function" e.copyFunc ++ optAttr "free-function" e.freeFunc ++ genericAttrs k introspectable e
  | .union => genericAttrs k introspectable e ++ optAttr "copy-function" e.copyFunc ++ optAttr "free-function" e.freeFunc
  | .property =>
    genericAttrs k introspectable e ++ optAttr "setter" e.setter ++ optAttr "getter" e.getter
    ++ someAttr "default-value" e.defaultValue   -- `is not None`: an empty default is written
  | .signal => optAttr "emitter" e.emitter ++ genericAttrs k introspectable e
  | .constant => someAttr "value" e.value ++ genericAttrs k introspectable e
  | _ => genericAttrs k introspectable e

/-- `_write_generic`: `<attribute>` children and the doc children (element name, text) -/
def writeChildren (e : Elem) : List (Str × Str) × List (Str × Str) :=
  (e.attributes,
   optAttr "doc" e.doc ++ optAttr "doc-version" e.versionDoc ++ optAttr "doc-deprecated" e.deprecatedDoc
   ++ optAttr "doc-stability" e.stabilityDoc)

end GIVerif.IdentAnn
