/-
  C02 model, part 2: the defaults an un-annotated callable gets.
  Mirrors
    giscanner/ast.py:           TypeContainer.__init__ (const ⇒ transfer none), Type._compare / is_equiv,
                                Callable.get_parameter_index
    giscanner/maintransformer.py: _get_transfer_default, _get_transfer_default_param,
                                _get_transfer_default_returntype_basic, _get_transfer_default_return,
                                _pass_callable_defaults, _apply_annotations_param_ret_common with an
                                empty annotation set (nullable rules), _set_up_constructor's default,
                                _pass3_callable_callbacks, _pass3_callable_throws
    giscanner/transformer.py:   _create_parameter, _create_return, _create_callback (user_data rule),
                                _resolve_type_from_ctype (namespace lookup is a parameter: `Env`)
    giscanner/girwriter.py:     _write_parameter / _write_return_type attribute computation.
  Import-free apart from the Py library, generated tables and Model.Types.
-/
import GIVerif.Model.Types

namespace GIVerif.Defaults
open GIVerif.Py GIVerif.Types

inductive Transfer where
  | none | container | full
  deriving Repr, DecidableEq, Inhabited

inductive Direction where
  | in_ | out | inout
  deriving Repr, DecidableEq, Inhabited

inductive Scope where
  | call | async | notified | forever
  deriving Repr, DecidableEq, Inhabited

/-- the `target` type of one `ast.Alias` of a typedef chain: what `_get_transfer_default_returntype_basic`
    and the chain walk of `_get_transfer_default_return` look at -/
structure AliasLink where
  fundamental : Option Str     -- alias.target.target_fundamental
  giname : Option Str          -- alias.target.target_giname
  ctype : Str                  -- alias.target.ctype
  isConst : Bool               -- alias.target.is_const
  deriving Repr, DecidableEq, Inhabited

/-- what `Transformer.lookup_typenode(type)` finds for a type carrying a target_giname -/
inductive Target where
  /-- ast.Alias.  `links`: the target type of this alias, then — as long as `lookup_typenode` of the previous
      target is again an (unvisited) ast.Alias — the target type of that alias, and so on -/
  | alias (links : List AliasLink)
  | boxed                                               -- ast.Boxed
  | compound (registered : Bool)  -- ast.Record / ast.Union; registered = gtype_name is not None or foreign
  | enumLike                      -- ast.Enum / ast.Bitfield
  | klass (initiallyUnowned : Bool) -- ast.Class; `_is_gi_subclass(typeval, GObject.InitiallyUnowned)`
  | interface
  | callback
  | other
  deriving Repr, DecidableEq, Inhabited

/-- the part of an `ast.Type` the default passes look at -/
structure TyInfo where
  fundamental : Option Str     -- target_fundamental ("<array>", "<list>", "<map>", "<varargs>" for containers)
  giname : Option Str          -- target_giname
  node : Option Target         -- lookup_typenode(type)
  callbackName : Option Str    -- gi_name of resolve_aliases(lookup_typenode(type)) when that is an ast.Callback
  ctype : Str                  -- type.ctype
  isConst : Bool               -- type.is_const
  isVarargs : Bool             -- isinstance(type, ast.Varargs)
  deriving Repr, DecidableEq, Inhabited

/-- ctype of the module-level `ast.Type` constant with this target_fundamental -/
def fundCtype (f : Str) : Str :=
  match Gen.typeNames.find? (fun r => r.1.toList == f) with
  | some r => r.2.2.toList
  | none => []

/-- `typeval.is_equiv(T)` / `Type._compare(eq)` for a fundamental constant `T` -/
def isEquivFund (ty : TyInfo) (f : Str) : Bool :=
  match ty.fundamental with
  | some g => g == f
  | none => match ty.giname with
    | some _ => false
    | none => ty.ctype == fundCtype f

def anyName : Str := Gen.typeAnyName.toList
def noneName : Str := Gen.typeNoneName.toList
def stringName : Str := Gen.typeStringName.toList

def isEquivAny (ty : TyInfo) : Bool := isEquivFund ty anyName
def isEquivNone (ty : TyInfo) : Bool := isEquivFund ty noneName
/-- `typeval.is_equiv(ast.BASIC_GIR_TYPES)` -/
def isEquivBasicGir (ty : TyInfo) : Bool := (strs Gen.basicGirTypes).any (isEquivFund ty)

/-! ### transfer defaults -/

/-- `TypeContainer.__init__`: an explicit transfer wins, a const type gives none, else undecided -/
def typeContainerTransfer (explicit : Option Transfer) (isConst : Bool) : Option Transfer :=
  match explicit with
  | some t => some t
  | none => if isConst then some .none else none

/-- `_get_transfer_default_param` -/
def transferDefaultParam (direction : Option Direction) (callerAllocates : Bool) : Transfer :=
  if direction == some .inout || direction == some .out then
    if callerAllocates then .none else .full
  else .none

/-- `_get_transfer_default_returntype_basic` -/
def transferDefaultReturnBasic (ty : TyInfo) : Option Transfer :=
  if isEquivBasicGir ty || ty.isConst || isEquivAny ty || isEquivNone ty then some .none
  else if isEquivFund ty stringName then some .full
  else none

/-- the `ast.Type` view of an alias' target -/
def AliasLink.ty (l : AliasLink) : TyInfo :=
  { fundamental := l.fundamental, giname := l.giname, node := none, callbackName := none, ctype := l.ctype,
    isConst := l.isConst, isVarargs := false }

/-- the `while isinstance(target, ast.Alias) and id(target) not in seen` loop of `_get_transfer_default_return`:
    the first level of the typedef chain that decides; a target without giname ends the walk; when the chain
    is exhausted (the next node is no alias, or was seen) there is no default -/
def aliasChainDefault : List AliasLink → Option Transfer
  | [] => none
  | l :: rest =>
    match transferDefaultReturnBasic l.ty with
    | some t => some t
    | none => if l.giname.isNone then none else aliasChainDefault rest

inductive PyErr where
  | assertion (what : Str)
  | valueError (what : Str)
  deriving Repr, DecidableEq

def sInvalidConstructor : Str := "Invalid constructor".toList

/-- `_get_transfer_default_return(parent, node)`; `isConstructor` is
    `isinstance(parent, ast.Function) and parent.is_constructor` -/
def transferDefaultReturn (isConstructor : Bool) (ty : TyInfo) : Except PyErr (Option Transfer) :=
  match transferDefaultReturnBasic ty with
  | some t => .ok (some t)
  | none =>
    if ty.giname.isNone then .ok none
    else match ty.node with
      | some (.alias links) => .ok (aliasChainDefault links)
      | some .boxed => .ok (some .full)
      | some (.compound true) => .ok (some .full)
      | some .enumLike => .ok (some .none)
      | some t =>
        if isConstructor then
          match t with
          | .klass unowned => .ok (some (if unowned then .none else .full))
          | .compound _ => .ok (some .full)
          | _ => .error (.assertion sInvalidConstructor)
        else .ok none
      | none => if isConstructor then .error (.assertion sInvalidConstructor) else .ok none

inductive Position where
  | parameter | return_ | field | property
  deriving Repr, DecidableEq, Inhabited

/-- `_get_transfer_default(parent, node)` -/
def transferDefault (pos : Position) (isConstructor : Bool) (direction : Option Direction)
    (callerAllocates : Bool) (ty : TyInfo) : Except PyErr (Option Transfer) :=
  if isEquivNone ty || ty.isVarargs then .ok (some .none)
  else match pos with
    | .parameter => .ok (some (transferDefaultParam direction callerAllocates))
    | .return_ => transferDefaultReturn isConstructor ty
    | .field => .ok (some .none)
    | .property => .ok (some .none)

/-! ### parameters and the callable passes -/

structure Param where
  name : Str                      -- argname
  node : TypeNode                 -- the type as created by the transformer (for writing)
  ty : TyInfo                     -- the same type after namespace resolution
  direction : Option Direction := none
  callerAllocates : Bool := false
  transfer : Option Transfer := none
  nullable : Bool := false
  notNullable : Bool := false
  scope : Option Scope := none
  closure : Option Str := none    -- closure_name
  destroy : Option Str := none    -- destroy_name
  deriving Repr, DecidableEq, Inhabited

structure Ret where
  node : TypeNode
  ty : TyInfo
  transfer : Option Transfer := none
  nullable : Bool := false
  notNullable : Bool := false
  deriving Repr, DecidableEq, Inhabited

/-- the argnode of `_pass3_callable_callbacks` is an `ast.Callback` -/
def isCallback (p : Param) : Bool := p.ty.callbackName.isSome
def isDestroyNotify (p : Param) : Bool := p.ty.callbackName == some Gen.destroyNotifyName.toList
/-- a callback other than GLib.DestroyNotify: becomes `callback_param` -/
def isPlainCallback (p : Param) : Bool := isCallback p && !isDestroyNotify p
/-- `param.type.is_equiv(TYPE_ANY) and param.argname is not None and param.argname.endswith('data')` -/
def isUserData (p : Param) : Bool := isEquivAny p.ty && endsWith p.name Gen.closureSuffix.toList

/-- first loop of `_pass3_callable_callbacks`: well-known callback types get scope async -/
def asyncDefaults (p : Param) : Param :=
  match p.ty.callbackName with
  | some n => if (strs Gen.asyncScopeCallbacks).contains n then
      { p with scope := some .async, transfer := some .none } else p
  | none => p

/-- state of the second loop: `cur` is `callback_param` (held outside the list because the loop
    mutates it in place), `before` the parameters in front of it, `after` those behind it that
    have been visited -/
structure CbState where
  before : List Param
  cur : Option Param
  after : List Param
  deriving Repr

def CbState.flush (s : CbState) : List Param := s.before ++ s.cur.toList ++ s.after

/-- one iteration of the second loop of `_pass3_callable_callbacks` -/
def cbStep (s : CbState) (p : Param) : CbState :=
  if isPlainCallback p then ⟨s.flush, some p, []⟩
  else match s.cur with
    | none => ⟨s.before ++ [p], none, []⟩
    | some c =>
      if isDestroyNotify p then
        ⟨s.before, some { c with destroy := some p.name, scope := some .notified, transfer := some .none },
          s.after ++ [p]⟩
      else if isUserData p then
        ⟨s.before, some { c with closure := some p.name }, s.after ++ [p]⟩
      else ⟨s.before, some c, s.after ++ [p]⟩

/-- second loop of `_pass3_callable_callbacks` -/
def assignCallbacks (ps : List Param) : List Param := (ps.foldl cbStep ⟨[], none, []⟩).flush

/-- `Callable.get_parameter_index(name)`: first parameter with that argname -/
def getParameterIndex (ps : List Param) (name : Str) : Except PyErr Nat :=
  match ps.findIdx? (fun p => p.name == name) with
  | some i => .ok i
  | none => .error (.valueError name)

def setNullable (p : Param) : Param := if p.notNullable then p else { p with nullable := true }

/-- third loop of `_pass3_callable_callbacks`: closure targets become nullable -/
def closureNullable (ps : List Param) : Except PyErr (List Param) :=
  ps.foldlM (fun acc p =>
    match p.closure with
    | none => .ok acc
    | some n => do
      let idx ← getParameterIndex acc n
      pure (acc.modify idx setNullable)) ps

/-- `_pass3_callable_callbacks(node)` on `node.parameters` -/
def pass3Callbacks (ps : List Param) : Except PyErr (List Param) :=
  closureNullable (assignCallbacks (ps.map asyncDefaults))

/-- `_pass3_callable_throws(node)`: (parameters, throws) -/
def pass3Throws (ps : List Param) (throws : Bool) : List Param × Bool :=
  match ps.getLast? with
  | none => (ps, throws)
  | some last => if last.ty.ctype == Gen.throwsCtype.toList then (ps.dropLast, true) else (ps, throws)

/-- `ast.Function.clone` as used by `MainTransformer._pair_static_method` (Record / Union / Boxed / Interface /
    Enum branch): the clone receives its OWN copy of the parameter list (`self.parameters[:]`); the function left
    in the namespace (`moved-to`) and the static function of the type are then both visited by
    `_pass3_callable_throws`, each on its own list.  -> (namespace copy, static copy) -/
def pairStaticThrows (ps : List Param) (throws : Bool) : (List Param × Bool) × (List Param × Bool) :=
  let clone := ps.map id      -- `self.parameters[:]`
  (pass3Throws ps throws, pass3Throws clone throws)

/-- `_create_callback`: mark the 'user_data' arguments -/
def markUserData (p : Param) : Param :=
  if p.ty.fundamental == some Gen.callbackUserDataFundamental.toList && p.name == Gen.callbackUserDataName.toList
  then { p with closure := some p.name } else p

/-- `_apply_annotations_param_ret_common` with no annotations: what remains are the nullable rules
    (gpointer is nullable; Gio.AsyncReadyCallback / Gio.Cancellable are nullable unless out) -/
def commonNullable (ty : TyInfo) (direction : Option Direction) (nullable : Bool) : Bool :=
  let n := if isEquivAny ty then true else nullable
  if direction != some .out &&
      (match ty.giname with | some g => (strs Gen.nullableGinames).contains g | none => false) then true else n

/-- `_pass_callable_defaults` for one parameter -/
def paramDefault (p : Param) : Except PyErr Param :=
  match p.transfer with
  | some _ => .ok p
  | none => do
    let t ← transferDefault .parameter false p.direction p.callerAllocates p.ty
    pure { p with transfer := t }

def retDefault (isConstructor : Bool) (r : Ret) : Except PyErr Ret :=
  match r.transfer with
  | some _ => .ok r
  | none => do
    let t ← transferDefault .return_ isConstructor none false r.ty
    pure { r with transfer := t }

/-! ### namespace resolution (parameter of the model) -/

structure EnvEntry where
  cname : Str                   -- pointer-stripped C name that resolves
  giname : Str                  -- 'Ns.Name'
  node : Target
  callbackName : Option Str
  deriving Repr, DecidableEq

abbrev Env := List EnvEntry

def fundamentalOfKind : TKind → Option Str
  | .fundamental f => some f
  | .unresolved => none
  | .strv | .array _ _ => some "<array>".toList
  | .list _ => some "<list>".toList
  | .map => some "<map>".toList
  | .varargs => some "<varargs>".toList

/-- `Transformer.resolve_type(typeval)` for a freshly created type: fundamentals and containers
    stay; an unresolved type is looked up by its pointer-stripped ctype -/
def resolveType (env : Env) (n : TypeNode) : TyInfo :=
  let base : TyInfo := { fundamental := fundamentalOfKind n.kind, giname := none, node := none,
                         callbackName := none, ctype := n.ctype, isConst := n.isConst,
                         isVarargs := n.kind == .varargs }
  match n.kind with
  | .unresolved =>
    match env.find? (fun e => e.cname == stripStars n.ctype) with
    | some e => { base with giname := some e.giname, node := some e.node, callbackName := e.callbackName }
    | none => base
  | _ => base

/-! ### a whole un-annotated callable, from declarations to GIR attributes -/

inductive CParam where
  | named (name : Option Str) (t : CType)
  | ellipsis
  deriving Repr

def natStr (n : Nat) : Str := (toString n).toList

/-- `_create_parameter(parent_symbol, index, symbol)` + `TypeContainer.__init__` + resolution -/
def createParameter (env : Env) (index : Nat) : CParam → Param
  | .ellipsis =>
    { name := "...".toList, node := varargsType, ty := resolveType env varargsType,
      transfer := typeContainerTransfer none false }
  | .named name t =>
    let node := paramType t
    { name := match name with
        | some n => n
        | none => "arg".toList ++ natStr index,
      node := node, ty := resolveType env node,
      transfer := typeContainerTransfer none node.isConst }

def createParametersFrom (env : Env) : Nat → List CParam → List Param
  | _, [] => []
  | i, p :: ps => createParameter env i p :: createParametersFrom env (i + 1) ps

/-- `_create_return(source_type)` -/
def createReturn (env : Env) (t : CType) : Ret :=
  let node := returnType t
  { node := node, ty := resolveType env node, transfer := typeContainerTransfer none node.isConst }

structure ParamOut where
  name : Str
  node : TypeNode
  giname : Option Str
  transfer : Option Transfer
  nullable : Bool
  scope : Option Scope
  closure : Option Nat
  destroy : Option Nat
  deriving Repr, DecidableEq

structure CallableOut where
  throws : Bool
  retNode : TypeNode
  retGiname : Option Str
  retTransfer : Option Transfer
  retNullable : Bool
  params : List ParamOut
  deriving Repr, DecidableEq

/-- `GIRWriter._write_parameter`: the attributes this property is about -/
def writeParameter (all : List Param) (p : Param) : Except PyErr ParamOut := do
  let closure ← match p.closure with
    | some n => (getParameterIndex all n).map some
    | none => pure none
  let destroy ← match p.destroy with
    | some n => (getParameterIndex all n).map some
    | none => pure none
  pure { name := p.name, node := p.node, giname := p.ty.giname, transfer := p.transfer,
         nullable := p.nullable && !p.notNullable, scope := p.scope, closure := closure, destroy := destroy }

/-- The pipeline for one un-annotated function (`isCallbackDecl = false`) or callback typedef
    (`true`): Transformer._create_function/_create_callback, then MainTransformer's
    _pass_type_resolution, _pass_callable_defaults, _pass_read_annotations (no annotations),
    [_set_up_constructor], _pass3, then the writer. -/
def scanCallable (env : Env) (isCallbackDecl isConstructor : Bool) (params : List CParam) (ret : CType) :
    Except PyErr CallableOut := do
  let ps := createParametersFrom env 0 params
  let ps := if isCallbackDecl then ps.map markUserData else ps
  let r := createReturn env ret
  -- _pass_callable_defaults (is_constructor is still False at that point)
  let ps ← ps.mapM paramDefault
  let r ← retDefault false r
  -- _apply_annotations_param_ret_common, no annotations
  let ps := ps.map (fun p => { p with nullable := commonNullable p.ty p.direction p.nullable })
  let r := { r with nullable := commonNullable r.ty (some .out) r.nullable }
  -- _set_up_constructor: "Constructors have default return semantics"
  let r ← if isConstructor then retDefault true r else pure r
  -- _pass3
  let ps ← pass3Callbacks ps
  let (ps, throws) := pass3Throws ps false
  let outs ← ps.mapM (writeParameter ps)
  pure { throws := throws, retNode := r.node, retGiname := r.ty.giname, retTransfer := r.transfer,
         retNullable := r.nullable && !r.notNullable, params := outs }

end GIVerif.Defaults
