/-
  C18 model: giscanner/cachestore.py (`CacheStore.store`, `load`, `_cache_is_valid`,
  `_remove_filename`, `_check_cache_version`, `_clean`) as a small-step transition
  system: ONE atomic step per system call the Python code makes, any number of
  processes, plus environment steps (source modification, time passing, crash).

  File system: the single cache entry name `sha1(path)` (`entry`), the stamp
  `.cache-version` (`stamp`), temporary files (created by `tempfile.mkstemp`, i.e. in
  TMPDIR, NOT in the cache directory: `tmps`), an inode table.  Content of an inode is
  abstracted to (which source version's parse, which scanner version wrote it, how many
  chunks of the pickle are on disk): `pickle.load` succeeds iff all chunks are there.

  The comparisons and the swallowed errnos come from the generated `Gen/Cache.lean`,
  so the model follows the source when those change.  Import-free apart from the
  generated tables, so it links into the compiled driver.
-/
import GIVerif.Gen.Cache

namespace GIVerif.Cache
open GIVerif.Gen.Cache

/-- number of chunks `pickle.dump` writes (the harness writes the pickle in two halves) -/
def full : Nat := 2

structure Inode where
  /-- id of the source version whose parse is serialised here -/
  data : Nat
  /-- scanner version of the writer -/
  sver : Nat
  /-- chunks on disk; a complete pickle iff `len = full`; a strict prefix never unpickles -/
  len : Nat
  mtime : Nat
  /-- ghost: pid of the `mkstemp` caller -/
  owner : Nat
  /-- ghost: has been linked under the entry name -/
  pub : Bool
  deriving Repr, DecidableEq, Inhabited

/-- what a successful `load` hands back, with ghost bookkeeping for the theorems -/
structure Ret where
  data : Nat
  sver : Nat
  /-- chunks of the pickle that were on disk when it was read -/
  len : Nat
  /-- mtime of the inode that was unpickled, at the time of the read -/
  entryM : Nat
  /-- source mtime read by this load -/
  srcSeen : Nat
  /-- source version current at the load's first step (`open`) -/
  vStart : Nat
  /-- source version current at the load's last step (`pickle.load`) -/
  vEnd : Nat
  deriving Repr, DecidableEq, Inhabited

inductive Op where
  | store | load | check
  deriving Repr, DecidableEq

/-- program counter + locals; each constructor names the NEXT system call -/
inductive PC where
  | idle
  -- store(filename, data)
  | sStatEntry                       -- _cache_is_valid: os.stat(store_filename)
  | sStatSrc (m : Nat)               -- _cache_is_valid: os.stat(filename)
  | sMkstemp                         -- tempfile.mkstemp
  | sWrite (i k : Nat)               -- pickle.dump: chunk k to the temp inode i
  | sClose (i : Nat)                 -- leaving `with os.fdopen(...)`
  | sRename (i : Nat)                -- shutil.move(tmp, store_filename): rename (fails with EXDEV across devices)
  -- cross-device fall-back of shutil.move = copy2 (copyfile + copystat) + unlink
  | xOpen (i : Nat)                  -- copyfile: open(store_filename, 'wb') creates or TRUNCATES IN PLACE
  | xWrite (i j k : Nat)             -- copyfile: chunk k of temp inode i to the opened inode j
  | xClose (i j : Nat)
  | xCopystat (i : Nat)              -- copystat: os.utime(store_filename) BY PATH, restores the temp file's mtime
  | xUnlink (i : Nat)                -- os.unlink(tmp)
  -- load(filename)
  | lOpen                            -- open(store_filename, 'rb')
  | lFstat (i v0 : Nat)              -- os.fstat(fd.fileno())   [or os.stat(store_filename)]
  | lStatSrc (i v0 m : Nat)          -- os.stat(filename)
  | lRead (i v0 m sm : Nat)          -- pickle.load(fd)
  | lUnlink                          -- _remove_filename(store_filename) after a failed unpickle
  -- CacheStore.__init__ → _check_cache_version (→ _clean)
  | cReadStamp                       -- open(version).read()
  | cListdir                         -- os.listdir(directory)
  | cUnlink                          -- os.unlink(entry)
  | cMkstemp | cWrite | cClose | cRename
  | done (r : Option Ret)
  | crashed
  | raised
  deriving Repr, DecidableEq, Inhabited

structure Proc where
  pc : PC
  /-- scanner version of this process (`_get_versionhash()`) -/
  sver : Nat
  /-- store: id of the source version this process parsed -/
  data : Nat
  deriving Repr, DecidableEq, Inhabited

inductive Ev where
  /-- process `p` starts an operation; for `store` this is the instant its parse of the
      source was read -/
  | spawn (p : Nat) (op : Op) (sver : Nat)
  /-- process `p` performs its next system call -/
  | step (p : Nat)
  /-- process `p` is killed before its next system call -/
  | crash (p : Nat)
  /-- the source file is replaced by a new version; `tick = false`: within the same
      timestamp granule as the previous event -/
  | modify (tick : Bool)
  /-- the source file is replaced by a new version that CARRIES the mtime `m` (it is not stamped
      with the current time): a file installed with its build time preserved (`cp -p`, `install -p`,
      `meson install`, `tar x`, a distribution package).  Typically `m` is older than the clock. -/
  | replace (m : Nat)
  /-- time passes -/
  | tick
  deriving Repr, DecidableEq

structure State where
  clock : Nat
  /-- current source version -/
  ver : Nat
  /-- ghost history: mtime of each source version; `srcM ver` is what `os.stat(filename)` returns -/
  srcM : Nat → Nat
  inodes : Nat → Inode
  nIno : Nat
  entry : Option Nat
  stamp : Option Nat
  /-- temp files of `store` left in TMPDIR (inode ids) -/
  tmps : List Nat
  /-- temp files of the stamp writer left in TMPDIR -/
  vtmps : Nat
  procs : Nat → Proc
  /-- TMPDIR and the cache directory are on different file systems: `rename` of a temp file
      into the cache directory fails with EXDEV and `shutil.move` copies instead -/
  xdev : Bool

def upd {α : Type} (f : Nat → α) (k : Nat) (v : α) : Nat → α := fun x => if x = k then v else f x

def State.setPc (s : State) (p : Nat) (pc : PC) : State :=
  { s with procs := upd s.procs p { s.procs p with pc := pc } }

def firstPc : Op → PC
  | .store => .sStatEntry
  | .load => .lOpen
  | .check => .cReadStamp

def PC.running : PC → Bool
  | .idle | .done _ | .crashed | .raised => false
  | _ => true

/-- `pickle.load` succeeds iff the whole pickle is there -/
def Inode.complete (n : Inode) : Bool := n.len == full

/-- one system call of process `p` -/
def stepProc (s : State) (p : Nat) : State :=
  let pr := s.procs p
  match pr.pc with
  -- ---- store
  | .sStatEntry =>
    match s.entry with
    | none => if statEntryCatchesENOENT then s.setPc p .sMkstemp else s.setPc p .raised
    | some i => s.setPc p (.sStatSrc (s.inodes i).mtime)
  | .sStatSrc m =>
    if cacheIsValid m (s.srcM s.ver) then s.setPc p (.done none) else s.setPc p .sMkstemp
  | .sMkstemp =>
    let i := s.nIno
    { s with
      inodes := upd s.inodes i ⟨pr.data, pr.sver, 0, s.clock, p, false⟩
      nIno := i + 1
      tmps := s.tmps ++ [i]
      procs := upd s.procs p { pr with pc := .sWrite i 0 } }
  | .sWrite i k =>
    { s with
      inodes := upd s.inodes i { s.inodes i with len := k + 1, mtime := s.clock }
      procs := upd s.procs p { pr with pc := if k + 1 = full then .sClose i else .sWrite i (k + 1) } }
  | .sClose i => s.setPc p (.sRename i)
  | .sRename i =>
    if s.xdev then s.setPc p (.xOpen i) else
    { s with
      entry := some i
      inodes := upd s.inodes i { s.inodes i with pub := true }
      tmps := s.tmps.filter (· != i)
      procs := upd s.procs p { pr with pc := .done none } }
  -- ---- store, cross-device publish
  | .xOpen i =>
    let t := s.inodes i
    match s.entry with
    | some j =>
      { s with
        inodes := upd s.inodes j { s.inodes j with data := t.data, sver := t.sver, len := 0, mtime := s.clock }
        procs := upd s.procs p { pr with pc := .xWrite i j 0 } }
    | none =>
      let j := s.nIno
      { s with
        inodes := upd s.inodes j ⟨t.data, t.sver, 0, s.clock, p, true⟩
        nIno := j + 1
        entry := some j
        procs := upd s.procs p { pr with pc := .xWrite i j 0 } }
  | .xWrite i j k =>
    { s with
      inodes := upd s.inodes j { s.inodes j with len := k + 1, mtime := s.clock }
      procs := upd s.procs p { pr with pc := if k + 1 = full then .xClose i j else .xWrite i j (k + 1) } }
  | .xClose i _ => s.setPc p (.xCopystat i)
  | .xCopystat i =>
    match s.entry with
    | none => if moveCatchesENOENT then s.setPc p (.xUnlink i) else s.setPc p .raised
    | some j =>
      { s with
        inodes := upd s.inodes j { s.inodes j with mtime := (s.inodes i).mtime }
        procs := upd s.procs p { pr with pc := .xUnlink i } }
  | .xUnlink i =>
    { s with
      tmps := s.tmps.filter (· != i)
      procs := upd s.procs p { pr with pc := .done none } }
  -- ---- load
  | .lOpen =>
    match s.entry with
    | none => if openCatchesENOENT then s.setPc p (.done none) else s.setPc p .raised
    | some i => s.setPc p (.lFstat i s.ver)
  | .lFstat i v0 =>
    if loadByFd then s.setPc p (.lStatSrc i v0 (s.inodes i).mtime)
    else match s.entry with
      | none => if loadPathStatCatchesENOENT then s.setPc p (.done none) else s.setPc p .raised
      | some j => s.setPc p (.lStatSrc i v0 (s.inodes j).mtime)
  | .lStatSrc i v0 m =>
    if loadStale m (s.srcM s.ver) then s.setPc p (.done none)
    else s.setPc p (.lRead i v0 m (s.srcM s.ver))
  | .lRead i v0 _ sm =>
    let n := s.inodes i
    if n.complete then s.setPc p (.done (some ⟨n.data, n.sver, n.len, n.mtime, sm, v0, s.ver⟩))
    else if unpickleCatchesAll then
      (if brokenIsUnlinked then s.setPc p .lUnlink else s.setPc p (.done none))
    else s.setPc p .raised
  | .lUnlink =>
    match s.entry with
    | none => if unlinkCatchesENOENT then s.setPc p (.done none) else s.setPc p .raised
    | some _ => { s with entry := none, procs := upd s.procs p { pr with pc := .done none } }
  -- ---- version check / purge
  | .cReadStamp =>
    match s.stamp with
    | none => if stampCatchesENOENT then s.setPc p .cListdir else s.setPc p .raised
    | some v => if v = pr.sver then s.setPc p (.done none) else s.setPc p .cListdir
  | .cListdir => if s.entry.isSome then s.setPc p .cUnlink else s.setPc p .cMkstemp
  | .cUnlink =>
    match s.entry with
    | none => if unlinkCatchesENOENT then s.setPc p .cMkstemp else s.setPc p .raised
    | some _ => { s with entry := none, procs := upd s.procs p { pr with pc := .cMkstemp } }
  | .cMkstemp => { s with vtmps := s.vtmps + 1, procs := upd s.procs p { pr with pc := .cWrite } }
  | .cWrite => s.setPc p .cClose
  | .cClose => s.setPc p .cRename
  | .cRename =>
    { s with stamp := some pr.sver, vtmps := s.vtmps - 1, procs := upd s.procs p { pr with pc := .done none } }
  | .idle | .done _ | .crashed | .raised => s

/-- the transition function (events that are not enabled leave the state unchanged) -/
def step (s : State) : Ev → State
  | .spawn p op sv =>
    if (s.procs p).pc = .idle then
      { s with procs := upd s.procs p ⟨firstPc op, sv, s.ver⟩ }
    else s
  | .step p => stepProc s p
  | .crash p => if (s.procs p).pc.running then s.setPc p .crashed else s
  | .modify t =>
    let c := if t then s.clock + 1 else s.clock
    { s with clock := c, ver := s.ver + 1, srcM := upd s.srcM (s.ver + 1) c }
  | .replace m => { s with ver := s.ver + 1, srcM := upd s.srcM (s.ver + 1) m }
  | .tick => { s with clock := s.clock + 1 }

def run (s : State) (evs : List Ev) : State := evs.foldl step s

/-- an initial state: source at version `ver` (all earlier versions stamped `srcMtime` too —
    only the current one is observable), an optional entry inode 0, an optional stamp -/
def mkInit (clock ver srcMtime : Nat) (entry : Option (Nat × Nat × Nat × Nat)) (stamp : Option Nat)
    (xdev : Bool := false) : State where
  clock := clock
  ver := ver
  srcM := fun _ => srcMtime
  inodes := fun _ =>
    match entry with
    | some (d, sv, l, m) => ⟨d, sv, l, m, 0, true⟩
    | none => default
  nIno := if entry.isSome then 1 else 0
  entry := if entry.isSome then some 0 else none
  stamp := stamp
  tmps := []
  vtmps := 0
  procs := fun _ => ⟨.idle, 0, 0⟩
  xdev := xdev

/-! ### the hypothesis of `C18_fresh_partial`, as a predicate on histories -/

/-- the event respects "the source is not modified between the read that produced a parse
    and the store of that parse" (a writing step of a store happens while the version it
    parsed is still current) and "a modification gets a later timestamp than anything
    written before it" -/
def evOK (s : State) : Ev → Bool
  | .step p =>
    match (s.procs p).pc with
    | .sWrite _ _ => (s.procs p).data == s.ver
    | _ => true
  | .modify t => t
  | .replace _ => false
  | _ => true

def histOK (s : State) : List Ev → Bool
  | [] => true
  | e :: es => evOK s e && histOK (step s e) es

/-- only the first half: no modification between parse and store -/
def evNoModDuringStore (s : State) : Ev → Bool
  | .step p =>
    match (s.procs p).pc with
    | .sWrite _ _ => (s.procs p).data == s.ver
    | _ => true
  | _ => true

def histNoModDuringStore (s : State) : List Ev → Bool
  | [] => true
  | e :: es => evNoModDuringStore s e && histNoModDuringStore (step s e) es

/-- only the second half: every modification is stamped with the time at which it happens and
    ticks the clock -/
def histFineClock : List Ev → Bool
  | [] => true
  | .modify t :: es => t && histFineClock es
  | .replace _ :: _ => false
  | _ :: es => histFineClock es

/-- weaker: every modification that is stamped with the current time ticks the clock; files
    installed with a preserved (older) mtime are allowed -/
def histTicks : List Ev → Bool
  | [] => true
  | .modify t :: es => t && histTicks es
  | _ :: es => histTicks es

/-! ### the hypothesis of `C18_version_purge` -/

def PC.isStore : PC → Bool
  | .sStatEntry | .sStatSrc _ | .sMkstemp | .sWrite _ _ | .sClose _ | .sRename _ => true
  | .xOpen _ | .xWrite _ _ _ | .xClose _ _ | .xCopystat _ | .xUnlink _ => true
  | _ => false

/-- every step of a store in the history is by a process of scanner version `V` -/
def onlyStoresOf (V : Nat) (s : State) : List Ev → Bool
  | [] => true
  | e :: es =>
    (match e with
     | .step p => !(s.procs p).pc.isStore || (s.procs p).sver == V
     | _ => true) && onlyStoresOf V (step s e) es

/-! ### observation, for the driver -/

def PC.label : PC → String
  | .idle => "idle"
  | .sStatEntry => "stat_entry" | .sStatSrc _ => "stat_src" | .sMkstemp => "mkstemp"
  | .sWrite _ _ => "write" | .sClose _ => "close" | .sRename _ => "rename"
  | .xOpen _ => "open_w" | .xWrite _ _ _ => "write" | .xClose _ _ => "close"
  | .xCopystat _ => "copystat" | .xUnlink _ => "unlink"
  | .lOpen => "open_entry" | .lFstat _ _ => if loadByFd then "fstat" else "stat_entry"
  | .lStatSrc _ _ _ => "stat_src" | .lRead _ _ _ _ => "read" | .lUnlink => "unlink"
  | .cReadStamp => "read_stamp" | .cListdir => "listdir" | .cUnlink => "unlink"
  | .cMkstemp => "mkstemp" | .cWrite => "write" | .cClose => "close" | .cRename => "rename"
  | .done _ => "done" | .crashed => "crashed" | .raised => "raised"

/-- label of the system call an event performs ("-" when the event is not a system call
    or is not enabled) -/
def evLabel (s : State) : Ev → String
  | .step p => if (s.procs p).pc.running then (s.procs p).pc.label else "-"
  | _ => "-"

def traceOf (s : State) : List Ev → List String
  | [] => []
  | e :: es => evLabel s e :: traceOf (step s e) es

/-- events enabled in `s` among: steps/crashes of the given pids, `budgetMod` modifications -/
def enabledSteps (s : State) (pids : List Nat) : List Nat :=
  pids.filter (fun p => (s.procs p).pc.running)

end GIVerif.Cache
