/-
  C18 model: giscanner/cachestore.py (`CacheStore.store`, `load`, `_cache_is_valid`,
  `_remove_filename`, `_check_cache_version`, `_clean`) and the call site
  `Transformer._parse_include` as a small-step transition system: ONE atomic step per system call
  the Python code makes, any number of processes, plus environment steps (source modification,
  source replacement, time passing, crash).

  File system: the single cache entry name `sha1(path)` (`entry`), the stamp `.cache-version`
  (`stamp`), the temporary files of `store` (`tempfile.mkstemp(dir=<cache directory>)`: they are
  names IN the cache directory, `tmps`, where `_clean` of a version purge unlinks them too), the
  temporary files of the stamp writer (TMPDIR, `vtmps`), an inode table.  Content of an inode is
  abstracted to (which source version's parse, which scanner version wrote it, how many chunks of
  the pickle are on disk): `pickle.load` succeeds iff all chunks are there.

  An entry is published by `os.replace` (one atomic rename, no copy on any device layout) after
  `os.utime` has given it the mtime the SOURCE had before it was read (`Proc.m0`, observed by the
  call site at spawn time); `_cache_is_valid` and `load` accept an entry iff its mtime EQUALS the
  source's current mtime.

  The comparisons and the swallowed errnos come from the generated `Gen/Cache.lean`,
  so the model follows the source when those change.  Import-free apart from the
  generated tables, so it links into the compiled driver.
-/
import GIVerif.Gen.Cache

namespace GIVerif.Cache
open GIVerif.Gen.Cache

/-- number of chunks `pickle.dump` writes (the harness writes the pickle in two halves) -/
def full : Nat := 2

structure Inode where
  /-- id of the source version whose parse is serialised here -/
  data : Nat
  /-- scanner version of the writer -/
  sver : Nat
  /-- chunks on disk; a complete pickle iff `len = full`; a strict prefix never unpickles -/
  len : Nat
  mtime : Nat
  /-- ghost: pid of the `mkstemp` caller -/
  owner : Nat
  /-- ghost: has been linked under the entry name -/
  pub : Bool
  deriving Repr, DecidableEq, Inhabited

/-- what a successful `load` hands back, with ghost bookkeeping for the theorems -/
structure Ret where
  data : Nat
  sver : Nat
  /-- chunks of the pickle that were on disk when it was read -/
  len : Nat
  /-- mtime of the inode that was unpickled, at the time of the read -/
  entryM : Nat
  /-- source mtime read by this load -/
  srcSeen : Nat
  /-- source version current at the load's first step (`open`) -/
  vStart : Nat
  /-- source version current at the load's last step (`pickle.load`) -/
  vEnd : Nat
  deriving Repr, DecidableEq, Inhabited

inductive Op where
  | store | load | check
  deriving Repr, DecidableEq

/-- a name in the cache directory as `os.listdir` reports it to a purge: the entry or a
    temporary file (by inode id) -/
abbrev Name := Option Nat

/-- program counter + locals; each constructor names the NEXT system call -/
inductive PC where
  | idle
  -- Transformer._parse_include: (os.stat(filename) happened at spawn) parser.parse(filename)
  | sParse                           -- the source is READ here
  -- store(filename, data, source_mtime_ns)
  | sStatEntry                       -- _cache_is_valid: os.stat(store_filename)
  | sStatSrc (m : Nat)               -- _cache_is_valid: os.stat(filename)
  | sMkstemp                         -- tempfile.mkstemp(dir=cache directory)
  | sWrite (i k : Nat)               -- pickle.dump: chunk k to the temp inode i
  | sClose (i : Nat)                 -- leaving `with os.fdopen(...)`
  | sUtime (i : Nat)                 -- os.utime(tmp_filename, ns=(source_mtime_ns, ...)) BY PATH
  | sRename (i : Nat)                -- os.replace(tmp_filename, store_filename)
  | sUnlinkTmp (i : Nat)             -- handler of EACCES / ENOENT: _remove_filename(tmp_filename)
  -- load(filename)
  | lOpen                            -- open(store_filename, 'rb')
  | lFstat (i v0 : Nat)              -- os.fstat(fd.fileno())   [or os.stat(store_filename)]
  | lStatSrc (i v0 m : Nat)          -- os.stat(filename)
  | lRead (i v0 m sm : Nat)          -- pickle.load(fd)
  | lUnlink                          -- _remove_filename(store_filename) after a failed unpickle
  -- CacheStore.__init__ → _check_cache_version (→ _clean)
  | cReadStamp                       -- open(version).read()
  | cListdir                         -- os.listdir(directory)
  | cUnlink (todo : List Name)       -- os.unlink of the first listed name, the rest follows
  | cMkstemp | cWrite | cClose | cRename
  | done (r : Option Ret)
  | crashed
  | raised
  deriving Repr, DecidableEq, Inhabited

structure Proc where
  pc : PC
  /-- scanner version of this process (`_get_versionhash()`) -/
  sver : Nat
  /-- store: id of the source version this process parsed (set by the `sParse` step) -/
  data : Nat
  /-- the source's mtime observed when the operation started: for a store this is
      `os.stat(filename).st_mtime_ns` of `_parse_include`, taken BEFORE the file is read -/
  m0 : Nat
  deriving Repr, DecidableEq, Inhabited

inductive Ev where
  /-- process `p` starts an operation; for `store` this is the instant `_parse_include` stats
      the source, its next step reads it -/
  | spawn (p : Nat) (op : Op) (sver : Nat)
  /-- process `p` performs its next system call -/
  | step (p : Nat)
  /-- process `p` is killed before its next system call -/
  | crash (p : Nat)
  /-- the source file is replaced by a new version stamped with the current time; `tick = false`:
      within the same timestamp granule as the previous event -/
  | modify (tick : Bool)
  /-- the source file is replaced by a new version that CARRIES the mtime `m` (it is not stamped
      with the current time): a file installed with its build time preserved (`cp -p`, `install -p`,
      `meson install`, `tar x`, a distribution package) -/
  | replace (m : Nat)
  /-- time passes -/
  | tick
  deriving Repr, DecidableEq

structure State where
  clock : Nat
  /-- current source version -/
  ver : Nat
  /-- ghost history: mtime of each source version; `srcM ver` is what `os.stat(filename)` returns -/
  srcM : Nat → Nat
  inodes : Nat → Inode
  nIno : Nat
  entry : Option Nat
  stamp : Option Nat
  /-- temporary files of `store` linked in the cache directory (inode ids, in creation order) -/
  tmps : List Nat
  /-- temp files of the stamp writer left in TMPDIR -/
  vtmps : Nat
  procs : Nat → Proc

def upd {α : Type} (f : Nat → α) (k : Nat) (v : α) : Nat → α := fun x => if x = k then v else f x

def State.setPc (s : State) (p : Nat) (pc : PC) : State :=
  { s with procs := upd s.procs p { s.procs p with pc := pc } }

def firstPc : Op → PC
  | .store => .sParse
  | .load => .lOpen
  | .check => .cReadStamp

def PC.running : PC → Bool
  | .idle | .done _ | .crashed | .raised => false
  | _ => true

/-- `pickle.load` succeeds iff the whole pickle is there -/
def Inode.complete (n : Inode) : Bool := n.len == full

/-- `os.unlink` of a listed name by a purge: a name that is gone is ENOENT, swallowed -/
def unlinkName (s : State) : Name → State
  | none => { s with entry := none }
  | some i => { s with tmps := s.tmps.filter (· != i) }

def nameExists (s : State) : Name → Bool
  | none => s.entry.isSome
  | some i => s.tmps.contains i

/-- one system call of process `p` -/
def stepProc (s : State) (p : Nat) : State :=
  let pr := s.procs p
  match pr.pc with
  -- ---- the call site reads the source
  | .sParse => { s with procs := upd s.procs p { pr with pc := .sStatEntry, data := s.ver } }
  -- ---- store
  | .sStatEntry =>
    match s.entry with
    | none => if statEntryCatchesENOENT then s.setPc p .sMkstemp else s.setPc p .raised
    | some i => s.setPc p (.sStatSrc (s.inodes i).mtime)
  | .sStatSrc m =>
    if cacheIsValid m (s.srcM s.ver) then s.setPc p (.done none) else s.setPc p .sMkstemp
  | .sMkstemp =>
    let i := s.nIno
    { s with
      inodes := upd s.inodes i ⟨pr.data, pr.sver, 0, s.clock, p, false⟩
      nIno := i + 1
      tmps := s.tmps ++ [i]
      procs := upd s.procs p { pr with pc := .sWrite i 0 } }
  | .sWrite i k =>
    { s with
      inodes := upd s.inodes i { s.inodes i with len := k + 1, mtime := s.clock }
      procs := upd s.procs p { pr with pc := if k + 1 = full then .sClose i else .sWrite i (k + 1) } }
  | .sClose i => s.setPc p (.sUtime i)
  | .sUtime i =>
    if s.tmps.contains i then
      { s with
        inodes := upd s.inodes i { s.inodes i with mtime := pr.m0 }
        procs := upd s.procs p { pr with pc := .sRename i } }
    else if utimeCatchesENOENT then s.setPc p (.sUnlinkTmp i) else s.setPc p .raised
  | .sRename i =>
    if s.tmps.contains i then
      { s with
        entry := some i
        inodes := upd s.inodes i { s.inodes i with pub := true }
        tmps := s.tmps.filter (· != i)
        procs := upd s.procs p { pr with pc := .done none } }
    else if moveCatchesENOENT then s.setPc p (.sUnlinkTmp i) else s.setPc p .raised
  | .sUnlinkTmp i =>
    if s.tmps.contains i then
      { s with tmps := s.tmps.filter (· != i), procs := upd s.procs p { pr with pc := .done none } }
    else if unlinkCatchesENOENT then s.setPc p (.done none) else s.setPc p .raised
  -- ---- load
  | .lOpen =>
    match s.entry with
    | none => if openCatchesENOENT then s.setPc p (.done none) else s.setPc p .raised
    | some i => s.setPc p (.lFstat i s.ver)
  | .lFstat i v0 =>
    if loadByFd then s.setPc p (.lStatSrc i v0 (s.inodes i).mtime)
    else match s.entry with
      | none => if loadPathStatCatchesENOENT then s.setPc p (.done none) else s.setPc p .raised
      | some j => s.setPc p (.lStatSrc i v0 (s.inodes j).mtime)
  | .lStatSrc i v0 m =>
    if loadStale m (s.srcM s.ver) then s.setPc p (.done none)
    else s.setPc p (.lRead i v0 m (s.srcM s.ver))
  | .lRead i v0 _ sm =>
    let n := s.inodes i
    if n.complete then s.setPc p (.done (some ⟨n.data, n.sver, n.len, n.mtime, sm, v0, s.ver⟩))
    else if unpickleCatchesAll then
      (if brokenIsUnlinked then s.setPc p .lUnlink else s.setPc p (.done none))
    else s.setPc p .raised
  | .lUnlink =>
    match s.entry with
    | none => if unlinkCatchesENOENT then s.setPc p (.done none) else s.setPc p .raised
    | some _ => { s with entry := none, procs := upd s.procs p { pr with pc := .done none } }
  -- ---- version check / purge
  | .cReadStamp =>
    match s.stamp with
    | none => if stampCatchesENOENT then s.setPc p .cListdir else s.setPc p .raised
    | some v => if v = pr.sver then s.setPc p (.done none) else s.setPc p .cListdir
  | .cListdir =>
    -- sorted listing: the entry (a hex digest) before the temporary files ("g-ir-scanner-cache-…")
    match (if s.entry.isSome then [none] else []) ++ s.tmps.map some with
    | [] => s.setPc p .cMkstemp
    | todo => s.setPc p (.cUnlink todo)
  | .cUnlink todo =>
    match todo with
    | [] => s.setPc p .cMkstemp
    | n :: rest =>
      let next : PC := if rest.isEmpty then .cMkstemp else .cUnlink rest
      if nameExists s n then (unlinkName s n).setPc p next
      else if unlinkCatchesENOENT then s.setPc p next else s.setPc p .raised
  | .cMkstemp => { s with vtmps := s.vtmps + 1, procs := upd s.procs p { pr with pc := .cWrite } }
  | .cWrite => s.setPc p .cClose
  | .cClose => s.setPc p .cRename
  | .cRename =>
    { s with stamp := some pr.sver, vtmps := s.vtmps - 1, procs := upd s.procs p { pr with pc := .done none } }
  | .idle | .done _ | .crashed | .raised => s

/-- the transition function (events that are not enabled leave the state unchanged) -/
def step (s : State) : Ev → State
  | .spawn p op sv =>
    if (s.procs p).pc = .idle then
      { s with procs := upd s.procs p ⟨firstPc op, sv, s.ver, s.srcM s.ver⟩ }
    else s
  | .step p => stepProc s p
  | .crash p => if (s.procs p).pc.running then s.setPc p .crashed else s
  | .modify t =>
    let c := if t then s.clock + 1 else s.clock
    { s with clock := c, ver := s.ver + 1, srcM := upd s.srcM (s.ver + 1) c }
  | .replace m => { s with ver := s.ver + 1, srcM := upd s.srcM (s.ver + 1) m }
  | .tick => { s with clock := s.clock + 1 }

def run (s : State) (evs : List Ev) : State := evs.foldl step s

/-- an initial state: source at version `ver` with mtime `srcMtime`, an optional entry inode 0
    `(data, sver, len, mtime)`, an optional stamp.  Earlier versions are not observable; they are
    given the mtime of the initial entry (which was made from one of them) when there is one. -/
def mkInit (clock ver srcMtime : Nat) (entry : Option (Nat × Nat × Nat × Nat)) (stamp : Option Nat) : State where
  clock := clock
  ver := ver
  srcM := fun v =>
    if v = ver then srcMtime else
    match entry with
    | some (_, _, _, m) => m
    | none => srcMtime
  inodes := fun _ =>
    match entry with
    | some (d, sv, l, m) => ⟨d, sv, l, m, 0, true⟩
    | none => default
  nIno := if entry.isSome then 1 else 0
  entry := if entry.isSome then some 0 else none
  stamp := stamp
  tmps := []
  vtmps := 0
  procs := fun _ => ⟨.idle, 0, 0, 0⟩

/-! ### the hypothesis of `C18_fresh_partial`, as a predicate on histories -/

/-- a new version of the source does not carry an mtime that an earlier version carried -/
def newMtimeOK (s : State) (c : Nat) : Bool := (List.range (s.ver + 1)).all (fun v => s.srcM v != c)

def evDistinct (s : State) : Ev → Bool
  | .modify t => newMtimeOK s (if t then s.clock + 1 else s.clock)
  | .replace m => newMtimeOK s m
  | _ => true

/-- "source versions carry pairwise distinct mtimes": every version that becomes current during
    the history has an mtime that no earlier version had -/
def histDistinctMtimes (s : State) : List Ev → Bool
  | [] => true
  | e :: es => evDistinct s e && histDistinctMtimes (step s e) es

/-! ### the hypothesis of `C18_version_purge` -/

def PC.isStore : PC → Bool
  | .sParse | .sStatEntry | .sStatSrc _ | .sMkstemp | .sWrite _ _ | .sClose _ | .sUtime _ | .sRename _
  | .sUnlinkTmp _ => true
  | _ => false

/-- every step of a store in the history is by a process of scanner version `V` -/
def onlyStoresOf (V : Nat) (s : State) : List Ev → Bool
  | [] => true
  | e :: es =>
    (match e with
     | .step p => !(s.procs p).pc.isStore || (s.procs p).sver == V
     | _ => true) && onlyStoresOf V (step s e) es

/-! ### observation, for the driver -/

def PC.label : PC → String
  | .idle => "idle"
  | .sParse => "parse"
  | .sStatEntry => "stat_entry" | .sStatSrc _ => "stat_src" | .sMkstemp => "mkstemp"
  | .sWrite _ _ => "write" | .sClose _ => "close" | .sUtime _ => "utime" | .sRename _ => "rename"
  | .sUnlinkTmp _ => "unlink"
  | .lOpen => "open_entry" | .lFstat _ _ => if loadByFd then "fstat" else "stat_entry"
  | .lStatSrc _ _ _ => "stat_src" | .lRead _ _ _ _ => "read" | .lUnlink => "unlink"
  | .cReadStamp => "read_stamp" | .cListdir => "listdir" | .cUnlink _ => "unlink"
  | .cMkstemp => "mkstemp" | .cWrite => "write" | .cClose => "close" | .cRename => "rename"
  | .done _ => "done" | .crashed => "crashed" | .raised => "raised"

/-- label of the system call an event performs ("-" when the event is not a system call
    or is not enabled) -/
def evLabel (s : State) : Ev → String
  | .step p => if (s.procs p).pc.running then (s.procs p).pc.label else "-"
  | _ => "-"

def traceOf (s : State) : List Ev → List String
  | [] => []
  | e :: es => evLabel s e :: traceOf (step s e) es

/-- events enabled in `s` among: steps/crashes of the given pids, `budgetMod` modifications -/
def enabledSteps (s : State) (pids : List Nat) : List Nat :=
  pids.filter (fun p => (s.procs p).pc.running)

/-! ### several source paths (several cache keys)

  `CacheStore._get_filename` maps the path of a dependency GIR to the NAME of its cache entry: sha1
  of `os.path.abspath(path)`, taken in the working directory of the calling process.  A `Path` of a
  family is therefore an ABSOLUTE, normalised path (no `.`, `..`, `//`; symlinks not resolved): two
  spellings with one abspath name one file and rightly share the entry, the same relative spelling
  used from two working directories is two `Path`s.  A `Family` holds one single-key state per entry name: the source
  file that name stands for, the entry of that name, the operations (store / load, source
  modifications) addressed to it.  An event is addressed to a path and acts on the state of the
  path's entry name.  (The version check / purge is an operation on the directory, not on a path:
  it is covered by the single-key theorems for each name separately and is not an event of a family.) -/

abbrev Family := Nat → State

def kstep {Path : Type} (name : Path → Nat) (K : Family) (e : Path × Ev) : Family :=
  upd K (name e.1) (step (K (name e.1)) e.2)

def krun {Path : Type} (name : Path → Nat) (K : Family) (evs : List (Path × Ev)) : Family :=
  evs.foldl (kstep name) K

/-- the events of a history that are addressed to path `k` -/
def eventsOf {Path : Type} [DecidableEq Path] (k : Path) (evs : List (Path × Ev)) : List Ev :=
  (evs.filter (fun e => decide (e.1 = k))).map (·.2)

end GIVerif.Cache
