/-
  C13 model: giscanner/transformer.py (`_enum_common_prefix` with its nested `common_prefix`,
  `_create_enum`, `_strip_symbol`, `strip_identifier`, `_create_const`, the alias branch of
  `_create_typedef`, `_canonicalize_ctype` / `create_type_from_ctype_string`,
  `_resolve_type_from_ctype`, `resolve_aliases`, the loop of `parse` with `_append_new_node`)
  and the enum / bitfield / member / constant writers of giscanner/girwriter.py.

  Scope of the string operations: identifiers come from the C lexer, whose identifier
  pattern is `[a-zA-Z_][a-zA-Z_0-9]*` (Gen.lexerIdentPattern, compared by a `decide`
  theorem); on such strings `str.lower()`, `str.upper()` and `str.isupper()` are the ASCII
  maps below.  Namespace prefixes are assumed ASCII as well.  One namespace, no includes,
  non-empty prefix lists.  `'%f' % double` is not modelled (value = none).

  The type tables are the character-list copies Gen.typeNamesL / Gen.typeConstsL written by
  gen_enumconst.py (kernel evaluation of `String.toList` is far too slow for `decide`);
  Props/C13.lean proves that they agree with the shared Gen/TypeNames.lean.

  Import-free apart from the Py library and generated tables, so it links into the driver.
-/
import GIVerif.Py.Str
import GIVerif.Gen.EnumConst

namespace GIVerif.EnumConst
open GIVerif.Py

/-! ### Python string operations used by the enum code -/

/-- `s.split('_')`: never empty, words contain no `_` -/
def splitU : Str → List Str
  | [] => [[]]
  | c :: cs =>
    if c = '_' then [] :: splitU cs
    else match splitU cs with
      | w :: ws => (c :: w) :: ws
      | [] => [[c]]

/-- `'_'.join(ws)` -/
def joinU (ws : List Str) : Str := join ['_'] ws

/-- `a < b` on `str`: lexicographic by code point -/
def strLt : Str → Str → Bool
  | _, [] => false
  | [], _ :: _ => true
  | a :: as, b :: bs => if a = b then strLt as bs else decide (a.toNat < b.toNat)

/-- `min(a, b)`: the first argument unless the second is strictly smaller -/
def strMin (a b : Str) : Str := if strLt b a then b else a

/-- `c.lower()` / `c.upper()` / `c.isupper()` on the lexer's identifier alphabet -/
def lowerChar (c : Char) : Char := if isAsciiUpper c then Char.ofNat (c.toNat + 32) else c
def upperChar (c : Char) : Char := if isAsciiLower c then Char.ofNat (c.toNat - 32) else c
def lowerStr (s : Str) : Str := s.map lowerChar
def upperStr (s : Str) : Str := s.map upperChar

/-! ### `_enum_common_prefix` -/

/-- the `for aword, bword in zip(...)` loop of `common_prefix`:
    `some parts` = left through `aword != bword` with `commonparts = parts`,
    `none` = the zip was exhausted (fall through to `min(a, b)`) -/
def zipCommon : List Str → List Str → Option (List Str)
  | aw :: as, bw :: bs => if aw = bw then (zipCommon as bs).map (aw :: ·) else some []
  | _, _ => none

/-- `common_prefix(a, b)` -/
def commonPrefix2 (a b : Str) : Str :=
  match zipCommon (splitU a) (splitU b) with
  | some [] => []
  | some parts => joinU parts ++ ['_']
  | none => strMin a b

/-- the `else` arm of the loop over `child_list`, from the second child on;
    `none` is `return None` on `prefix == ''` -/
def prefixFold : Str → List Str → Option Str
  | p, [] => some p
  | p, c :: cs =>
    let p' := commonPrefix2 p c
    if p' = [] then none else prefixFold p' cs

/-- `_enum_common_prefix(symbol)` on the identifiers of ALL children (private ones too) -/
def enumCommonPrefix (idents : List Str) : Option Str :=
  if idents.length < Gen.enumMinMembers then none
  else match idents with
    | [] => none
    | first :: rest => prefixFold first rest

/-- `prefixlen` of `_create_enum` (`if prefix:` treats `None` and `''` alike) -/
def prefixLen (idents : List Str) : Nat :=
  match enumCommonPrefix idents with
  | some p => p.length
  | none => 0

/-! ### `_strip_symbol`, `strip_identifier` (one namespace, no includes) -/

inductive Err where
  /-- TransformerException "Unknown namespace for symbol '…'" (a warning; the symbol is skipped) -/
  | unknownSymbol (name : Str)
  /-- TransformerException "Unknown namespace for identifier '…'" -/
  | unknownIdentifier (name : Str)
  /-- `name[0]` on an empty string: an uncaught IndexError -/
  | indexError
  /-- `raise AssertionError()`: a constant symbol without any value -/
  | assertion
  /-- `message.fatal("Namespace conflict for '…'")` -/
  | conflict (name : Str)
  deriving Repr, DecidableEq

/-- first prefix (list order) the name starts with; the rest of the name -/
def firstPrefixMatch : List Str → Str → Option Str
  | [], _ => none
  | p :: ps, name => if startsWith name p then some (name.drop p.length) else firstPrefixMatch ps name

def withUnderscore (p : Str) : Str := if endsWith p ['_'] then p else p ++ ['_']

/-- the prefixes `_split_c_string_for_namespace_matches(name, is_identifier=False)` tries -/
def symbolPrefixesFor (symPrefixes : List Str) (c : Char) : List Str :=
  (if isAsciiUpper c then symPrefixes.map upperStr else symPrefixes).map withUnderscore

/-- `_strip_symbol(symbol)` -/
def stripSymbol (symPrefixes : List Str) (ident : Str) : Except Err Str :=
  let hidden := startsWith ident ['_']
  let name := if hidden then ident.drop 1 else ident
  match name with
  | [] => .error .indexError
  | c :: _ =>
    match firstPrefixMatch (symbolPrefixesFor symPrefixes c) name with
    | some rest => .ok (if hidden then '_' :: rest else rest)
    | none => .error (.unknownSymbol name)

/-- `strip_identifier(ident)` -/
def stripIdentifier (idPrefixes : List Str) (ident : Str) : Except Err Str :=
  let hidden := startsWith ident ['_']
  let name := if hidden then ident.drop 1 else ident
  match firstPrefixMatch idPrefixes name with
  | some rest => .ok (if hidden then '_' :: rest else rest)
  | none => .error (.unknownIdentifier name)

/-! ### `_create_enum` -/

/-- an enumerator as delivered by the lexer -/
structure CMember where
  ident : Str
  value : Int
  priv : Bool
  deriving Repr, DecidableEq

/-- `ast.Member(name, value, symbol)` -/
structure Member where
  name : Str
  value : Int
  cident : Str
  deriving Repr, DecidableEq

structure EnumNode where
  bitfield : Bool
  name : Str
  ctype : Str
  members : List Member
  deriving Repr, DecidableEq

/-- the two ways a member name is formed -/
def memberName (symPrefixes : List Str) (prefixlen : Nat) (ident : Str) : Except Err Str :=
  if prefixlen > 0 then .ok (ident.drop prefixlen) else stripSymbol symPrefixes ident

/-- the member loop: private children skipped, the first failing `_strip_symbol` aborts -/
def createMembers (symPrefixes : List Str) (prefixlen : Nat) : List CMember → Except Err (List Member)
  | [] => .ok []
  | ch :: rest =>
    if ch.priv then createMembers symPrefixes prefixlen rest
    else match memberName symPrefixes prefixlen ch.ident with
      | .error e => .error e
      | .ok name =>
        match createMembers symPrefixes prefixlen rest with
        | .error e => .error e
        | .ok ms => .ok (⟨lowerStr name, ch.value, ch.ident⟩ :: ms)

/-- `_create_enum(symbol)` -/
def createEnum (idPrefixes symPrefixes : List Str) (ident : Str) (isBitfield : Bool)
    (children : List CMember) : Except Err EnumNode :=
  match createMembers symPrefixes (prefixLen (children.map (·.ident))) children with
  | .error e => .error e
  | .ok members =>
    match stripIdentifier idPrefixes ident with
    | .error e => .error e
    | .ok enumName => .ok ⟨isBitfield, enumName, ident, members⟩

/-! ### types of constants -/

/-- `ast.type_names.get(t)`: (target_fundamental, ctype) -/
def lookupTypeName (t : Str) : Option (Str × Str) :=
  (Gen.typeNamesL.find? (fun r => r.1 = t)).map (fun r => (r.2.1, r.2.2))

/-- `_canonicalize_ctype`, on the reversed string (so that stripping one `*` is structural) -/
def canonRev : Str → Str
  | [] => match lookupTypeName [] with
    | some r => r.1
    | none => []
  | c :: r => match lookupTypeName (c :: r).reverse with
    | some x => x.1
    | none => if c = '*' then canonRev r ++ ['*'] else (c :: r).reverse

def canonicalizeCType (t : Str) : Str := canonRev t.reverse

def stripStars (t : Str) : Str := t.filter (· ≠ '*')

/-- `create_type_from_ctype_string(t).target_fundamental` (container names and GStrv are
    outside the model) -/
def createTypeFromCType (t : Str) : Option Str :=
  let canonical := canonicalizeCType t
  let base := if canonical = ['_','B','o','o','l'] ∨ canonical = ['b','o','o','l'] then ['g','b','o','o','l','e','a','n']
              else stripStars canonical
  (lookupTypeName base).map (·.1)

/-- `ast.TYPE_X.target_fundamental` -/
def typeConstFundamental (n : Str) : Option Str :=
  (Gen.typeConstsL.find? (fun r => r.1 = n)).map (·.2)

/-- the chain on `unaliased` in `_create_const`: the modulus of the first branch whose
    TYPE_* constants include the fundamental -/
def wrapModulus (f : Str) : Option Nat :=
  (Gen.constWraps.find? (fun r => r.1.any (fun n => typeConstFundamental n = some f))).map
    (fun r => r.2.1 ^ r.2.2)

/-- `str(symbol.const_int % m)` / `str(symbol.const_int)` before `str` -/
def constIntValue (unaliased : Option Str) (v : Int) : Int :=
  match unaliased.bind wrapModulus with
  | some m => v % (m : Int)
  | none => v

/-- `str(n)` for an `int` -/
def decimal (v : Int) : Str := (Int.repr v).toList

/-! ### the namespace while parsing -/

/-- a constant symbol: the lexer's optional fields, and the C type string of its cast -/
structure ConstSym where
  ident : Str
  file : Option Str
  constString : Option Str
  constInt : Option Int
  constBool : Option Bool
  hasDouble : Bool
  baseType : Option Str
  deriving Repr, DecidableEq

/-- `ast.Constant(name, typeval, value, ctype)`; `value = none` for doubles (not modelled);
    `declType` is `typeval.ctype`, `fundamental` is `typeval.target_fundamental` -/
structure ConstNode where
  name : Str
  value : Option Str
  cident : Str
  declType : Str
  fundamental : Option Str
  deriving Repr, DecidableEq

inductive Node where
  | alias (name ctype target : Str)
  | enum (e : EnumNode)
  | const (c : ConstNode)
  deriving Repr, DecidableEq

def Node.name : Node → Str
  | .alias n _ _ => n
  | .enum e => e.name
  | .const c => c.name

/-- `node.ctype` (what `Namespace.ctypes` is keyed by) -/
def Node.ctype : Node → Str
  | .alias _ c _ => c
  | .enum e => e.ctype
  | .const c => c.cident

/-- `_resolve_type_from_ctype`: the node `typeval.target_giname` will name -/
def lookupNode (idPrefixes : List Str) (nodes : List Node) (t : Str) : Option Node :=
  let stripped := stripStars t
  match firstPrefixMatch idPrefixes stripped with
  | none => none
  | some rest =>
    match nodes.find? (fun n => n.name = rest) with
    | some n => some n
    | none => nodes.find? (fun n => n.ctype = stripped)

/-- `resolve_aliases(node)` while parsing, as far as `_create_const` uses it: `some f` when the
    loop ends at a `Type` (the fundamental type `type_names[f]`), `none` when it ends at a node
    that is not a `Type` (an alias it cannot follow further, an enumeration, a constant, or
    nothing).  One iteration per alias: the `seen` guard (`id(typenode) not in seen`; nodes of a
    namespace are told apart by content here), then the alias target — created by
    `create_type_from_ctype_string` when the typedef was parsed, so it carries a fundamental
    type or only its C type string; in the second case a clone is resolved against the namespace
    (`_resolve_type_from_ctype` = `lookupNode`) and the loop goes on from the node found.
    `fuel` only makes the recursion structural: `constUnaliased` passes more than there are
    nodes, and every iteration adds a new node of the namespace to `seen`
    (`resolveAliases_of_chain` in Lemmas: every finite chain is followed to its end). -/
def resolveAliases (idPrefixes : List Str) (nodes : List Node) : Nat → List Node → Node → Option Str
  | 0, _, _ => none
  | fuel + 1, seen, .alias n c target =>
    if Node.alias n c target ∈ seen then none
    else match createTypeFromCType target with
      | some f => (lookupTypeName f).map (·.1)
      | none =>
        match lookupNode idPrefixes nodes target with
        | some next => resolveAliases idPrefixes nodes fuel (Node.alias n c target :: seen) next
        | none => none
  | _ + 1, _, _ => none

/-- `unaliased.target_fundamental` in `_create_const` for a constant of C type `t`: the type
    `resolve_aliases` ends at when the declared type names a node of the namespace and the
    chain ends at a `Type`; the declared type itself otherwise -/
def constUnaliased (idPrefixes : List Str) (nodes : List Node) (t : Str) : Option Str :=
  let own := createTypeFromCType t
  match lookupNode idPrefixes nodes t with
  | some node =>
    match resolveAliases idPrefixes nodes (nodes.length + 1) [] node with
    | some f => some f
    | none => own
  | none => own

def typeConstCType (n : Str) : Str :=
  match (typeConstFundamental n).bind lookupTypeName with
  | some r => r.2
  | none => []

def branchConst (field : Str) : Str :=
  match Gen.constBranches.find? (fun r => r.1 = field) with
  | some r => r.2
  | none => []

def fixedType (field : Str) : Str × Option Str :=
  (typeConstCType (branchConst field), typeConstFundamental (branchConst field))

def fConstString : Str := ['c','o','n','s','t','_','s','t','r','i','n','g']
def fConstInt : Str := ['c','o','n','s','t','_','i','n','t']
def fConstBoolean : Str := ['c','o','n','s','t','_','b','o','o','l','e','a','n']
def fConstDouble : Str := ['c','o','n','s','t','_','d','o','u','b','l','e']

/-- `_create_const(symbol)`: `ok none` = `return None` -/
def createConst (idPrefixes symPrefixes : List Str) (nodes : List Node) (s : ConstSym) :
    Except Err (Option ConstNode) :=
  if startsWith s.ident Gen.constHiddenPrefix then .ok none
  else match s.file with
    | none => .ok none
    | some file =>
      if !endsWith file Gen.constHeaderSuffix then .ok none
      else match stripSymbol symPrefixes s.ident with
        | .error e => .error e
        | .ok name =>
          match s.constString, s.constInt, s.constBool, s.hasDouble with
          | some str, _, _, _ =>
            let ty := fixedType fConstString
            .ok (some ⟨name, some str, s.ident, ty.1, ty.2⟩)
          | none, some v, _, _ =>
            let ty : Str × Option Str := match s.baseType with
              | some t => (t, createTypeFromCType t)
              | none => fixedType fConstInt
            let unaliased := constUnaliased idPrefixes nodes ty.1
            .ok (some ⟨name, some (decimal (constIntValue unaliased v)), s.ident, ty.1, ty.2⟩)
          | none, none, some b, _ =>
            let ty := fixedType fConstBoolean
            .ok (some ⟨name, some (if b then Gen.constBoolLits.1 else Gen.constBoolLits.2),
                       s.ident, ty.1, ty.2⟩)
          | none, none, none, true =>
            let ty := fixedType fConstDouble
            .ok (some ⟨name, none, s.ident, ty.1, ty.2⟩)
          | none, none, none, false => .error .assertion

/-- the alias branch of `_create_typedef` -/
def createAlias (idPrefixes : List Str) (ident target : Str) : Except Err (Option Node) :=
  match stripIdentifier idPrefixes ident with
  | .error e => .error e
  | .ok name =>
    if (lookupTypeName name).isSome then .ok none
    else if endsWith name ['_','a','u','t','o','p','t','r'] then .ok none
    else .ok (some (.alias name ident target))

inductive Decl where
  | enum (ident : Str) (bitfield : Bool) (members : List CMember)
  | typedef (ident target : Str)
  | const (s : ConstSym)
  deriving Repr

structure ParseState where
  nodes : List Node
  warnings : List Err
  deriving Repr

def traverseOne (idPrefixes symPrefixes : List Str) (nodes : List Node) : Decl → Except Err (Option Node)
  | .enum ident bf ms => (createEnum idPrefixes symPrefixes ident bf ms).map (fun e => some (.enum e))
  | .typedef ident target => createAlias idPrefixes ident target
  | .const s => (createConst idPrefixes symPrefixes nodes s).map (fun o => o.map .const)

def isWarning : Err → Bool
  | .unknownSymbol _ => true
  | .unknownIdentifier _ => true
  | _ => false

def isConstNode : Node → Bool
  | .const _ => true
  | _ => false

/-- one iteration of `Transformer.parse` with `_append_new_node` -/
def parseStep (idPrefixes symPrefixes : List Str) (st : ParseState) (d : Decl) : Except Err ParseState :=
  match traverseOne idPrefixes symPrefixes st.nodes d with
  | .error e => if isWarning e then .ok { st with warnings := st.warnings ++ [e] } else .error e
  | .ok none => .ok st
  | .ok (some node) =>
    if node.name = [] then .ok st
    else match st.nodes.find? (fun n => n.name = node.name) with
      | none => .ok { st with nodes := st.nodes ++ [node] }
      | some orig =>
        if isConstNode orig && isConstNode node then .ok st
        else .error (.conflict node.name)

def parseDecls (idPrefixes symPrefixes : List Str) : ParseState → List Decl → Except Err ParseState
  | st, [] => .ok st
  | st, d :: ds =>
    match parseStep idPrefixes symPrefixes st d with
    | .error e => .error e
    | .ok st' => parseDecls idPrefixes symPrefixes st' ds

/-! ### girwriter.py -/

/-- `_write_member`: attribute list in source order -/
def writeMember (m : Member) : List (Str × Str) :=
  [("name".toList, m.name), ("value".toList, decimal m.value), ("c:identifier".toList, m.cident)]

/-- `_write_enum` / `_write_bitfield` (undocumented, unregistered node):
    tag, attributes, member elements in list order -/
def writeEnum (e : EnumNode) : Str × List (Str × Str) × List (List (Str × Str)) :=
  ((if e.bitfield then "bitfield" else "enumeration").toList,
   [("name".toList, e.name), ("c:type".toList, e.ctype)],
   e.members.map writeMember)

/-- the `name` of the `<type>` child of a constant after `resolve_type` against the final
    namespace: a node found through the C type wins over the fundamental name -/
def constTypeName (idPrefixes : List Str) (nodes : List Node) (c : ConstNode) : Option Str :=
  match c.fundamental with
  | some f => some f
  | none => (lookupNode idPrefixes nodes c.declType).map (·.name)

/-! ## GType-registered enumerations: `GDumpParser._introspect_enum` (gdumpparser.py) -/

/-- a `<member name= nick= value=>` of the runtime dump (`value` is GEnumValue.value printed with %d /
GFlagsValue.value printed with %u: the 32-bit image of the header's value) -/
structure DumpMember where
  cname : Str
  nick : Str
  value : Int
  deriving Repr, DecidableEq

/-- `member.attrib['nick'].replace('-', '_')` -/
def nickName (nick : Str) : Str := nick.map (fun c => if c = '-' then '_' else c)

/-- the nick a glib-mkenums style registration derives from a member name: `'_'` -> `'-'` -/
def toNick (name : Str) : Str := name.map (fun c => if c = '_' then '-' else c)

/-- `previous_values[name]` / `previous_symbols[name]`: the two dicts are filled in member order, so a later
scanned member of the same name overwrites an earlier one -/
def lookupPrevious : List Member → Str → Option Member
  | [], _ => none
  | m :: ms, n =>
    match lookupPrevious ms n with
    | some x => some x
    | none => if m.name = n then some m else none

/-- `_introspect_enum`, body of the member loop: the scanned value and identifier win when the normalised nick
names a scanned member, else the dump's -/
def mergeDumpMember (prev : List Member) (d : DumpMember) : Member :=
  match lookupPrevious prev (nickName d.nick) with
  | some m => ⟨nickName d.nick, m.value, m.cident⟩
  | none => ⟨nickName d.nick, d.value, d.cname⟩

/-- `_introspect_enum`: the member list of the node that replaces the scanned one -/
def mergeDump (prev : List Member) (ds : List DumpMember) : List Member := ds.map (mergeDumpMember prev)

end GIVerif.EnumConst
