/-
  C04 model: how C names become GIR names and owners.

  Mirrors (one definition per source function, same branch order):
    giscanner/utils.py           to_underscores, to_underscores_noprefix (_upperstr_pat1..3)
    giscanner/ast.py             Namespace.__init__ (prefix defaults), append / remove / float
    giscanner/transformer.py     _split_c_string_for_namespace_matches, split_csymbol,
                                 strip_identifier, _strip_symbol, _append_new_node, parse
                                 (tag namespace), _create_function / _create_const /
                                 _create_callback / _create_typedef / _create_typedef_compound /
                                 _create_tag_ns_compound (naming part only),
                                 _resolve_type_from_ctype, lookup_typenode
    giscanner/gdumpparser.py     the part of parse() that turns records into classes /
                                 interfaces / boxed records and removes get_type functions
    giscanner/maintransformer.py _split_uscored_by_type, _pair_function, _is_method,
                                 _setup_method, _get_uscored_prefix, _pair_static_method,
                                 _is_constructor, _get_constructor_class,
                                 _get_constructor_name, _set_up_constructor

  Partial Python operations are explicit: `name[0]` on an empty symbol is `.emptyName`,
  `raise ValueError` of the splitter is `.unknown`, `message.fatal` is `.conflict`.
  Import-free apart from the Py library and generated tables (links into the driver).
-/
import GIVerif.Py.Str
import GIVerif.Gen.Naming

namespace GIVerif.Naming
open GIVerif.Py

/-! ## characters -/

def inRanges (rs : List (Nat × Nat)) (c : Char) : Bool :=
  rs.any (fun r => r.1 ≤ c.toNat && c.toNat ≤ r.2)

/-- `[A-Z]` of `_upperstr_pat*` (table re-read from the source) -/
def isUp (c : Char) : Bool := inRanges Gen.reUpper c
/-- `[0-9a-z]` of `_upperstr_pat2` -/
def isLowDig (c : Char) : Bool := inRanges Gen.reLowerDigit c

/-- `str.lower()` / `str.upper()` / `str.isupper()` restricted to ASCII (C identifiers) -/
def lowerC (c : Char) : Char := if isAsciiUpper c then Char.ofNat (c.toNat + 32) else c
def upperC (c : Char) : Char := if isAsciiLower c then Char.ofNat (c.toNat - 32) else c
def lower (s : Str) : Str := s.map lowerC
def upper (s : Str) : Str := s.map upperC

/-- `s[len(p):]` when `s.startswith(p)` -/
def stripPrefix? : Str → Str → Option Str
  | s, [] => some s
  | [], _ :: _ => none
  | c :: cs, p :: ps => if c = p then stripPrefix? cs ps else none

/-! ## utils.to_underscores / to_underscores_noprefix

`re.sub` replaces the leftmost non-overlapping matches; each scanner below consumes the
matched characters and resumes after them, exactly as `sub` does. -/

/-- `_upperstr_pat1.sub(r'\1_\2', s)` with `([^A-Z])([A-Z])` -/
def sub1 : Str → Str
  | a :: b :: rest =>
    if !isUp a && isUp b then a :: '_' :: b :: sub1 rest else a :: sub1 (b :: rest)
  | s => s

/-- `_upperstr_pat2.sub(r'\1_\2', s)` with `([A-Z][A-Z])([A-Z][0-9a-z])` -/
def sub2 : Str → Str
  | a :: b :: c :: d :: rest =>
    if isUp a && isUp b && isUp c && isLowDig d then a :: b :: '_' :: c :: d :: sub2 rest
    else a :: sub2 (b :: c :: d :: rest)
  | s => s

/-- `_upperstr_pat3.sub(r'\1_\2', s, count=1)` with `^([A-Z])([A-Z])` -/
def sub3 : Str → Str
  | a :: b :: rest => if isUp a && isUp b then a :: '_' :: b :: rest else a :: b :: rest
  | s => s

def toUnderscoresNoprefix (s : Str) : Str := sub2 (sub1 s)
def toUnderscores (s : Str) : Str := sub3 (sub2 (sub1 s))

/-! ## namespaces and prefixes -/

/-- what the splitter reads of an `ast.Namespace` -/
structure NsPrefixes where
  name : Str
  idPrefixes : List Str
  symPrefixes : List Str
  /-- keys of `ns.names` (only used by the unprefixed-namespace fallback `name in ns`) -/
  names : List Str
  deriving Repr, DecidableEq

/-- `Namespace.__init__`: symbol prefixes default to the underscored identifier prefixes -/
def defaultSymPrefixes (idPrefixes : List Str) : List Str :=
  idPrefixes.map (fun p => lower (toUnderscores p))

structure Cfg where
  cur : NsPrefixes
  /-- `_parsed_includes.values()` in dict order -/
  incs : List NsPrefixes
  acceptUnprefixed : Bool
  deriving Repr

inductive NsRef where
  | cur
  | inc (i : Nat)
  deriving Repr, DecidableEq

inductive SplitErr where
  | emptyName      -- `name[0]` raised IndexError
  | unknown        -- ValueError("Unknown namespace for ...")
  deriving Repr, DecidableEq

/-- `prefix + '_'` unless it already ends with `_` (symbols only) -/
def completeSym (p : Str) : Str := if endsWith p ['_'] then p else p ++ ['_']

def firstIsUpper : Str → Bool
  | c :: _ => isAsciiUpper c
  | [] => false

/-- the prefix list consulted for one namespace -/
def prefixesFor (isIdent : Bool) (name : Str) (ns : NsPrefixes) : List Str :=
  if isIdent then ns.idPrefixes
  else if firstIsUpper name then ns.symPrefixes.map upper
  else ns.symPrefixes

/-- the inner `for prefix in prefixes: ... break`: first prefix in LIST order that matches;
    result is (stripped name, len(prefix)) -/
def firstMatch (isIdent : Bool) : List Str → Str → Option (Str × Nat)
  | [], _ => none
  | p :: ps, name =>
    let p' := if isIdent then p else completeSym p
    match stripPrefix? name p' with
    | some rest => some (rest, p'.length)
    | none => firstMatch isIdent ps name

/-- stable insertion by prefix length (`matches.sort(key=...)` restricted to includes) -/
def insertByLen (x : NsRef × Str × Nat) : List (NsRef × Str × Nat) → List (NsRef × Str × Nat)
  | [] => [x]
  | y :: ys => if x.2.2 ≤ y.2.2 then x :: y :: ys else y :: insertByLen x ys

def sortByLen (l : List (NsRef × Str × Nat)) : List (NsRef × Str × Nat) := l.foldr insertByLen []

/-- matches among the included namespaces, in iteration order -/
def incMatches (isIdent : Bool) (name : Str) : List NsPrefixes → Nat → List (NsRef × Str × Nat)
  | [], _ => []
  | ns :: rest, i =>
    match firstMatch isIdent (prefixesFor isIdent name ns) name with
    | some (r, n) => (NsRef.inc i, r, n) :: incMatches isIdent name rest (i + 1)
    | none => incMatches isIdent name rest (i + 1)

/-- namespaces without any prefix, in iteration order (current first) -/
def unprefixedNs (isIdent : Bool) (name : Str) (cfg : Cfg) : List (NsRef × NsPrefixes) :=
  (if (prefixesFor isIdent name cfg.cur).isEmpty then [(NsRef.cur, cfg.cur)] else []) ++
  ((List.zip (List.range cfg.incs.length) cfg.incs).filter
      (fun p => (prefixesFor isIdent name p.2).isEmpty)).map (fun p => (NsRef.inc p.1, p.2))

/-- `Transformer._split_c_string_for_namespace_matches`.  The sort key is
    `(1 if ns is current else 0, len(prefix))` and the sort is stable: includes ordered by
    prefix length, the current namespace LAST. -/
def splitForNamespaces (cfg : Cfg) (isIdent : Bool) (name : Str) :
    Except SplitErr (List (NsRef × Str)) :=
  if !isIdent && name.isEmpty then .error .emptyName
  else
    let curM := firstMatch isIdent (prefixesFor isIdent name cfg.cur) name
    let incM := sortByLen (incMatches isIdent name cfg.incs 0)
    let all := incM.map (fun m => (m.1, m.2.1)) ++
      (match curM with | some (r, _) => [(NsRef.cur, r)] | none => [])
    if !all.isEmpty then .ok all
    else if cfg.acceptUnprefixed then .ok [(NsRef.cur, name)]
    else
      match (unprefixedNs isIdent name cfg).find? (fun p => p.2.names.contains name) with
      | some p => .ok [(p.1, name)]
      | none => .error .unknown

inductive StripErr where
  | crash                -- IndexError escaping from `name[0]`
  | unknown              -- TransformerException("Unknown namespace ...")
  | foreign (ns : NsRef) -- TransformerException("Skipping foreign ...")
  deriving Repr, DecidableEq

def dropHidden (ident : Str) : Bool × Str :=
  match ident with
  | '_' :: r => (true, r)
  | s => (false, s)

def addHidden (hidden : Bool) (name : Str) : Str := if hidden then '_' :: name else name

/-- `matches[-1]` -/
def lastOf (l : List (NsRef × Str)) : Option (NsRef × Str) := l.getLast?

/-- `Transformer.strip_identifier` -/
def stripIdentifier (cfg : Cfg) (ident : Str) : Except StripErr Str :=
  let (hidden, id') := dropHidden ident
  match splitForNamespaces cfg true id' with
  | .error _ => .error .unknown
  | .ok ms =>
    match ms.find? (fun m => m.1 == NsRef.cur) with
    | some m => .ok (addHidden hidden m.2)
    | none =>
      match lastOf ms with
      | some m => .error (.foreign m.1)
      | none => .error .crash

/-- `Transformer._strip_symbol` (`split_csymbol` = last match) -/
def stripSymbol (cfg : Cfg) (ident : Str) : Except StripErr Str :=
  let (hidden, id') := dropHidden ident
  match splitForNamespaces cfg false id' with
  | .error .emptyName => .error .crash
  | .error .unknown => .error .unknown
  | .ok ms =>
    match lastOf ms with
    | some (NsRef.cur, name) => .ok (addHidden hidden name)
    | some (ns, _) => .error (.foreign ns)
    | none => .error .crash

/-- `_create_function` / `_create_const` / `_create_function_macro`: names starting with an
    underscore are dropped before any stripping -/
def publicSymbolName (cfg : Cfg) (ident : Str) : Option Str :=
  if startsWith ident ['_'] then none
  else match stripSymbol cfg ident with
    | .ok n => some n
    | .error _ => none

/-- `ident.find('_') > 0` of `_create_callback` -/
def hasInnerUnderscore : Str → Bool
  | [] => false
  | '_' :: _ => false
  | _ :: r => r.contains '_'

/-- the name of a callback typedef -/
def callbackName (cfg : Cfg) (ident : Str) : Except StripErr Str :=
  if hasInnerUnderscore ident then stripSymbol cfg ident else stripIdentifier cfg ident

/-! ## `_split_uscored_by_type` -/

/-- every way to cut `s` at an underscore: `(before, after)`, shortest `before` first -/
def cutsAt : Str → List (Str × Str)
  | [] => []
  | c :: cs =>
    (if c = '_' then [([], cs)] else []) ++ (cutsAt cs).map (fun p => (c :: p.1, p.2))

/-- what the loop `components = uscored.rsplit('_', count)` visits for count = 0, 1, 2, …:
    `(components[0], '_'.join(components[1:]))`, i.e. the whole string first, then every
    cut from the rightmost underscore to the leftmost -/
def rsplitCandidates (s : Str) : List (Str × Str) := (s, []) :: (cutsAt s).reverse

/-- `MainTransformer._split_uscored_by_type` over the map `_uscore_type_names` -/
def splitUscoredByType {α : Type} (m : Str → Option α) (s : Str) : Option (α × Str) :=
  (rsplitCandidates s).findSome? (fun p => (m p.1).map (fun t => (t, p.2)))

/-! ## the nodes of a namespace -/

inductive Kind where
  | function | constant | alias | callback | enum | record | union | cls | iface | boxed
  deriving Repr, DecidableEq

/-- a C type as the pairing code sees it: typedef name, number of `*`, and whether
    `ast.type_names` knows the name (then no node is looked up) -/
structure CT where
  base : Str
  stars : Nat
  fundamental : Bool
  deriving Repr, DecidableEq

structure Node where
  uid : Nat                         -- Python object identity
  kind : Kind
  name : Str                        -- GIR name ([] = not yet named: tag-only compound)
  cid : Str                         -- `symbol` of functions, `ctype` of everything else
  hasCid : Bool := true             -- a Class without record has ctype None
  tag : Option Str := none
  movedTo : Option Str := none
  -- functions
  ret : CT := ⟨[], 0, true⟩
  params : List CT := []
  methodAnn : Bool := false
  ctorAnn : Bool := false
  isMethod : Bool := false
  isCtor : Bool := false
  -- registered types
  gtypeName : Option Str := none
  getType : Option Str := none
  cSymbolPrefix : Option Str := none
  foreign : Bool := false
  parentChain : List Str := []
  parent : Option (NsRef × Str) := none
  deriving Repr, DecidableEq

/-- a type of an included namespace (GIRParser, types only) -/
structure IncNode where
  name : Str
  ctype : Str
  kind : Kind
  gtypeName : Option Str
  parent : Option (NsRef × Str)
  /-- the `c:symbol-prefix` attribute of the include GIR (`GIRParser` hands it to the node) -/
  cSymbolPrefix : Option Str := none
  deriving Repr, DecidableEq

/-- elements hung on a type by the pairing -/
inductive Role where
  | method | ctor | static
  deriving Repr, DecidableEq

structure Owned where
  owner : Str
  role : Role
  fn : Node
  deriving Repr, DecidableEq

/-! ## `ast.Namespace` as association-list operations -/

structure NsState where
  /-- `Namespace.names` (OrderedDict GIName → node) -/
  names : List (Str × Node)
  /-- methods / constructors / static functions appended to types -/
  owned : List Owned
  deriving Repr

inductive PipeErr where
  | conflict (name : Str)   -- message.fatal("Namespace conflict") / ValueError of append
  | fatal                   -- other message.fatal / AssertionError paths
  | crash                   -- escaping IndexError
  | dupCid (cid : Str)      -- OUTSIDE THE INPUT SPACE: two declarations share a C identifier
  deriving Repr, DecidableEq

def NsState.get (st : NsState) (name : Str) : Option Node :=
  (st.names.find? (fun p => p.1 == name)).map (·.2)

/-- every C identifier currently described (top level and owned) by an element that is
    not a moved-to copy -/
def NsState.canonCids (st : NsState) : List Str :=
  ((st.names.map (·.2)).filter (fun n => n.hasCid && n.movedTo.isNone)).map (·.cid) ++
  ((st.owned.map (·.fn)).filter (fun n => n.hasCid && n.movedTo.isNone)).map (·.cid)

/-- `Namespace.remove(node)`: `self.names.pop(node.name, None)` -/
def NsState.remove (st : NsState) (name : Str) : NsState :=
  { st with names := st.names.filter (fun p => p.1 != name) }

/-- `Namespace.float(node)`: like remove (the `symbols` map is not part of the GIR) -/
def NsState.float (st : NsState) (name : Str) : NsState := st.remove name

/-- `Namespace.append(node)`; the `dupCid` check is the model's own guard (see PipeErr) -/
def NsState.append (st : NsState) (n : Node) : Except PipeErr NsState :=
  if st.names.any (fun p => p.1 == n.name) then .error (.conflict n.name)
  else if n.hasCid && n.movedTo.isNone && st.canonCids.contains n.cid then .error (.dupCid n.cid)
  else .ok { st with names := st.names ++ [(n.name, n)] }

/-- `Namespace.append(node, replace=True)` -/
def NsState.appendReplace (st : NsState) (n : Node) : Except PipeErr NsState :=
  (st.remove n.name).append n

/-- a function leaves the top level and is hung on `owner` under `newName`
    (`float` + `func.name = …` + `owner.methods/constructors/static_methods.append`) -/
def NsState.pairMove (st : NsState) (fname : Str) (owner : Str) (role : Role) (newName : Str)
    (mark : Node → Node) : NsState :=
  match st.get fname with
  | none => st
  | some f =>
    let st' := st.float fname
    { st' with owned := st'.owned ++ [⟨owner, role, mark { f with name := newName }⟩] }

/-- static function of a non-class type: a clone is hung on the type, the original stays
    at top level flagged `moved_to = Type.name` -/
def NsState.pairClone (st : NsState) (fname : Str) (owner : Str) (newName : Str) : NsState :=
  match st.get fname with
  | none => st
  | some f =>
    { names := st.names.map (fun p =>
        if p.1 == fname then (p.1, { p.2 with movedTo := some (owner ++ ['.'] ++ newName) }) else p),
      owned := st.owned ++ [⟨owner, .static, { f with name := newName }⟩] }

/-- `g_resources_register` compatibility: the original stays untouched, a method copy
    flagged `moved_to = original name` is hung on the type -/
def NsState.pairCompat (st : NsState) (fname : Str) (owner : Str) (newName : Str) : NsState :=
  match st.get fname with
  | none => st
  | some f =>
    { st with owned := st.owned ++
        [⟨owner, .method, { f with name := newName, movedTo := some f.name, isMethod := true,
                                    params := f.params.drop 1 }⟩] }

/-! ## `Transformer.parse` -/

inductive Decl where
  | function (ident : Str) (ret : CT) (params : List CT) (methodAnn ctorAnn : Bool)
  | const (ident : Str)
  | alias (ident : Str)
  | callback (ident : Str)
  | enum (ident : Str)
  /-- `typedef struct|union [tag] ident;` -/
  | typedefCompound (ident : Str) (tag : Option Str) (isUnion : Bool)
  /-- `struct|union tag { … };` -/
  | tagCompound (tag : Str) (isUnion : Bool)
  deriving Repr

structure ParseSt where
  ns : NsState
  /-- `Transformer._tag_ns` (insertion ordered) -/
  tagNs : List (Str × Node)
  next : Nat
  deriving Repr

/-- `Transformer._append_new_node` (function macros are not modelled) -/
def appendNewNode (st : NsState) (n : Node) : Except PipeErr NsState :=
  match st.get n.name with
  | some orig =>
    if orig.kind == .constant && n.kind == .constant then .ok st
    else if orig.uid == n.uid then .ok st
    else .error (.conflict n.name)
  | none => st.append n

def exceptToOption {ε α : Type} : Except ε α → Option α
  | .ok a => some a
  | .error _ => none

def tagLookup (tagNs : List (Str × Node)) (tag : Str) : Option Node :=
  (tagNs.find? (fun p => p.1 == tag)).map (·.2)

def tagSet (tagNs : List (Str × Node)) (tag : Str) (n : Node) : List (Str × Node) :=
  if tagNs.any (fun p => p.1 == tag) then tagNs.map (fun p => if p.1 == tag then (tag, n) else p)
  else tagNs ++ [(tag, n)]

def autoptrSuffix : Str := "_autoptr".toList

def isCompound (k : Kind) : Bool := k == .record || k == .union

/-- `Transformer._traverse_one` for a top-level symbol: the node it returns (`none` = nothing,
    or a TransformerException that skips the symbol with a warning) and the tag namespace
    after the in-place mutation `_create_typedef_compound` performs on a tag-only compound.
    `StripErr.crash` propagates. -/
def traverseOne (cfg : Cfg) (tagNs : List (Str × Node)) (uid : Nat) (d : Decl) :
    Except PipeErr (Option Node × List (Str × Node)) :=
  let named (r : Except StripErr Str) (mk : Str → Node) : Except PipeErr (Option Node × List (Str × Node)) :=
    match r with
    | .error .crash => .error .crash
    | .error _ => .ok (none, tagNs)
    | .ok name => .ok (some (mk name), tagNs)
  match d with
  | .function ident ret params ma ca =>
    if startsWith ident ['_'] then .ok (none, tagNs)
    else named (stripSymbol cfg ident) (fun name =>
      { uid := uid, kind := .function, name := name, cid := ident, ret := ret, params := params,
        methodAnn := ma, ctorAnn := ca, isMethod := ma, isCtor := ca })
  | .const ident =>
    if startsWith ident ['_'] then .ok (none, tagNs)
    else named (stripSymbol cfg ident) (fun name =>
      { uid := uid, kind := .constant, name := name, cid := ident })
  | .alias ident =>
    match stripIdentifier cfg ident with
    | .ok name =>
      if endsWith name autoptrSuffix then .ok (none, tagNs)
      else .ok (some { uid := uid, kind := .alias, name := name, cid := ident }, tagNs)
    | r => named r (fun name => { uid := uid, kind := .alias, name := name, cid := ident })
  | .callback ident =>
    named (callbackName cfg ident) (fun name => { uid := uid, kind := .callback, name := name, cid := ident })
  | .enum ident =>
    named (stripIdentifier cfg ident) (fun name => { uid := uid, kind := .enum, name := name, cid := ident })
  | .typedefCompound ident tag isUnion =>
    -- `_create_typedef_compound`: the name is computed first; an exception skips everything
    match stripIdentifier cfg ident with
    | .error .crash => .error .crash
    | .error _ => .ok (none, tagNs)
    | .ok name =>
      let kind := if isUnion then Kind.union else Kind.record
      match tag.bind (fun t => (tagLookup tagNs t).map (fun c => (t, c))) with
      | some (t, c) =>
        if !c.name.isEmpty then
          -- another typedef of an already promoted struct: a NEW compound sharing the fields
          .ok (some { uid := uid, kind := kind, name := name, cid := ident, tag := tag }, tagNs)
        else
          -- the tag-only compound is renamed in place (same object in `_tag_ns`)
          let c' : Node := { c with name := name, cid := ident }
          .ok (some c', tagSet tagNs t c')
      | none => .ok (some { uid := uid, kind := kind, name := name, cid := ident, tag := tag }, tagNs)
  | .tagCompound tag isUnion =>
    -- `_create_tag_ns_compound`
    match tagLookup tagNs tag with
    | some c => .ok (some c, tagNs)
    | none =>
      let kind := if isUnion then Kind.union else Kind.record
      .ok (some { uid := uid, kind := kind, name := [], cid := tag, tag := some tag }, tagNs)

/-- `if isinstance(node, ast.Compound) and node.tag_name and node.tag_name not in self._tag_ns` -/
def registerTag (tagNs : List (Str × Node)) (node : Node) : List (Str × Node) :=
  match node.tag with
  | some t => if isCompound node.kind && (tagLookup tagNs t).isNone then tagNs ++ [(t, node)] else tagNs
  | none => tagNs

/-- one iteration of the loop of `Transformer.parse`:
    `node = self._traverse_one(symbol)`; `if node and node.name: self._append_new_node(node)`;
    a compound whose tag is not yet in `_tag_ns` is registered there -/
def parseOne (cfg : Cfg) (ps : ParseSt) (d : Decl) : Except PipeErr ParseSt :=
  match traverseOne cfg ps.tagNs ps.next d with
  | .error e => .error e
  | .ok (none, tagNs) => .ok { ps with next := ps.next + 1, tagNs := tagNs }
  | .ok (some node, tagNs) =>
    if node.name.isEmpty then .ok { ps with next := ps.next + 1, tagNs := registerTag tagNs node }
    else
      match appendNewNode ps.ns node with
      | .error e => .error e
      | .ok ns => .ok { ns := ns, next := ps.next + 1, tagNs := registerTag tagNs node }

/-- the second loop of `parse`: structs that only exist in the tag namespace are promoted
    under their stripped tag name -/
def promoteTags (cfg : Cfg) (ns : NsState) : List (Str × Node) → Except PipeErr NsState
  | [] => .ok ns
  | (tag, c) :: rest =>
    if !c.name.isEmpty then promoteTags cfg ns rest
    else
      match stripIdentifier cfg tag with
      | .error .crash => .error .crash
      | .error _ => promoteTags cfg ns rest
      | .ok name =>
        -- (an empty stripped name is still appended by the real code: `struct.name = name`)
        match appendNewNode ns { c with name := name } with
        | .error e => .error e
        | .ok ns' => promoteTags cfg ns' rest

def parseDecls (cfg : Cfg) (ps : ParseSt) : List Decl → Except PipeErr ParseSt
  | [] => .ok ps
  | d :: ds =>
    match parseOne cfg ps d with
    | .error e => .error e
    | .ok ps' => parseDecls cfg ps' ds

/-- `Transformer.parse(symbols)` -/
def parse (cfg : Cfg) (decls : List Decl) : Except PipeErr NsState :=
  match parseDecls cfg ⟨⟨[], []⟩, [], 0⟩ decls with
  | .error e => .error e
  | .ok ps => promoteTags cfg ps.ns ps.tagNs

/-! ## the runtime dump (classes, interfaces, boxed types, enumerations / flags) — minimal, see C12 -/

inductive DumpKind where
  | cls | iface | boxed
  | enum   -- `<enum>` and `<flags>` (`_introspect_enum`: ast.Enum / ast.Bitfield, both kind `.enum` here)
  deriving Repr, DecidableEq

structure DumpEntry where
  kind : DumpKind
  gtypeName : Str
  getType : Str
  parents : List Str
  deriving Repr

def getTypeSuffixes : List Str := ["_get_type".toList, "_get_gtype".toList]

/-- `Function.is_type_meta_function` -/
def isTypeMeta (f : Node) : Bool :=
  (getTypeSuffixes.any (fun s => endsWith f.name s)) && f.params.isEmpty &&
  (f.ret.base == "GType".toList && f.ret.stars == 0)

/-- `GDumpParser._split_type_and_symbol_prefix`: the symbol prefix of a registered type is
    its get_type function minus namespace prefix and suffix -/
def symbolPrefixOfGetType (cfg : Cfg) (getType : Str) : Except PipeErr Str :=
  match splitForNamespaces cfg false getType with
  | .error .emptyName => .error .crash
  | .error .unknown => .error .fatal
  | .ok ms =>
    match lastOf ms with
    | some (NsRef.cur, name) =>
      if name == "get_type".toList || name == "_get_gtype".toList then .error .fatal
      else if endsWith name "_get_type".toList then .ok (name.take (name.length - 9))
      else .ok (name.take (name.length - 10))
    | _ => .error .fatal

/-- (symbol prefix, GIR name) of a dumped type; every failure is `message.fatal` -/
def dumpName (cfg : Cfg) (e : DumpEntry) : Except PipeErr (Str × Str) :=
  match symbolPrefixOfGetType cfg e.getType with
  | .error x => .error x
  | .ok pfx =>
    match stripIdentifier cfg e.gtypeName with
    | .ok n => .ok (pfx, n)
    | .error .crash => .error .crash
    | .error _ => .error .fatal

/-- the Class / Interface node of a dump entry (`_add_record_fields`: the C type is taken
    from the record of the same name), or the Enum / Bitfield node `_introspect_enum` builds
    (`klass(enum_name, type_name, gtype_name=type_name, c_symbol_prefix=…)`: the C type IS the
    GType name) -/
def dumpNode (ns : NsState) (uid : Nat) (e : DumpEntry) (pfx name : Str) : Node :=
  if e.kind == DumpKind.enum then
    { uid := uid, kind := Kind.enum, name := name, cid := e.gtypeName, hasCid := true,
      gtypeName := some e.gtypeName, getType := some e.getType, cSymbolPrefix := some pfx }
  else
    let cidOf : Str × Bool := match ns.get name with
      | some r => if r.kind == Kind.record then (r.cid, true) else ([], false)
      | none => ([], false)
    { uid := uid, kind := (if e.kind == DumpKind.cls then Kind.cls else Kind.iface), name := name,
      cid := cidOf.1, hasCid := cidOf.2, gtypeName := some e.gtypeName, getType := some e.getType,
      cSymbolPrefix := some pfx, parentChain := (if e.kind == DumpKind.cls then e.parents else []) }

/-- `_introspect_object` / `_introspect_interface` / `_introspect_enum` (`append(node, replace=True)`);
    boxed types are collected and paired afterwards -/
def dumpOne (cfg : Cfg) (st : NsState × List DumpEntry × Nat) (e : DumpEntry) :
    Except PipeErr (NsState × List DumpEntry × Nat) :=
  match dumpName cfg e with
  | .error x => .error x
  | .ok (pfx, name) =>
    if e.kind == DumpKind.boxed then .ok (st.1, st.2.1 ++ [e], st.2.2)
    else
      match st.1.appendReplace (dumpNode st.1 st.2.2 e pfx name) with
      | .error x => .error x
      | .ok ns' => .ok (ns', st.2.1, st.2.2 + 1)

/-- `_pair_boxed_type` -/
def pairBoxed (cfg : Cfg) (st : NsState × Nat) (e : DumpEntry) : Except PipeErr (NsState × Nat) :=
  match dumpName cfg e with
  | .error x => .error x
  | .ok (pfx, name) =>
    match st.1.get name with
    | none =>
      match st.1.append { uid := st.2, kind := .boxed, name := name, cid := [], hasCid := false,
                          gtypeName := some e.gtypeName, getType := some e.getType,
                          cSymbolPrefix := some pfx } with
      | .error x => .error x
      | .ok ns' => .ok (ns', st.2 + 1)
    | some p =>
      if p.kind == .record || p.kind == .union then
        .ok ({ st.1 with names := st.1.names.map (fun q =>
                if q.1 == name then (q.1, { q.2 with gtypeName := some e.gtypeName, getType := some e.getType,
                                                      cSymbolPrefix := some pfx }) else q) }, st.2)
      else .ok st

def foldE {σ α ε : Type} (f : σ → α → Except ε σ) : σ → List α → Except ε σ
  | s, [] => .ok s
  | s, a :: as => match f s a with
    | .error e => .error e
    | .ok s' => foldE f s' as

/-- one get_type function of a registered type leaves the namespace -/
def removeGetType (cfg : Cfg) (st : NsState) (gt : Str) : Except PipeErr NsState :=
  match splitForNamespaces cfg false gt with
  | .ok ms =>
    match lastOf ms with
    | some (NsRef.cur, name) =>
      match st.get name with
      | some _ => .ok (st.remove name)
      | none => .error PipeErr.fatal
    | _ => .error PipeErr.fatal
  | .error _ => .error PipeErr.fatal

/-- the get_type functions of registered types leave the namespace -/
def removeGetTypes (cfg : Cfg) (ns : NsState) : Except PipeErr NsState :=
  foldE (removeGetType cfg) ns ((ns.names.map (·.2)).filterMap (fun n => n.getType))

/-- `GDumpParser.parse` restricted to class / interface / boxed / enum / flags entries -/
def applyDump (cfg : Cfg) (ns : NsState) (dump : List DumpEntry) (next : Nat) : Except PipeErr NsState :=
  match foldE (dumpOne cfg) (ns, [], next) dump with
  | .error x => .error x
  | .ok st1 =>
    match foldE (pairBoxed cfg) (st1.1, st1.2.2) st1.2.1 with
    | .error x => .error x
    | .ok st2 => removeGetTypes cfg st2.1

/-! ## type lookup (`resolve_type` + `lookup_typenode`) -/

structure Env where
  cfg : Cfg
  /-- types of the included namespaces, same order as `cfg.incs` -/
  incNodes : List (List IncNode)
  deriving Repr

/-- what `lookup_typenode` yields: the namespace and the facts the pairing reads -/
structure Target where
  ns : NsRef
  name : Str
  kind : Kind
  cSymbolPrefix : Option Str
  getType : Option Str
  foreign : Bool
  parent : Option (NsRef × Str)
  deriving Repr, DecidableEq

def targetOfNode (n : Node) : Target :=
  ⟨.cur, n.name, n.kind, n.cSymbolPrefix, n.getType, n.foreign, n.parent⟩

def targetOfInc (i : Nat) (n : IncNode) : Target :=
  ⟨.inc i, n.name, n.kind, n.cSymbolPrefix, (n.gtypeName.map (fun _ => "intern".toList)), false, n.parent⟩

/-- `lookup_giname` -/
def lookupGiname (env : Env) (st : NsState) (ref : NsRef × Str) : Option Target :=
  match ref.1 with
  | .cur => (st.get ref.2).map targetOfNode
  | .inc i => ((env.incNodes.getD i []).find? (fun n => n.name == ref.2)).map (targetOfInc i)

/-- `ns.get(name) or ns.get_by_ctype(ctype)` → the GIR name of the node found -/
def findInNs (env : Env) (st : NsState) (ns : NsRef) (name base : Str) : Option Str :=
  match ns with
  | .cur =>
    match st.get name with
    | some n => some n.name
    | none => ((st.names.map (·.2)).find? (fun n => n.hasCid && n.kind != .function && n.cid == base)).map (·.name)
  | .inc i =>
    let nodes := env.incNodes.getD i []
    match nodes.find? (fun n => n.name == name) with
    | some n => some n.name
    | none => (nodes.find? (fun n => n.ctype == base)).map (·.name)

/-- `_resolve_type_from_ctype` followed by `lookup_typenode` -/
def lookupCT (env : Env) (st : NsState) (t : CT) : Option Target :=
  if t.fundamental then none
  else
    match splitForNamespaces env.cfg true t.base with
    | .error _ =>
      -- `_resolve_type_from_ctype_all_namespaces`
      ((List.range env.incNodes.length).findSome? (fun i =>
        ((env.incNodes.getD i []).find? (fun n => n.ctype == t.base)).map (fun n => (NsRef.inc i, n.name)))).bind
        (lookupGiname env st)
    | .ok ms =>
      (ms.findSome? (fun m => (findInNs env st m.1 m.2 t.base).map (fun nm => (m.1, nm)))).bind
        (lookupGiname env st)

/-- `_resolve_type_from_gtype_name`: current namespace first, then the includes -/
def lookupGType (env : Env) (st : NsState) (g : Str) : Option (NsRef × Str) :=
  match (st.names.map (·.2)).find? (fun n => n.gtypeName == some g) with
  | some n => some (.cur, n.name)
  | none =>
    (List.range env.incNodes.length).findSome? (fun i =>
      ((env.incNodes.getD i []).find? (fun n => n.gtypeName == some g)).map (fun n => (NsRef.inc i, n.name)))

/-- `_pass_type_resolution` for classes: `parent_type` is the first resolvable ancestor -/
def resolveParents (env : Env) (st : NsState) : NsState :=
  { st with names := st.names.map (fun p =>
      if p.2.kind == .cls then
        (p.1, { p.2 with parent := p.2.parentChain.findSome? (fun g => lookupGType env st g) })
      else p) }

/-! ## pairing -/

/-- `_uscore_type_names`: Registered types with a get_type under their symbol prefix, other
    records / unions under the underscored name; later entries replace earlier ones -/
def uscoreTypeNames (st : NsState) : List (Str × Str) :=
  (st.names.map (·.2)).filterMap (fun n =>
    if n.getType.isSome && (n.kind == .cls || n.kind == .iface || n.kind == .boxed || n.kind == .record ||
        n.kind == .union || n.kind == .enum) then
      some (n.cSymbolPrefix.getD [], n.name)
    else if n.kind == .record || n.kind == .union then
      some (lower (toUnderscoresNoprefix n.name), n.name)
    else none)

/-- dict lookup: the LAST entry with that key -/
def uscoreLookup (m : List (Str × Str)) (k : Str) : Option Str :=
  (m.reverse.find? (fun p => p.1 == k)).map (·.2)

/-- `str.find(sub)`: index of the leftmost occurrence -/
def findSub (s sub : Str) : Option Nat :=
  let rec go (s : Str) (i : Nat) : Option Nat :=
    if sub.isPrefixOf s then some i
    else match s with
      | [] => none
      | _ :: r => go r (i + 1)
  go s 0

/-- `sub in s` -/
def containsSub (s sub : Str) : Bool := (findSub s sub).isSome

/-- `_guess_constructor_by_name` -/
def guessConstructorByName (symbol : Str) : Bool :=
  endsWith symbol "_new".toList || containsSub symbol "_new_".toList || endsWith symbol "_newv".toList

def isMethodTargetKind (k : Kind) : Bool :=
  k == .cls || k == .iface || k == .record || k == .union || k == .boxed

/-- `_get_uscored_prefix` -/
def getUscoredPrefix (target : Target) (subsymbol : Str) : Str :=
  match target.cSymbolPrefix with
  | some p => if startsWith subsymbol p then p else lower (toUnderscoresNoprefix target.name)
  | none => lower (toUnderscoresNoprefix target.name)

/-- `_is_method` (directions are always `in`: no (out) annotations in the model) -/
def isMethod (env : Env) (st : NsState) (f : Node) (subsymbol : Str) : Bool :=
  match f.params with
  | [] => false
  | first :: _ =>
    match lookupCT env st first with
    | none => false
    | some target =>
      if !isMethodTargetKind target.kind then false
      else if target.ns != .cur then false
      else if first.stars > 1 then false
      else if !f.isMethod then startsWith subsymbol (getUscoredPrefix target subsymbol)
      else true

/-- `func.symbol[(subsym_idx + len(uscored_prefix) + 1):]` -/
def nameAfterPrefix (symbol subsymbol pfx : Str) : Option Str :=
  (findSub symbol subsymbol).map (fun idx => symbol.drop (idx + pfx.length + 1))

/-- `_setup_method` -/
def setupMethod (env : Env) (st : NsState) (f : Node) (subsymbol : Str) : NsState :=
  match f.params with
  | [] => st
  | first :: _ =>
    match lookupCT env st first with
    | none => st
    | some target =>
      let pfx := getUscoredPrefix target subsymbol
      if !f.isMethod && !startsWith subsymbol (pfx ++ ['_']) then
        st.pairCompat f.name target.name ((nameAfterPrefix f.cid subsymbol pfx).getD [])
      else
        let newName := if !f.isMethod then (nameAfterPrefix f.cid subsymbol pfx).getD [] else f.name
        st.pairMove f.name target.name .method newName
          (fun n => { n with isMethod := true, params := n.params.drop 1 })

def typeMap (st : NsState) : Str → Option Str := uscoreLookup (uscoreTypeNames st)

/-- `_pair_static_method`: returns the new state when the function was paired -/
def pairStaticMethod (st : NsState) (f : Node) (subsymbol : Str) : Option NsState :=
  match splitUscoredByType (typeMap st) subsymbol with
  | none => none
  | some (owner, funcname) =>
    if funcname.isEmpty then none
    else
      match st.get owner with
      | none => none
      | some node =>
        if node.kind == .cls then some (st.pairMove f.name owner .static funcname id)
        else if node.kind == .iface || node.kind == .record || node.kind == .union ||
                node.kind == .boxed || node.kind == .enum then
          some (st.pairClone f.name owner funcname)
        else none

/-- `_get_constructor_class` -/
def getConstructorClass (env : Env) (st : NsState) (f : Node) (subsymbol : Str) : Option Target :=
  match splitUscoredByType (typeMap st) subsymbol with
  | some (owner, _) => (st.get owner).map targetOfNode
  | none => if f.isCtor then lookupCT env st f.ret else none

/-- `_get_constructor_name` -/
def getConstructorName (env : Env) (st : NsState) (f : Node) (subsymbol : Str) : Str :=
  match splitUscoredByType (typeMap st) subsymbol with
  | some (_, name) => name
  | none =>
    if f.isCtor then
      let pfx := match lookupCT env st f.ret with
        | some t => getUscoredPrefix t subsymbol
        | none => []
      if startsWith subsymbol (pfx ++ ['_']) then (nameAfterPrefix f.cid subsymbol pfx).getD f.name else f.name
    else f.name

def ctorCapable (t : Target) : Bool :=
  t.kind == .cls || ((t.kind == .record || t.kind == .union || t.kind == .boxed) &&
    (t.getType.isSome || t.foreign))

def giName (env : Env) (t : Target) : Str :=
  (match t.ns with
   | .cur => env.cfg.cur.name
   | .inc i => (env.cfg.incs.map (·.name)).getD i []) ++ ['.'] ++ t.name

inductive Walk where
  | found          -- `parent == target`: break
  | broken         -- `parent is None`: warn, return False
  | noParentAttr   -- `parent.parent_type` on a Record/Union/Boxed reached THROUGH a parent link:
                   -- AttributeError (a class whose parent GType is not classed: GType forbids it)
  | exhausted      -- model fuel (cyclic parent chains do not come out of a GType dump)
  deriving Repr, DecidableEq

/-- the `while parent:` loop of `_is_constructor` (entered with the constructed class; every
    later `parent` is the node `lookup_typenode(parent.parent_type)` found, `None` returns False) -/
def ancestorWalk (env : Env) (st : NsState) (target : Target) : Nat → Target → Walk
  | 0, _ => .exhausted
  | fuel + 1, parent =>
    if parent.ns == target.ns && parent.name == target.name then .found
    else if !(parent.kind == .cls || parent.kind == .iface) then .noParentAttr
    else
      match parent.parent with
      | none => .broken
      | some ref =>
        match lookupGiname env st ref with
        | none => .broken
        | some p => ancestorWalk env st target fuel p

def walkFuel (env : Env) (st : NsState) : Nat :=
  st.names.length + (env.incNodes.map List.length).sum + 2

inductive CtorVerdict where
  | no | yes | crash
  deriving Repr, DecidableEq

/-- "If it takes the object as a first arg, guess it's not a constructor" -/
def firstArgIs (env : Env) (st : NsState) (f : Node) (origin : Target) : Bool :=
  match f.params with
  | first :: _ =>
    (match lookupCT env st first with
     | some a => giName env a == giName env origin
     | none => false)
  | [] => false

/-- the last part of `_is_constructor`: is the return type the constructed type or, when both
    are classes, one of its ancestors?  `.crash` is the AttributeError of a walk that meets a
    non-class node through a parent link (see `Walk.noParentAttr`) -/
def returnVerdict (env : Env) (st : NsState) (target origin : Target) : CtorVerdict :=
  if target.kind == .cls && origin.kind == .cls then
    match ancestorWalk env st target (walkFuel env st) origin with
    | .found => .yes
    | .noParentAttr => .crash
    | _ => .no
  else if origin.ns == target.ns && origin.name == target.name then .yes else .no

/-- `_is_constructor` -/
def ctorVerdict (env : Env) (st : NsState) (f : Node) (subsymbol : Str) : CtorVerdict :=
  if !f.isCtor && !guessConstructorByName f.cid then .no
  else
    match lookupCT env st f.ret with
    | none => .no
    | some target =>
      if !ctorCapable target then .no
      else
        match getConstructorClass env st f subsymbol with
        | none => .no
        | some origin =>
          if !ctorCapable origin then .no
          else if origin.ns != .cur then .no
          else if !f.isCtor && firstArgIs env st f origin then .no
          else returnVerdict env st target origin

def isConstructor (env : Env) (st : NsState) (f : Node) (subsymbol : Str) : Bool :=
  ctorVerdict env st f subsymbol == .yes

/-- `_pair_function` for one top-level function -/
def pairFunction (env : Env) (st : NsState) (f : Node) : Except PipeErr NsState :=
  if startsWith f.cid ['_'] || isTypeMeta f then .ok st
  else
    match splitForNamespaces env.cfg false f.cid with
    | .ok ms =>
      match lastOf ms with
      | some (_, subsymbol) =>
        match ctorVerdict env st f subsymbol with
        | .crash => .error .crash
        | .yes =>
          match getConstructorClass env st f subsymbol with
          | some origin =>
            .ok (st.pairMove f.name origin.name .ctor (getConstructorName env st f subsymbol)
              (fun n => { n with isCtor := true }))
          | none => .ok st
        | .no =>
          if isMethod env st f subsymbol then .ok (setupMethod env st f subsymbol)
          else .ok ((pairStaticMethod st f subsymbol).getD st)
      | none => .ok st
    | .error _ => .ok st

/-- the pairing loop of `MainTransformer.transform` over a snapshot of the namespace -/
def pairAll (env : Env) (st : NsState) : Except PipeErr NsState :=
  foldE (pairFunction env) st ((st.names.map (·.2)).filter (fun n => n.kind == .function))

/-! ## whole pipeline -/

structure Input where
  env : Env
  decls : List Decl
  dump : Option (List DumpEntry)
  /-- C type names carrying a `(foreign)` annotation (`_pass_read_annotations_early` looks the
      comment block up under `node.ctype`) -/
  foreignCtypes : List Str := []
  deriving Repr

/-- `_pass_read_annotations_early` / `_pass_read_annotations`: `(foreign)` on records and unions -/
def applyForeign (foreignCtypes : List Str) (st : NsState) : NsState :=
  { st with names := st.names.map (fun p =>
      if (p.2.kind == .record || p.2.kind == .union) && p.2.hasCid && foreignCtypes.contains p.2.cid then
        (p.1, { p.2 with foreign := true })
      else p) }

/-- `Transformer.parse` → `GDumpParser.parse` → `MainTransformer` (type resolution, pairing) -/
def describe (inp : Input) : Except PipeErr NsState :=
  match parse inp.env.cfg inp.decls with
  | .error e => .error e
  | .ok ns0 =>
    match (match inp.dump with
           | some d => applyDump inp.env.cfg ns0 d inp.decls.length
           | none => .ok ns0) with
    | .error e => .error e
    | .ok ns1 => pairAll inp.env (applyForeign inp.foreignCtypes (resolveParents inp.env ns1))

end GIVerif.Naming
