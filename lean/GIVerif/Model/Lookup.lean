/-
  C14 model: the directory lookups of a compiled typelib.

    girepository/gthash.c      _gi_typelib_hash_builder_prepare (sizes), _gi_typelib_hash_builder_pack,
                               _gi_typelib_hash_search
    girepository/gitypelib.c   g_typelib_get_dir_entry_by_name (index path + linear path),
                               g_typelib_get_dir_entry_by_gtype_name, g_typelib_get_dir_entry_by_error_domain,
                               g_typelib_matches_gtype_name_prefix (+ strsplit_iter_next)
    girepository/girmodule.c   add_directory_index_section (size of the section)
    girepository/girepository.c g_irepository_find_by_gtype / find_by_gtype, find_by_error_domain,
                               g_irepository_find_by_name, get_registered_status, register_internal,
                               g_irepository_load_typelib: the lookup STATE MACHINE with its three caches
                               (info_by_gtype, info_by_error_domain, unknown_gtypes)

  The minimal perfect hash of cmph (`cmph_search_packed`) is NOT modelled: it is the parameter
  `h : Str → Nat` of every definition that needs it.  Reads outside the directory or outside the
  table (undefined behaviour in C) are the explicit result `.oob`, so that "never reads outside"
  is a theorem and not an artefact of totalisation.
-/
import GIVerif.Py.Str
import GIVerif.Gen.Lookup

namespace GIVerif.Lookup
open GIVerif.Py

/-- one `DirEntry` together with the fields of the blob it points to that the lookups read.
    `gtypeName` is `RegisteredTypeBlob.gtype_name` (`none` = string offset 0, or a blob without that
    field), `errorDomain` is `EnumBlob.error_domain` -/
structure Entry where
  name : Str
  isLocal : Bool
  blobType : Nat
  gtypeName : Option Str
  errorDomain : Option Str
  deriving DecidableEq, Repr

/-- the directory: `header->n_entries` entries, the first `header->n_local_entries` of them local -/
structure Dir where
  entries : List Entry
  nLocal : Nat
  deriving DecidableEq, Repr

/-- the entries the lookups are about -/
def Dir.locals (d : Dir) : List Entry := d.entries.take d.nLocal

/-- result of a lookup: `DirEntry *` (0-based position in the directory), `NULL`, or a read
    outside the directory / the hash table -/
inductive Found where
  | entry (i : Nat) (e : Entry)
  | null
  | oob
  deriving DecidableEq, Repr

/-- `for (i = 1; i <= n; i++) { entry = g_typelib_get_dir_entry (typelib, i); if (p entry) return entry; } return NULL;`
    — `remaining` counts down from `n`, the list is the directory memory from entry `i` on -/
def scan (p : Entry → Bool) : (remaining : Nat) → (i : Nat) → List Entry → Found
  | 0, _, _ => .null
  | _ + 1, _, [] => .oob
  | r + 1, i, e :: es => if p e then .entry i e else scan p r (i + 1) es

/-- `_gi_typelib_hash_search (memory, str, n_entries)`:
    `offset = cmph_search_packed (...); if (offset >= n_entries) offset = 0; return table[offset];` -/
def hashSearch (h : Str → Nat) (table : List Nat) (n : Nat) (name : Str) : Option Nat :=
  let offset := h name
  let offset := if offset ≥ n then 0 else offset
  table[offset]?

/-- the linear path of `g_typelib_get_dir_entry_by_name` (no directory index section) -/
def linearByName (d : Dir) (name : Str) : Found :=
  scan (fun e => decide (e.name = name)) d.nLocal 0 d.entries

/-- the index path: hash, table read, `g_typelib_get_dir_entry (typelib, index + 1)`, then the
    mandatory `strcmp (name, entry_name) == 0` -/
def indexByName (h : Str → Nat) (table : List Nat) (d : Dir) (name : Str) : Found :=
  match hashSearch h table d.nLocal name with
  | none => .oob
  | some idx =>
    match d.entries[idx]? with
    | none => .oob
    | some e => if e.name = name then .entry idx e else .null

/-- `g_typelib_get_dir_entry_by_name`; `index = none` when `get_section_by_id` finds no
    `GI_SECTION_DIRECTORY_INDEX` -/
def byName (h : Str → Nat) (index : Option (List Nat)) (d : Dir) (name : Str) : Found :=
  match index with
  | none => linearByName d name
  | some table => indexByName h table d name

/-! ### building the table -/

/-- values are stored through a `guint16` parameter (`_gi_typelib_hash_builder_add_string`) -/
def slotMod : Nat := 2 ^ Gen.hashValueBits

def indexedFrom : Nat → List α → List (α × Nat)
  | _, [] => []
  | i, x :: xs => (x, i) :: indexedFrom (i + 1) xs

/-- one iteration of the loop of `_gi_typelib_hash_builder_pack`:
    `hashv = cmph_search_packed (...); g_assert (hashv < num_elts); table[hashv] = strval;`
    (`none` = the assertion aborted) -/
def packStep (h : Str → Nat) (n : Nat) (acc : Option (List Nat)) (kv : Str × Nat) : Option (List Nat) :=
  match acc with
  | none => none
  | some t => if h kv.1 < n then some (t.set (h kv.1) (kv.2 % slotMod)) else none

/-- `_gi_typelib_hash_builder_pack` for the keys added by `add_directory_index_section`
    (entry `i` is added with value `i`): `memset (mem, 0, len)` then one store per key.
    The real loop runs in GHashTable order; for distinct keys and an injective `h` the order is
    immaterial (`pack_perm` is not needed: the theorems only use the stores). -/
def pack (h : Str → Nat) (names : List Str) : Option (List Nat) :=
  (indexedFrom 0 names).foldl (packStep h names.length) (some (List.replicate names.length 0))

/-! ### the other keys -/

/-- `BLOB_IS_REGISTERED_TYPE` (set read from the header) -/
def isRegisteredType (bt : Nat) : Bool := Gen.registeredBlobTypes.contains bt

/-- does the blob struct of this kind have a `gtype_name` member at all (girnode.c writes the kind
    with a struct that starts like RegisteredTypeBlob)?  `Entry.gtypeName` is meaningful only then. -/
def hasGTypeNameField (bt : Nat) : Bool := Gen.gtypeNameBlobTypes.contains bt

/-- `g_typelib_get_dir_entry_by_gtype_name` -/
def byGTypeName (d : Dir) (g : Str) : Found :=
  scan (fun e => isRegisteredType e.blobType && decide (e.gtypeName = some g)) d.nLocal 0 d.entries

/-- `g_typelib_get_dir_entry_by_error_domain` (the quark is compared as a string) -/
def byErrorDomain (d : Dir) (dom : Str) : Found :=
  scan (fun e => decide (e.blobType = Gen.errorDomainBlobType.2) && decide (e.errorDomain = some dom))
    d.nLocal 0 d.entries

/-- strip a literal prefix -/
def stripPrefix? : Str → Str → Option Str
  | s, [] => some s
  | [], _ :: _ => none
  | c :: cs, p :: ps => if c = p then stripPrefix? cs ps else none

/-- body of the loop of `g_typelib_matches_gtype_name_prefix` for one prefix:
    `gtype_name_len >= len && strncmp (prefix, gtype_name, len) == 0 && g_ascii_isupper (gtype_name[len])` -/
def prefixThenUpper (g pre : Str) : Bool :=
  match stripPrefix? g pre with
  | some (c :: _) => isAsciiUpper c
  | _ => false

/-- `g_string_overwrite_len (&iter->buf, 0, s, len)`: the first `len` characters of the buffer are
    replaced, the buffer is lengthened if necessary and NEVER shortened -/
def overwrite (buf piece : Str) : Str := piece ++ buf.drop piece.length

/-- the values `strsplit_iter_next` hands out for the successive pieces of the list: an empty
    piece yields `""` and leaves the buffer alone, any other piece is written over the start of the
    buffer shared by all iterations and the WHOLE buffer is handed out -/
def piecesSeen : Str → List Str → List Str
  | _, [] => []
  | buf, p :: ps =>
    if p.isEmpty then [] :: piecesSeen buf ps
    else overwrite buf p :: piecesSeen (overwrite buf p) ps

/-- `g_typelib_matches_gtype_name_prefix`; `cprefix` is the string found at `header->c_prefix` -/
def matchesGTypePrefix (cprefix g : Str) : Bool :=
  if cprefix.isEmpty then false
  else (piecesSeen [] (splitChar ',' cprefix [])).any (prefixThenUpper g)

/-! ### repository level -/

/-- a loaded typelib as far as the searches are concerned -/
structure Lib where
  dir : Dir
  cprefix : Str

inductive RFound where
  | entry (lib i : Nat) (e : Entry)
  | null
  | oob
  deriving DecidableEq, Repr

/-- `find_by_gtype (table, data, check_prefix)` over the loaded typelibs in table order
    (`k` = position of the typelib) -/
def findPass (g : Str) (checkPrefix : Bool) : Nat → List Lib → RFound
  | _, [] => .null
  | k, l :: ls =>
    if checkPrefix && !matchesGTypePrefix l.cprefix g then findPass g checkPrefix (k + 1) ls
    else match byGTypeName l.dir g with
      | .entry i e => .entry k i e
      | .null => findPass g checkPrefix (k + 1) ls
      | .oob => .oob

/-- `g_irepository_find_by_gtype` after `g_type_name`, without its two caches: a pass that trusts
    the C prefixes, then a pass over everything -/
def findByGType (libs : List Lib) (g : Str) : RFound :=
  match findPass g true 0 libs with
  | .null => findPass g false 0 libs
  | r => r

/-- `g_irepository_find_by_error_domain` without its cache -/
def findByErrorDomain (dom : Str) : Nat → List Lib → RFound
  | _, [] => .null
  | k, l :: ls =>
    match byErrorDomain l.dir dom with
    | .entry i e => .entry k i e
    | .null => findByErrorDomain dom (k + 1) ls
    | .oob => .oob

/-! ### the repository-level lookup state machine (girepository.c)

  `GIRepositoryPrivate`: the two typelib tables and the three lookup caches.  A GType is
  identified with its name and a GQuark with its string (`g_type_name` / `g_quark_to_string` are
  injective), so the caches are keyed by strings here.  A `GHashTable` is a list in ITERATION
  order; where a new key lands in that order is an argument of the operation (`pos`), and a
  resize may reorder a table at any time (operation `rehash`). -/

/-- a `GITypelib` as far as the repository-level lookups are concerned: the namespace it is
    registered under, what the GType / error-domain scans read (`lib`), and what
    `g_typelib_get_dir_entry_by_name` reads (the perfect hash and the directory index section) -/
structure TL where
  ns : Str
  lib : Lib
  h : Str → Nat := fun _ => 0
  index : Option (List Nat) := none

/-- a `GIBaseInfo` made by `_g_info_new_full (entry->blob_type, repository, NULL, typelib, entry->offset)`:
    the typelib (by its namespace) and the directory entry -/
structure Hit where
  ns : Str
  idx : Nat
  entry : Entry
  deriving DecidableEq, Repr

/-- the answer of a repository-level lookup: an info, NULL, or a read outside a directory -/
inductive RAns where
  | info (hit : Hit)
  | null
  | oob
  deriving DecidableEq, Repr

structure Repo where
  /-- `priv->typelibs` -/
  eager : List TL := []
  /-- `priv->lazy_typelibs` -/
  lazy : List TL := []
  /-- `priv->info_by_gtype` (positive answers) -/
  infoByGType : List (Str × Hit) := []
  /-- `priv->info_by_error_domain` (positive answers) -/
  infoByErrorDomain : List (Str × Hit) := []
  /-- `priv->unknown_gtypes` (negative answers) -/
  unknownGTypes : List Str := []

/-- every typelib a lookup may answer from -/
def Repo.loaded (s : Repo) : List TL := s.eager ++ s.lazy

/-- `g_hash_table_lookup (table, namespace)` on a typelib table -/
def lookupNs (table : List TL) (ns : Str) : Option TL := table.find? (fun t => t.ns == ns)

/-- `g_hash_table_lookup` on a cache -/
def lookupCache (cache : List (Str × Hit)) (k : Str) : Option Hit :=
  match cache.find? (fun p => p.1 == k) with
  | some p => some p.2
  | none => none

/-- `find_by_gtype (table, &data, check_prefix)`: the loop over one table -/
def findByGTypeIn (g : Str) (checkPrefix : Bool) : List TL → RAns
  | [] => .null
  | t :: ts =>
    if checkPrefix && !matchesGTypePrefix t.lib.cprefix g then findByGTypeIn g checkPrefix ts
    else match byGTypeName t.lib.dir g with
      | .entry i e => .info ⟨t.ns, i, e⟩
      | .null => findByGTypeIn g checkPrefix ts
      | .oob => .oob

/-- `entry = X; if (entry == NULL) entry = Y;` -/
def orElse (a : RAns) (b : Unit → RAns) : RAns :=
  match a with
  | .null => b ()
  | r => r

/-- the four searches of `g_irepository_find_by_gtype`, in source order -/
def searchGType (s : Repo) (g : Str) : RAns :=
  orElse (findByGTypeIn g true s.eager) fun _ =>
  orElse (findByGTypeIn g true s.lazy) fun _ =>
  orElse (findByGTypeIn g false s.eager) fun _ =>
  findByGTypeIn g false s.lazy

/-- `g_irepository_find_by_gtype` after `g_type_name (gtype)` -/
def findByGTypeOp (s : Repo) (g : Str) : Repo × RAns :=
  match lookupCache s.infoByGType g with
  | some hit => (s, .info hit)                                     -- `if (cached != NULL) return`
  | none =>
    if s.unknownGTypes.contains g then (s, .null)                   -- `g_hash_table_contains (unknown_gtypes)`
    else match searchGType s g with
      | .info hit => ({ s with infoByGType := (g, hit) :: s.infoByGType }, .info hit)
      | .null => ({ s with unknownGTypes := g :: s.unknownGTypes }, .null)
      | .oob => (s, .oob)

/-- `g_hash_table_foreach (table, find_by_error_domain_foreach, &data)`: the first typelib of the
    table that has the domain -/
def findByErrorDomainIn (dom : Str) : List TL → RAns
  | [] => .null
  | t :: ts =>
    match byErrorDomain t.lib.dir dom with
    | .entry i e => .info ⟨t.ns, i, e⟩
    | .null => findByErrorDomainIn dom ts
    | .oob => .oob

def searchErrorDomain (s : Repo) (dom : Str) : RAns :=
  orElse (findByErrorDomainIn dom s.eager) fun _ => findByErrorDomainIn dom s.lazy

/-- `g_irepository_find_by_error_domain` after `g_quark_to_string` -/
def findByErrorDomainOp (s : Repo) (dom : Str) : Repo × RAns :=
  match lookupCache s.infoByErrorDomain dom with
  | some hit => (s, .info hit)
  | none =>
    match searchErrorDomain s dom with
    | .info hit => ({ s with infoByErrorDomain := (dom, hit) :: s.infoByErrorDomain }, .info hit)
    | r => (s, r)

/-- `get_registered (repository, namespace, NULL)`: the loaded table first, then the lazy one -/
def getRegistered (s : Repo) (ns : Str) : Option TL :=
  match lookupNs s.eager ns with
  | some t => some t
  | none => lookupNs s.lazy ns

/-- a `DirEntry *` of typelib `t` wrapped by `_g_info_new_full` -/
def liftFound (t : TL) : Found → RAns
  | .entry i e => .info ⟨t.ns, i, e⟩
  | .null => .null
  | .oob => .oob

/-- `g_irepository_find_by_name`; `g_return_val_if_fail (typelib != NULL, NULL)` answers NULL for a
    namespace that is not loaded -/
def findByNameOp (s : Repo) (ns name : Str) : RAns :=
  match getRegistered s ns with
  | none => .null
  | some t => liftFound t (byName t.h t.index t.lib.dir name)

/-- `get_registered_status (..., allow_lazy, ...) != NULL` (versions are C17's subject: one
    version per namespace here) -/
def isRegistered (s : Repo) (ns : Str) (allowLazy : Bool) : Bool :=
  match lookupNs s.eager ns with
  | some _ => true
  | none =>
    match lookupNs s.lazy ns with
    | none => false
    | some _ => allowLazy

/-- does the guard chain of a statement of `register_internal` hold on the branch `lazy`? -/
def guardHolds (lazy : Bool) (g : String) : Bool :=
  if g = "if:lazy" then lazy else if g = "else:lazy" then !lazy else false

/-- is `g_hash_table_remove_all (priv->unknown_gtypes)` executed by `register_internal` on the
    branch `lazy`?  Read from the cache skeleton of the CURRENT source (Gen.cacheSites). -/
def registerClearsUnknown (lazy : Bool) : Bool :=
  Gen.cacheSites.any fun s =>
    s.1 == "register_internal" && s.2.2.1 == "g_hash_table_remove_all" && s.2.2.2 == "unknown_gtypes"
      && s.2.1.all (guardHolds lazy)

/-- `g_hash_table_insert` of a new key: it lands somewhere in the iteration order -/
def insertAt (table : List TL) (pos : Nat) (t : TL) : List TL := table.take pos ++ t :: table.drop pos

/-- `register_internal (repository, source, lazy, typelib, error)` once the dependencies are loaded
    (they are registrations of their own, earlier in the history).  `none` = `g_assert` failed.
    `clears lazy` = is `g_hash_table_remove_all (priv->unknown_gtypes)` reached on this branch.
    A table holds a key at most once, so stealing the key removes every typelib of that namespace. -/
def registerInternalWith (clears : Bool → Bool) (s : Repo) (t : TL) (lazy : Bool) (pos : Nat) : Option Repo :=
  let s' : Option Repo :=
    if lazy then
      match lookupNs s.lazy t.ns with
      | some _ => none                                              -- g_assert (!g_hash_table_lookup (lazy_typelibs))
      | none => some { s with lazy := insertAt s.lazy pos t }
    else
      -- "Check if we are transitioning from lazily loaded state": steal, then insert into typelibs
      some { s with lazy := s.lazy.filter (fun x => !(x.ns == t.ns)), eager := insertAt s.eager pos t }
  match s' with
  | none => none
  | some r => some (if clears lazy then { r with unknownGTypes := [] } else r)

/-- `register_internal` with the clearing statement where the current source has it -/
def registerInternal (s : Repo) (t : TL) (lazy : Bool) (pos : Nat) : Option Repo :=
  registerInternalWith registerClearsUnknown s t lazy pos

/-- do BOTH load entry points (`g_irepository_load_typelib`, `require_internal`) take the typelib to
    register from the lazy table when the namespace is lazily loaded (`if (is_lazy) typelib =
    g_hash_table_lookup (priv->lazy_typelibs, namespace)`)?  Read from the CURRENT source. -/
def transitionPromotes : Bool :=
  ["g_irepository_load_typelib", "require_internal"].all fun f =>
    Gen.cacheSites.any fun s =>
      s.1 == f && s.2.1 == ["if:is_lazy"] && s.2.2.1 == "g_hash_table_lookup" && s.2.2.2 == "lazy_typelibs"

/-- the typelib a load registers: the one already in the lazy table if there is one (a lazy → loaded
    transition PROMOTES the typelib that is loaded; the one passed in / found on disk is not used) -/
def promoted (s : Repo) (t : TL) : TL :=
  match (if transitionPromotes then lookupNs s.lazy t.ns else none) with
  | some t0 => t0
  | none => t

/-- `g_irepository_load_typelib (repository, typelib, flags, &error)`, and `require_internal` from
    the point where the namespace is known: a namespace that is registered already (lazily
    registered counts only when the caller allows lazy) is left alone; otherwise `register_internal`
    is called, for a lazily loaded namespace with the typelib of the lazy table. -/
def loadOp (s : Repo) (t : TL) (lazy : Bool) (pos : Nat) : Option Repo :=
  if isRegistered s t.ns lazy then some s else registerInternal s (promoted s t) lazy pos

inductive Op where
  | findByGType (g : Str)
  | findByErrorDomain (dom : Str)
  | findByName (ns name : Str)
  | load (t : TL) (lazy : Bool) (pos : Nat)
  /-- a resize of the hash tables: any reordering of the two typelib tables -/
  | rehash (eager lazy : List TL)

/-- one API call: the state after it and its answer (`none` = the process aborted) -/
def step (s : Repo) : Op → Option (Repo × RAns)
  | .findByGType g => some (findByGTypeOp s g)
  | .findByErrorDomain d => some (findByErrorDomainOp s d)
  | .findByName ns name => some (s, findByNameOp s ns name)
  | .load t lazy pos =>
    match loadOp s t lazy pos with
    | some s' => some (s', .null)
    | none => none
  | .rehash e l => some ({ s with eager := e, lazy := l }, .null)

/-- a history of calls: (state before the call, call, answer) for every call that ran -/
def trace : Repo → List Op → List (Repo × Op × RAns)
  | _, [] => []
  | s, op :: ops =>
    match step s op with
    | none => []
    | some (s', a) => (s, op, a) :: trace s' ops

/-- the answers of a history -/
def answers (s : Repo) (ops : List Op) : List RAns := (trace s ops).map (·.2.2)

/-! the cache-free specification: what the lookups answer on a set of loaded typelibs -/

/-- `g_irepository_find_by_gtype` without caches on the typelibs `libs` (loaded ones first, then
    the lazily loaded ones): a pass that trusts the C prefixes, then a pass over everything -/
def specFindByGType (libs : List TL) (g : Str) : RAns :=
  orElse (findByGTypeIn g true libs) fun _ => findByGTypeIn g false libs

def specFindByErrorDomain (libs : List TL) (dom : Str) : RAns := findByErrorDomainIn dom libs

/-! what the history theorem is about (statements only; the proofs are in Lemmas/Lookup.lean) -/

/-- the invariant of the caches: a name in `unknown_gtypes` is absent from EVERY typelib a search
    would look at (loaded or lazily loaded); a cached info is what the typelib-level lookup of a
    typelib that is still loaded answers; a namespace is registered once -/
structure Inv (s : Repo) : Prop where
  unknown : ∀ g ∈ s.unknownGTypes, ∀ t ∈ s.loaded, byGTypeName t.lib.dir g = .null
  gtype : ∀ p ∈ s.infoByGType, ∃ t ∈ s.loaded, t.ns = p.2.ns ∧
    byGTypeName t.lib.dir p.1 = .entry p.2.idx p.2.entry
  domain : ∀ p ∈ s.infoByErrorDomain, ∃ t ∈ s.loaded, t.ns = p.2.ns ∧
    byErrorDomain t.lib.dir p.1 = .entry p.2.idx p.2.entry
  nodup : (s.loaded.map (·.ns)).Nodup

/-- what GHashTable must respect for a call made in state `s`: a resize of a hash table permutes it,
    nothing else.  (Nothing is asked of the caller: a typelib is never unloaded, and the lazy →
    loaded transition keeps the typelib that is loaded.) -/
def OpOk (s : Repo) : Op → Prop
  | .rehash e l => e.Perm s.eager ∧ l.Perm s.lazy
  | _ => True

def Admissible : Repo → List Op → Prop
  | _, [] => True
  | s, op :: ops => OpOk s op ∧ ∀ s' a, step s op = some (s', a) → Admissible s' ops

/-- the clause "these lookups agree with repository-level find-by-…" for one answer, on the
    typelibs `libs` loaded at that moment:
    1. an info is the answer of the typelib-level lookup of a loaded typelib (of that namespace),
    2. NULL is answered exactly when the typelib-level lookup of every loaded typelib answers NULL,
    3. when at most one loaded typelib has the key, the answer is the cache-free search. -/
def AgreesWith (by_ : TL → Found) (spec : RAns) (libs : List TL) (a : RAns) : Prop :=
  (∀ hit, a = .info hit → ∃ t ∈ libs, t.ns = hit.ns ∧ by_ t = .entry hit.idx hit.entry)
  ∧ (a = .null ↔ ∀ t ∈ libs, by_ t = .null)
  ∧ ((∀ t ∈ libs, ∀ t' ∈ libs, by_ t ≠ .null → by_ t' ≠ .null → t = t') → a = spec)

def AnswerOK (s : Repo) : Op → RAns → Prop
  | .findByGType g, a =>
    AgreesWith (fun t => byGTypeName t.lib.dir g) (specFindByGType s.loaded g) s.loaded a
  | .findByErrorDomain d, a =>
    AgreesWith (fun t => byErrorDomain t.lib.dir d) (specFindByErrorDomain s.loaded d) s.loaded a
  | .findByName ns name, a =>
    (∀ t ∈ s.loaded, t.ns = ns → a = liftFound t (byName t.h t.index t.lib.dir name))
    ∧ ((∀ t ∈ s.loaded, t.ns ≠ ns) → a = .null)
  | _, _ => True

/-- the conclusion of C14_complete / C14_linear for one typelib: every local entry is found by
    its own name, at its own position -/
def NameComplete (t : TL) : Prop :=
  ∀ i e, t.lib.dir.locals[i]? = some e → byName t.h t.index t.lib.dir e.name = .entry i e

/-! ### size arithmetic -/

/-- `ALIGN_VALUE (x, b)` = `(x + (b-1)) & ~(b-1)`, written arithmetically (equal for the powers
    of two the sources use; the harness compares with the real section offsets) -/
def alignUp (x b : Nat) : Nat := (x + (b - 1)) / b * b

/-- `builder->dirmap_offset = ALIGN_VALUE (sizeof (guint32) + cmph_packed_size (c), 4)` -/
def dirmapOffset (mphSize : Nat) : Nat := alignUp (Gen.hashCounterBytes + mphSize) Gen.hashTableAlign

/-- `builder->packed_size = dirmap_offset + num_elts * sizeof (guint16)` -/
def packedSize (mphSize n : Nat) : Nat := dirmapOffset mphSize + n * Gen.hashSlotBytes

/-- `required_size` of `add_directory_index_section`, kept in an unsigned variable of `bits` bits:
    `required_size = get_buffer_size (); required_size = ALIGN_VALUE (required_size, 4);` -/
def sectionSize (bits mphSize n : Nat) : Nat :=
  let r := packedSize mphSize n % 2 ^ bits
  alignUp r Gen.sectionAlign % 2 ^ bits

/-- `g_assert (len >= builder->packed_size)` of `_gi_typelib_hash_builder_pack` -/
def packAssertOk (bits mphSize n : Nat) : Bool := decide (packedSize mphSize n ≤ sectionSize bits mphSize n)

/-- the section size with the width the source declares now -/
def sectionSizeNow (mphSize n : Nat) : Nat := sectionSize Gen.requiredSizeBits mphSize n

end GIVerif.Lookup
