/-
  C14 model: the directory lookups of a compiled typelib.

    girepository/gthash.c      _gi_typelib_hash_builder_prepare (sizes), _gi_typelib_hash_builder_pack,
                               _gi_typelib_hash_search
    girepository/gitypelib.c   g_typelib_get_dir_entry_by_name (index path + linear path),
                               g_typelib_get_dir_entry_by_gtype_name, g_typelib_get_dir_entry_by_error_domain,
                               g_typelib_matches_gtype_name_prefix (+ strsplit_iter_next)
    girepository/girmodule.c   add_directory_index_section (size of the section)
    girepository/girepository.c g_irepository_find_by_gtype / find_by_gtype, find_by_error_domain

  The minimal perfect hash of cmph (`cmph_search_packed`) is NOT modelled: it is the parameter
  `h : Str → Nat` of every definition that needs it.  Reads outside the directory or outside the
  table (undefined behaviour in C) are the explicit result `.oob`, so that "never reads outside"
  is a theorem and not an artefact of totalisation.
-/
import GIVerif.Py.Str
import GIVerif.Gen.Lookup

namespace GIVerif.Lookup
open GIVerif.Py

/-- one `DirEntry` together with the fields of the blob it points to that the lookups read.
    `gtypeName` is `RegisteredTypeBlob.gtype_name` (`none` = string offset 0, or a blob without that
    field), `errorDomain` is `EnumBlob.error_domain` -/
structure Entry where
  name : Str
  isLocal : Bool
  blobType : Nat
  gtypeName : Option Str
  errorDomain : Option Str
  deriving DecidableEq, Repr

/-- the directory: `header->n_entries` entries, the first `header->n_local_entries` of them local -/
structure Dir where
  entries : List Entry
  nLocal : Nat
  deriving Repr

/-- the entries the lookups are about -/
def Dir.locals (d : Dir) : List Entry := d.entries.take d.nLocal

/-- result of a lookup: `DirEntry *` (0-based position in the directory), `NULL`, or a read
    outside the directory / the hash table -/
inductive Found where
  | entry (i : Nat) (e : Entry)
  | null
  | oob
  deriving DecidableEq, Repr

/-- `for (i = 1; i <= n; i++) { entry = g_typelib_get_dir_entry (typelib, i); if (p entry) return entry; } return NULL;`
    — `remaining` counts down from `n`, the list is the directory memory from entry `i` on -/
def scan (p : Entry → Bool) : (remaining : Nat) → (i : Nat) → List Entry → Found
  | 0, _, _ => .null
  | _ + 1, _, [] => .oob
  | r + 1, i, e :: es => if p e then .entry i e else scan p r (i + 1) es

/-- `_gi_typelib_hash_search (memory, str, n_entries)`:
    `offset = cmph_search_packed (...); if (offset >= n_entries) offset = 0; return table[offset];` -/
def hashSearch (h : Str → Nat) (table : List Nat) (n : Nat) (name : Str) : Option Nat :=
  let offset := h name
  let offset := if offset ≥ n then 0 else offset
  table[offset]?

/-- the linear path of `g_typelib_get_dir_entry_by_name` (no directory index section) -/
def linearByName (d : Dir) (name : Str) : Found :=
  scan (fun e => decide (e.name = name)) d.nLocal 0 d.entries

/-- the index path: hash, table read, `g_typelib_get_dir_entry (typelib, index + 1)`, then the
    mandatory `strcmp (name, entry_name) == 0` -/
def indexByName (h : Str → Nat) (table : List Nat) (d : Dir) (name : Str) : Found :=
  match hashSearch h table d.nLocal name with
  | none => .oob
  | some idx =>
    match d.entries[idx]? with
    | none => .oob
    | some e => if e.name = name then .entry idx e else .null

/-- `g_typelib_get_dir_entry_by_name`; `index = none` when `get_section_by_id` finds no
    `GI_SECTION_DIRECTORY_INDEX` -/
def byName (h : Str → Nat) (index : Option (List Nat)) (d : Dir) (name : Str) : Found :=
  match index with
  | none => linearByName d name
  | some table => indexByName h table d name

/-! ### building the table -/

/-- values are stored through a `guint16` parameter (`_gi_typelib_hash_builder_add_string`) -/
def slotMod : Nat := 2 ^ Gen.hashValueBits

def indexedFrom : Nat → List α → List (α × Nat)
  | _, [] => []
  | i, x :: xs => (x, i) :: indexedFrom (i + 1) xs

/-- one iteration of the loop of `_gi_typelib_hash_builder_pack`:
    `hashv = cmph_search_packed (...); g_assert (hashv < num_elts); table[hashv] = strval;`
    (`none` = the assertion aborted) -/
def packStep (h : Str → Nat) (n : Nat) (acc : Option (List Nat)) (kv : Str × Nat) : Option (List Nat) :=
  match acc with
  | none => none
  | some t => if h kv.1 < n then some (t.set (h kv.1) (kv.2 % slotMod)) else none

/-- `_gi_typelib_hash_builder_pack` for the keys added by `add_directory_index_section`
    (entry `i` is added with value `i`): `memset (mem, 0, len)` then one store per key.
    The real loop runs in GHashTable order; for distinct keys and an injective `h` the order is
    immaterial (`pack_perm` is not needed: the theorems only use the stores). -/
def pack (h : Str → Nat) (names : List Str) : Option (List Nat) :=
  (indexedFrom 0 names).foldl (packStep h names.length) (some (List.replicate names.length 0))

/-! ### the other keys -/

/-- `BLOB_IS_REGISTERED_TYPE` (set read from the header) -/
def isRegisteredType (bt : Nat) : Bool := Gen.registeredBlobTypes.contains bt

/-- `g_typelib_get_dir_entry_by_gtype_name` -/
def byGTypeName (d : Dir) (g : Str) : Found :=
  scan (fun e => isRegisteredType e.blobType && decide (e.gtypeName = some g)) d.nLocal 0 d.entries

/-- `g_typelib_get_dir_entry_by_error_domain` (the quark is compared as a string) -/
def byErrorDomain (d : Dir) (dom : Str) : Found :=
  scan (fun e => decide (e.blobType = Gen.errorDomainBlobType.2) && decide (e.errorDomain = some dom))
    d.nLocal 0 d.entries

/-- strip a literal prefix -/
def stripPrefix? : Str → Str → Option Str
  | s, [] => some s
  | [], _ :: _ => none
  | c :: cs, p :: ps => if c = p then stripPrefix? cs ps else none

/-- body of the loop of `g_typelib_matches_gtype_name_prefix` for one prefix:
    `gtype_name_len >= len && strncmp (prefix, gtype_name, len) == 0 && g_ascii_isupper (gtype_name[len])` -/
def prefixThenUpper (g pre : Str) : Bool :=
  match stripPrefix? g pre with
  | some (c :: _) => isAsciiUpper c
  | _ => false

/-- `g_string_overwrite_len (&iter->buf, 0, s, len)`: the first `len` characters of the buffer are
    replaced, the buffer is lengthened if necessary and NEVER shortened -/
def overwrite (buf piece : Str) : Str := piece ++ buf.drop piece.length

/-- the values `strsplit_iter_next` hands out for the successive pieces of the list: an empty
    piece yields `""` and leaves the buffer alone, any other piece is written over the start of the
    buffer shared by all iterations and the WHOLE buffer is handed out -/
def piecesSeen : Str → List Str → List Str
  | _, [] => []
  | buf, p :: ps =>
    if p.isEmpty then [] :: piecesSeen buf ps
    else overwrite buf p :: piecesSeen (overwrite buf p) ps

/-- `g_typelib_matches_gtype_name_prefix`; `cprefix` is the string found at `header->c_prefix` -/
def matchesGTypePrefix (cprefix g : Str) : Bool :=
  if cprefix.isEmpty then false
  else (piecesSeen [] (splitChar ',' cprefix [])).any (prefixThenUpper g)

/-! ### repository level -/

/-- a loaded typelib as far as the searches are concerned -/
structure Lib where
  dir : Dir
  cprefix : Str

inductive RFound where
  | entry (lib i : Nat) (e : Entry)
  | null
  | oob
  deriving DecidableEq, Repr

/-- `find_by_gtype (table, data, check_prefix)` over the loaded typelibs in table order
    (`k` = position of the typelib) -/
def findPass (g : Str) (checkPrefix : Bool) : Nat → List Lib → RFound
  | _, [] => .null
  | k, l :: ls =>
    if checkPrefix && !matchesGTypePrefix l.cprefix g then findPass g checkPrefix (k + 1) ls
    else match byGTypeName l.dir g with
      | .entry i e => .entry k i e
      | .null => findPass g checkPrefix (k + 1) ls
      | .oob => .oob

/-- `g_irepository_find_by_gtype` after `g_type_name`, without its two caches: a pass that trusts
    the C prefixes, then a pass over everything -/
def findByGType (libs : List Lib) (g : Str) : RFound :=
  match findPass g true 0 libs with
  | .null => findPass g false 0 libs
  | r => r

/-- `g_irepository_find_by_error_domain` without its cache -/
def findByErrorDomain (dom : Str) : Nat → List Lib → RFound
  | _, [] => .null
  | k, l :: ls =>
    match byErrorDomain l.dir dom with
    | .entry i e => .entry k i e
    | .null => findByErrorDomain dom (k + 1) ls
    | .oob => .oob

/-! ### size arithmetic -/

/-- `ALIGN_VALUE (x, b)` = `(x + (b-1)) & ~(b-1)`, written arithmetically (equal for the powers
    of two the sources use; the harness compares with the real section offsets) -/
def alignUp (x b : Nat) : Nat := (x + (b - 1)) / b * b

/-- `builder->dirmap_offset = ALIGN_VALUE (sizeof (guint32) + cmph_packed_size (c), 4)` -/
def dirmapOffset (mphSize : Nat) : Nat := alignUp (Gen.hashCounterBytes + mphSize) Gen.hashTableAlign

/-- `builder->packed_size = dirmap_offset + num_elts * sizeof (guint16)` -/
def packedSize (mphSize n : Nat) : Nat := dirmapOffset mphSize + n * Gen.hashSlotBytes

/-- `required_size` of `add_directory_index_section`, kept in an unsigned variable of `bits` bits:
    `required_size = get_buffer_size (); required_size = ALIGN_VALUE (required_size, 4);` -/
def sectionSize (bits mphSize n : Nat) : Nat :=
  let r := packedSize mphSize n % 2 ^ bits
  alignUp r Gen.sectionAlign % 2 ^ bits

/-- `g_assert (len >= builder->packed_size)` of `_gi_typelib_hash_builder_pack` -/
def packAssertOk (bits mphSize n : Nat) : Bool := decide (packedSize mphSize n ≤ sectionSize bits mphSize n)

/-- the section size with the width the source declares now -/
def sectionSizeNow (mphSize n : Nat) : Nat := sectionSize Gen.requiredSizeBits mphSize n

end GIVerif.Lookup
