/-
  C15 model: how girepository/girparser.c consumes the element stream of a GIR file.

  * `stateSwitch`, `startEv`, `endEv`, `run` mirror state_switch, start_element_handler,
    end_element_handler and the GMarkup event loop: parser state, prev_state, unknown_depth
    (the PASSTHROUGH depth counter), the node stack (kinds only), in_embedded_state and
    type_depth.  Which element is taken in which state, by which handler, with or without
    introspectable_prelude, and the state it switches to, is NOT written here: it is read from
    the table `Gen.c15CAccept` regenerated from girparser.c on every run; the per-state
    behaviour of end_element_handler is written here and compared with the re-extracted
    `Gen.c15CEnd` by a `decide` theorem (Props/C15.lean, C15_model_shape).
  * `offElements`, `offAttributes`, `offValues` are the executable vocabulary-contract
    checkers: they walk everything giscanner/girwriter.py can emit (`Gen.c15Py*`) through
    the parser tables and return the pairs that do not fit.

  Names of states and elements are the strings of the generated tables.
-/
import GIVerif.Gen.GirVocabC
import GIVerif.Gen.GirVocabPy

namespace GIVerif.GirConsume
open GIVerif

/-! ### the parser tables -/

structure Row where
  state : String
  elem : String
  handler : String
  needsNode : Bool
  prelude : Bool
  switch : Bool
  target : String
  push : Bool
  deriving Repr, DecidableEq

def rows : List Row :=
  Gen.c15CAccept.map fun r =>
    { state := r.1, elem := r.2.1, handler := r.2.2.1, needsNode := r.2.2.2.1, prelude := r.2.2.2.2.1,
      switch := r.2.2.2.2.2.1, target := r.2.2.2.2.2.2.1, push := r.2.2.2.2.2.2.2 }

/-- the handler start_element_handler ends up with for `el` in state `st` -/
def lookup (st el : String) (hasNode : Bool) : Option Row :=
  rows.find? fun r => r.state == st && r.elem == el && (!r.needsNode || hasNode)

def silentPrefix (el : String) : Bool := Gen.c15CSilentPrefixes.any fun p => p.isPrefixOf el

def nodeKind (handler : String) : String :=
  match Gen.c15CNodeKind.find? (fun p => p.1 == handler) with
  | some p => p.2
  | none => "?"

/-! ### the state machine -/

structure Ctx where
  state : String
  prev : String
  depth : Nat
  stack : List String
  embedded : String
  typeDepth : Nat
  /-- what the parser acted on: `+el` a handled element, `~el` an element skipped by
      introspectable_prelude, `?el@STATE` an unknown element (warning), `.el` a silently ignored one -/
  log : List String
  deriving Repr, DecidableEq

def Ctx.init : Ctx :=
  { state := "START", prev := "NONE", depth := 0, stack := [], embedded := "NONE", typeDepth := 0, log := [] }

inductive Ev where
  /-- `hidden` = what introspectable_prelude computes: the element carries introspectable="0" (atoi = 0) or a
      shadowed-by attribute; `intro0` = the introspectable attribute alone (atoi = 0), which is all the
      hand-written test of start_member looks at -/
  | start (name : String) (hidden : Bool) (intro0 : Bool)
  | stop (name : String)
  deriving Repr, DecidableEq

/-- state_switch: asserts the state really changes, remembers the old state in the single
    `prev_state` slot, and arms the depth counter when entering PASSTHROUGH -/
def stateSwitch (c : Ctx) (s : String) : Except String Ctx :=
  if c.state = s then .error s!"assertion failed: (ctx->state != newstate) [{s}]"
  else .ok { c with prev := c.state, state := s, depth := if s = "PASSTHROUGH" then 1 else c.depth }

/-- start_element_handler -/
def startEv (c : Ctx) (name : String) (hidden : Bool) (intro0 : Bool := hidden) : Except String Ctx :=
  if c.state = "PASSTHROUGH" then .ok { c with depth := c.depth + 1 }
  else
    match lookup c.state name (!c.stack.isEmpty) with
    | some r =>
      if r.prelude then
        -- introspectable_prelude
        if hidden then stateSwitch { c with log := c.log ++ ["~" ++ name] } "PASSTHROUGH"
        else do
          let c1 ← stateSwitch { c with log := c.log ++ ["+" ++ name] } r.target
          let c2 := if r.push then { c1 with stack := nodeKind r.handler :: c1.stack } else c1
          -- start_function inside a field: remember where to come back to
          pure (if r.handler == "start_function" && Gen.c15CEmbeddedStates.contains c.state
                then { c2 with embedded := c.state } else c2)
      else if Gen.c15COwnIntroTest.contains r.handler && intro0 then
        -- start_member: `if (introspectable && atoi (introspectable) == 0) { state_switch (ctx, STATE_PASSTHROUGH); return TRUE; }`
        stateSwitch { c with log := c.log ++ ["~" ++ name] } "PASSTHROUGH"
      else if r.switch then do
        let c1 ← stateSwitch { c with log := c.log ++ ["+" ++ name] } r.target
        pure (if r.target == "TYPE" then { c1 with typeDepth := 1 } else c1)
      else
        -- member, discriminator, nested type: no state change
        pure (if c.state == "TYPE" then { c with typeDepth := c.typeDepth + 1, log := c.log ++ ["+" ++ name] }
              else { c with log := c.log ++ ["+" ++ name] })
    | none =>
      -- unknown element: warning (unless the name has a silent prefix), then PASSTHROUGH
      let tag := if silentPrefix name then "." ++ name else "?" ++ name ++ "@" ++ c.state
      stateSwitch { c with log := c.log ++ [tag] } "PASSTHROUGH"

/-- the regular rows of end_element_handler — (state, end tags ignored, end tags required, pops a
    node, next state) — are taken from the table re-extracted from girparser.c; the three constant
    states share one `case` group with an inner switch and are written out here
    (compared with the source by C15_model_shape) -/
def simpleEnds : List (String × List String × List String × Bool × String) :=
  Gen.c15CEndSimple ++ [
    ("NAMESPACE_CONSTANT", ["type"], ["constant"], true, "NAMESPACE"),
    ("CLASS_CONSTANT", ["type"], ["constant"], false, "CLASS"),
    ("INTERFACE_CONSTANT", ["type"], ["constant"], false, "INTERFACE")]

/-- the state an embedding node brings the parser back to (end of STATE_FUNCTION) -/
def stateOfNode : String → Option String
  | "INTERFACE" => some "INTERFACE"
  | "OBJECT" => some "CLASS"
  | "BOXED" => some "BOXED"
  | "STRUCT" => some "STRUCT"
  | "UNION" => some "UNION"
  | "ENUM" => some "ENUM"
  | "FLAGS" => some "ENUM"
  | _ => none

/-- end_element_handler -/
def endEv (c : Ctx) (name : String) : Except String Ctx :=
  if c.state = "PASSTHROUGH" then
    match c.depth with
    | 0 => .error "assertion failed: (ctx->unknown_depth >= 0)"
    | 1 => stateSwitch { c with depth := 0 } c.prev
    | d + 1 => .ok { c with depth := d }
  else if c.state = "TYPE" then
    if name == "type" || name == "array" || name == "varargs" then
      -- end_type
      if c.typeDepth == 1 then stateSwitch { c with typeDepth := 0 } c.prev
      else .ok { c with typeDepth := c.typeDepth - 1 }
    else .ok c
  else if c.state = "ATTRIBUTE" then
    if name == "attribute" then stateSwitch c c.prev else .ok c
  else if c.state = "FUNCTION" then
    match c.stack with
    | [] => .error "pop_node: empty node stack"
    | _ :: rest =>
      let c1 := { c with stack := rest }
      match rest with
      | [] => stateSwitch c1 "NAMESPACE"
      | top :: _ =>
        if c1.embedded != "NONE" then do
          let c2 ← stateSwitch c1 c1.embedded
          pure { c2 with embedded := "NONE" }
        else match stateOfNode top with
          | some s => stateSwitch c1 s
          | none => .error s!"Unexpected end tag '{name}'"
  else if c.state = "STRUCT" || c.state = "UNION" then
    let want := if c.state = "STRUCT" then "record" else "union"
    if name != want then .error s!"Unexpected end tag '{name}'"
    else
      -- state_switch_end_struct_or_union
      match c.stack with
      | [] => .error "pop_node: empty node stack"
      | _ :: rest =>
        let c1 := { c with stack := rest }
        match rest with
        | [] => stateSwitch c1 "NAMESPACE"
        | top :: _ =>
          if top == "STRUCT" then stateSwitch c1 "STRUCT"
          else if top == "UNION" then stateSwitch c1 "UNION"
          else if top == "OBJECT" then stateSwitch c1 "CLASS"
          else .error s!"Unexpected end tag '{name}'"
  else if c.state = "START" || c.state = "END" then .ok c
  else
    match simpleEnds.find? (fun r => r.1 == c.state) with
    | some (_, stay, req, pop, next) =>
      if stay.contains name then .ok c
      else if !req.isEmpty && !req.contains name then .error s!"Unexpected end tag '{name}'"
      else
        match pop, c.stack with
        | true, [] => .error "pop_node: empty node stack"
        | true, _ :: rest => stateSwitch { c with stack := rest } next
        | false, _ => stateSwitch c next
    | none => .error s!"Unhandled state {c.state} in end_element_handler"

def step (c : Ctx) : Ev → Except String Ctx
  | .start n h i => startEv c n h i
  | .stop n => endEv c n

/-- the event loop: the first error stops the parse -/
def run (c : Ctx) : List Ev → Except String Ctx
  | [] => .ok c
  | e :: es => match step c e with
    | .ok c' => run c' es
    | .error m => .error m

/-- the state after each event (what cdrivers/c15_states.c prints for the real parser) -/
def trace (c : Ctx) : List Ev → List (String × String × Nat × Nat)
  | [] => []
  | e :: es => match step c e with
    | .ok c' => (c'.state, c'.prev, c'.depth, c'.stack.length) :: trace c' es
    | .error m => [("ERROR: " ++ m, "", 0, 0)]

/-! ### the vocabulary contract, executable

  The checkers are written once, over any type of names `α`: they run on the readable string
  tables (driver, `#eval`) and on the number-coded copies of the same tables (the `decide`
  obligations of Props/C15.lean; `code` is the coding). -/

/-- a name as a number: 1, then its (UTF-8) bytes, base 256 (the translators use the same coding; all
    names are ASCII).  Written over the byte array because that is what the kernel evaluates fastest
    for a string literal. -/
def code (s : String) : Nat := s.toUTF8.data.foldl (fun a b => a * 256 + b.toNat) 1

section Contract
variable {α : Type} [BEq α]

/-! The checkers work on tables GROUPED by their first component (`groupAdj`): a table is searched in two
    short steps (the group, then the entry) — that is the form the kernel evaluates in seconds.  They take
    the tables as plain arguments. -/

/-- runs of adjacent equal keys: [(k, v)] ↦ [(k, [v…])] (the translators group the number-coded tables the same way) -/
def groupAdj {β : Type} : List (α × β) → List (α × List β)
  | [] => []
  | (k, v) :: rest =>
    match groupAdj rest with
    | (k', vs) :: gs => if k == k' then (k, v :: vs) :: gs else (k, [v]) :: (k', vs) :: gs
    | [] => [(k, [v])]

/-- the entries of key `k` (of its first group) -/
def entries {β : Type} : List (α × List β) → α → List β
  | [], _ => []
  | (k', vs) :: gs, k => if k' == k then vs else entries gs k

def hasEntry (t : List (α × List α)) (k v : α) : Bool := (entries t k).contains v

/-- a row of the parser table of one state: element, handler, needsNode, prelude, switch, target, push -/
abbrev RowG (α : Type) := α × α × Bool × Bool × Bool × α × Bool

/-- the grouped parser table: state ↦ rows -/
abbrev AcceptG (α : Type) := List (α × List (RowG α))

/-- the row start_element_handler ends up with for element `el` among the rows of the current state -/
def lookupRow : List (RowG α) → α → Bool → Option (RowG α)
  | [], _, _ => none
  | r :: rs, el, hasNode => if r.1 == el && (!r.2.2.1 || hasNode) then some r else lookupRow rs el hasNode

def lookupG (accept : AcceptG α) (st el : α) (hasNode : Bool) : Option (RowG α) :=
  lookupRow (entries accept st) el hasNode

/-- a place of the walk: writer element `elem` just entered, the parser then in `state`, node stack (non-)empty -/
structure Visit (α : Type) where
  elem : α
  state : α
  hasNode : Bool
  deriving Repr, DecidableEq, BEq

inductive OffKind where
  | unknown       -- "element … from state … is unknown, ignoring" (warning, subtree skipped)
  | selfSwitch    -- the handler calls state_switch to the state the parser is already in (g_assert aborts)
  deriving Repr, DecidableEq, BEq

structure Offence (α : Type) where
  state : α
  parent : α
  child : α
  kind : OffKind
  deriving Repr, DecidableEq, BEq

/-- what one child `ch` of a visited element does: an offence, and/or a new place to visit, and the
    (element, handler) pair when a start_* function reads its attributes (elements dropped by name have no
    handler reading their attributes; start_instance_parameter reads them and then skips the subtree) -/
structure Step (α : Type) where
  off : Option (Offence α)
  next : Option (Visit α)
  handler : Option (α × α)
  deriving Repr

def stepChild (rows : List (RowG α)) (silent : List α) (passthrough instanceParameter : α) (v : Visit α) (ch : α) :
    Step α :=
  match lookupRow rows ch v.hasNode with
  | some r =>
    let h := r.2.1
    let prelude := r.2.2.2.1
    let switch := r.2.2.2.2.1
    let target := r.2.2.2.2.2.1
    let push := r.2.2.2.2.2.2
    if target == passthrough then
      -- skipped together with its subtree, by design
      ⟨none, none, if !prelude && !(h == instanceParameter) then none else some (ch, h)⟩
    else if switch && target == v.state then ⟨some ⟨v.state, v.elem, ch, .selfSwitch⟩, none, some (ch, h)⟩
    else ⟨none, some ⟨ch, target, v.hasNode || push⟩, some (ch, h)⟩
  | none =>
    if silent.contains ch then ⟨none, none, none⟩
    else ⟨some ⟨v.state, v.elem, ch, .unknown⟩, none, none⟩

/-- all steps from one place -/
def stepsOf (children : List (α × List α)) (accept : AcceptG α) (silent : List α) (passthrough instanceParameter : α)
    (v : Visit α) : List (Step α) :=
  (entries children v.elem).map (stepChild (entries accept v.state) silent passthrough instanceParameter v)

/-- all steps from the places in `R` -/
def walkG (children : List (α × List α)) (accept : AcceptG α) (silent : List α) (passthrough instanceParameter : α)
    (R : List (Visit α)) : List (Step α) :=
  R.flatMap (stepsOf children accept silent passthrough instanceParameter)

/-- the places the walk reaches, breadth first from `work` (for the driver; Props/C15.lean checks a literal
    copy of this list to be an inductive invariant of the walk in one pass) -/
def reachG (children : List (α × List α)) (accept : AcceptG α) (silent : List α) (passthrough instanceParameter : α) :
    Nat → List (Visit α) → List (Visit α) → List (Visit α)
  | 0, _, seen => seen.reverse
  | _, [], seen => seen.reverse
  | fuel + 1, v :: work, seen =>
    if seen.contains v then reachG children accept silent passthrough instanceParameter fuel work seen
    else reachG children accept silent passthrough instanceParameter fuel
      (work ++ (stepsOf children accept silent passthrough instanceParameter v).filterMap (·.next)) (v :: seen)

/-- `R` contains the starting place and is closed under "enter a child element" -/
def closedOf (start : Visit α) (R : List (Visit α)) (steps : List (Step α)) : Bool :=
  R.contains start && steps.all fun s => match s.next with
    | some w => R.contains w
    | none => true

/-- the offences met (first occurrence order, no duplicates) -/
def offOf (steps : List (Step α)) : List (Offence α) := (steps.filterMap (·.off)).eraseDups

/-- (element, handler) pairs met: which start_* function reads the attributes of which written element -/
def handlersOfSteps (steps : List (Step α)) : List (α × α) := (steps.filterMap (·.handler)).eraseDups

/-- the whole walk in one evaluation: (R is closed, offences, handlers) -/
def summaryG (children : List (α × List α)) (accept : AcceptG α) (silent : List α) (passthrough instanceParameter : α)
    (start : Visit α) (R : List (Visit α)) : Bool × List (Offence α) × List (α × α) :=
  let steps := walkG children accept silent passthrough instanceParameter R
  (closedOf start R steps, offOf steps, handlersOfSteps steps)

/-- (element, handler, attribute) written by the scanner and not fetched by the handler -/
def unfetchedG (attrs fetched : List (α × List α)) (hs : List (α × α)) : List (α × α × α) :=
  hs.flatMap fun (el, h) =>
    let f := entries fetched h
    ((entries attrs el).filter fun a => !f.contains a).map fun a => (el, h, a)

/-- a value is recognised when it is one of the literals the handler compares with; an attribute
    compared with the single literal "1" (or "0") is two-valued and both "0" and "1" are decided by it -/
def recognised (zero one : α) (lits : List (α × Bool)) (v vLower : α) : Bool :=
  lits.any (fun l => if l.2 then l.1 == vLower else l.1 == v) ||
  ((v == zero || v == one) && (lits.map (·.1) == [one] || lits.map (·.1) == [zero]))

/-- (element, handler, attribute, value): enumerated values the writer can produce for an attribute
    whose values the handler distinguishes by literal comparison, and that match none of them
    (attributes that can also carry free-form text, like the `name` of a type, are not enumerations).
    values: element ↦ (attribute, value, lower-cased value); literals: handler ↦ (attribute, literal, caseless) -/
def offValuesG (values : List (α × List (α × α × α))) (dynamic : List (α × List α))
    (literals : List (α × List (α × α × Bool))) (zero one : α) (hs : List (α × α)) : List (α × α × α × α) :=
  hs.flatMap fun (el, h) =>
    let dyn := entries dynamic el
    let lits := entries literals h
    ((entries values el).filter fun x => !dyn.contains x.1).filterMap fun x =>
      let ls := (lits.filter fun l => l.1 == x.1).map fun l => (l.2.1, l.2.2)
      if ls.isEmpty || recognised zero one ls x.2.1 x.2.2 then none else some (el, h, x.1, x.2.1)

end Contract

def lower (s : String) : String := s.map Char.toLower

/-- all element names the writer knows -/
def writtenElements : List String := (Gen.c15PyChildren.map (·.2)).eraseDups

/-- written element names for which the unknown-element warning is suppressed -/
def silentS : List String := writtenElements.filter silentPrefix

/-! the string tables, grouped (what the number-coded grouped tables of Gen are the coding of) -/

def childrenS : List (String × List String) := groupAdj Gen.c15PyChildren
def attrsS : List (String × List String) := groupAdj Gen.c15PyAttrs
def valuesS : List (String × List (String × String × String)) :=
  groupAdj (Gen.c15PyValues.map fun x => (x.1, x.2.1, x.2.2, lower x.2.2))
def dynamicS : List (String × List String) := groupAdj Gen.c15PyDynamic
def acceptS : AcceptG String :=
  groupAdj (Gen.c15CAccept.map fun r => (r.1, r.2.1, r.2.2.1, r.2.2.2.1, r.2.2.2.2.1, r.2.2.2.2.2.1, r.2.2.2.2.2.2.1, r.2.2.2.2.2.2.2))
def fetchedS : List (String × List String) := groupAdj Gen.c15CFetched
def literalsS : List (String × List (String × String × Bool)) :=
  groupAdj (Gen.c15CLiterals.map fun l => (l.1, l.2.1, if l.2.2.2 then lower l.2.2.1 else l.2.2.1, l.2.2.2))

def keysDistinct {β : Type} (t : List (String × β)) : Bool :=
  (t.map (·.1)).eraseDups.length == t.length

def rncS : List (String × List String) := groupAdj Gen.c15RncValues

/-- enumerated values the writer can produce that docs/gir-1.2.rnc does not allow for that attribute:
    (element, attribute, value) with the attribute an enumeration of the schema, the value not in it
    (attributes that can also carry free-form text are not judged) -/
def notInSchemaG {α : Type} [BEq α] (values : List (α × List (α × α × α))) (dynamic : List (α × List α))
    (rnc : List (α × List α)) : List (α × α × α) :=
  values.flatMap fun g =>
    let dyn := entries dynamic g.1
    g.2.filterMap fun x =>
      let allowed := entries rnc x.1
      if allowed.isEmpty || allowed.contains x.2.1 || dyn.contains x.1 then none else some (g.1, x.1, x.2.1)

def codeVisit (v : Visit String) : Visit Nat := ⟨code v.elem, code v.state, v.hasNode⟩
def codeOffence (o : Offence String) : Offence Nat := ⟨code o.state, code o.parent, code o.child, o.kind⟩
def code2 (x : String × String) : Nat × Nat := (code x.1, code x.2)
def code3 (x : String × String × String) : Nat × Nat × Nat := (code x.1, code x.2.1, code x.2.2)
def code4 (x : String × String × String × String) : Nat × Nat × Nat × Nat :=
  (code x.1, code x.2.1, code x.2.2.1, code x.2.2.2)
def codeRow (r : RowG String) : RowG Nat :=
  (code r.1, code r.2.1, r.2.2.1, r.2.2.2.1, r.2.2.2.2.1, code r.2.2.2.2.2.1, r.2.2.2.2.2.2)
def codeG {β γ : Type} (f : β → γ) (t : List (String × List β)) : List (Nat × List γ) :=
  t.map fun g => (code g.1, g.2.map f)

/-- the number-coded grouped tables of Gen ARE the string tables, coded and grouped (evaluated by the
    compiled driver on every run, op c15.coded; in the kernel this comparison would take minutes) -/
def tablesCoded : List (String × Bool) := [
  ("c15PyChildrenG", Gen.c15PyChildrenG == codeG code childrenS),
  ("c15PyAttrsG", Gen.c15PyAttrsG == codeG code attrsS),
  ("c15PyValuesG", Gen.c15PyValuesG == codeG code3 valuesS),
  ("c15PyDynamicG", Gen.c15PyDynamicG == codeG code dynamicS),
  ("c15CAcceptG", Gen.c15CAcceptG == codeG codeRow acceptS),
  ("c15CFetchedG", Gen.c15CFetchedG == codeG code fetchedS),
  ("c15CLiteralsG", Gen.c15CLiteralsG == codeG (fun l => (code l.1, code l.2.1, l.2.2)) literalsS),
  ("c15RncValuesG", Gen.c15RncValuesG == codeG code rncS),
  -- every key has ONE group (`entries` reads the first): the flat tables are sorted / state-major
  ("keys distinct", keysDistinct childrenS && keysDistinct attrsS && keysDistinct valuesS && keysDistinct dynamicS
      && keysDistinct acceptS && keysDistinct fetchedS && keysDistinct literalsS && keysDistinct rncS)]

/-! for the driver and `#eval`: the walk and the offences in readable form -/

def startVisit : Visit String := ⟨"", "START", false⟩

def reachable : List (Visit String) :=
  reachG childrenS acceptS silentS "PASSTHROUGH" "start_instance_parameter" 4000 [startVisit] []

def summaryS : Bool × List (Offence String) × List (String × String) :=
  summaryG childrenS acceptS silentS "PASSTHROUGH" "start_instance_parameter" startVisit reachable

def offElements : List (Offence String) := summaryS.2.1

def handlersOf : List (String × String) := summaryS.2.2

def unfetched : List (String × String × String) := unfetchedG attrsS fetchedS handlersOf

def offValues : List (String × String × String × String) :=
  offValuesG valuesS dynamicS literalsS "0" "1" handlersOf

def notInSchema : List (String × String × String) := notInSchemaG valuesS dynamicS rncS

end GIVerif.GirConsume
