/-
  C01 model: how parameter / return-value annotations become GIR attributes.

  Mirrors (one Lean def per Python function, same branch order):
    giscanner/annotationparser.py  GtkDocAnnotatable.validate, _validate_annotation,
                                   _do_validate_array                      (`validatePart`)
    giscanner/maintransformer.py   _resolve / grab_one / combiner / _resolve_toplevel
                                   _is_pointer_type, _apply_transfer_annotation,
                                   _get_transfer_default(_param), _adjust_container_type,
                                   _apply_annotations_array, _apply_annotations_element_type,
                                   _check_array_element_type,
                                   _apply_annotations_param_ret_common      (`commonStep`)
                                   _apply_annotations_param_callback / _closure (`callbackStep`, `closureStep`)
                                   _apply_annotations_params / _return / _signal (`applyCallable`)
                                   _setup_method (instance split), _check_instance_parameter,
                                   _pass3_callable_callbacks, _pass3_callable_throws (`finish`)
    giscanner/girwriter.py         _write_parameter, _write_return_type, _write_type (`write`)

  NOT modelled (explicit inputs, supplied by the harness from the live objects):
    * the state of every node when `_apply_annotations_callable` is entered (C02's domain:
      C type -> GI type, transfer defaults) and `TInfo.retDef`, what
      `_get_transfer_default_return` answers for a type (needed only when a return value's
      direction is toggled);
    * namespace lookup: `env` maps every identifier of a `(type)`/`(element-type)` string to what
      `Transformer.create_type_from_user_string` returns, `TClass` is what
      `lookup_typenode` + `resolve_aliases` returns for a type;
    * whether a function is paired as a method (`split`; C04's domain).
-/
import GIVerif.Py.Str
import GIVerif.Gen.ParamAnn

namespace GIVerif.ParamAnn
open GIVerif.Py

abbrev G (s : String) : Str := s.toList

/-! ### data -/

inductive Dir where
  | unset | in_ | out | inout
  deriving DecidableEq, Repr, Inhabited

def Dir.str : Dir → Option Str
  | .unset => none
  | .in_ => some (G Gen.ParamAnn.dirIn)
  | .out => some (G Gen.ParamAnn.dirOut)
  | .inout => some (G Gen.ParamAnn.dirInout)

/-- what `lookup_typenode` followed by `resolve_aliases` returns for a type -/
inductive TClass where
  | none | klass | iface | record | union | boxed | enum | flags
  | callback (giName : Str)
  | fund (name : Str) (ctype : Option Str)   -- alias chain ended in an `ast.type_names` entry
  | other
  deriving DecidableEq, Repr, Inhabited

structure TInfo where
  ctype : Option Str := none
  cctype : Option Str := none
  isConst : Bool := false
  retDef : Option Str := none
  deriving DecidableEq, Repr, Inhabited

inductive Ty where
  | leaf (fund : Option Str) (giname : Option Str) (cls : TClass) (i : TInfo)
  | array (kind : Str) (elem : Ty) (zt : Bool) (size : Option Int) (length : Option Str) (i : TInfo)
  | list (name : Option Str) (elem : Ty) (i : TInfo)
  | map (k v : Ty) (i : TInfo)
  | varargs
  deriving Repr, Inhabited

def Ty.info : Ty → TInfo
  | .leaf _ _ _ i => i
  | .array _ _ _ _ _ i => i
  | .list _ _ i => i
  | .map _ _ i => i
  | .varargs => { ctype := some (G "<varargs>") }

def Ty.setInfo : Ty → TInfo → Ty
  | .leaf f g c _, i => .leaf f g c i
  | .array k e z s l _, i => .array k e z s l i
  | .list n e _, i => .list n e i
  | .map k v _, i => .map k v i
  | .varargs, _ => .varargs

def Ty.fundamental : Ty → Option Str
  | .leaf f _ _ _ => f
  | .array .. => some (G "<array>")
  | .list .. => some (G "<list>")
  | .map .. => some (G "<map>")
  | .varargs => some (G "<varargs>")

def Ty.giname : Ty → Option Str
  | .leaf _ g _ _ => g
  | _ => none

def Ty.cls : Ty → TClass
  | .leaf _ _ c _ => c
  | _ => .none

def Ty.isArray : Ty → Bool
  | .array .. => true
  | _ => false

def Ty.isContainer : Ty → Bool
  | .array .. => true
  | .list .. => true
  | .map .. => true
  | _ => false

/-- `Type.resolved` -/
def Ty.resolved (t : Ty) : Bool := t.fundamental.isSome || t.giname.isSome

/-- `t == TYPE_X` (`Type._compare` dispatches on the fields of the LEFT operand) -/
def Ty.eqConst (t : Ty) (fund ctype : Str) : Bool :=
  match t.fundamental with
  | some f => f == fund
  | none =>
    match t.giname with
    | some _ => false
    | none => t.info.ctype == some ctype

/-- `t in [TYPE_A, TYPE_B, ...]`: `list.__contains__` evaluates `item == t`, items are
    fundamentals, so only `t.target_fundamental` is compared -/
def Ty.inFunds (t : Ty) (names : List String) : Bool :=
  match t.fundamental with
  | some f => names.any (fun n => G n == f)
  | none => false

def Ty.isAny (t : Ty) : Bool := t.eqConst (G Gen.ParamAnn.typeAny) (G "gpointer")
def Ty.isNone (t : Ty) : Bool := t.eqConst (G Gen.ParamAnn.typeNone) (G "void")

structure Node where
  name : Str := []
  isRet : Bool := false
  dir : Dir := .unset
  callerAllocates : Bool := false
  transfer : Option Str := none
  nullable : Bool := false
  notNullable : Bool := false
  optional : Bool := false
  skip : Bool := false
  scope : Option Str := none
  closure : Option Str := none
  destroy : Option Str := none
  attrs : List (Str × Str) := []
  ty : Ty := .varargs
  deriving Repr, Inhabited

/-- the annotations of one comment-block part, as the parser stores them
    (`None`-valued options of unknown annotations are not distinguished from `[]`) -/
structure Anns where
  allowNone : Option (List Str) := none
  nullable : Option (List Str) := none
  optional : Option (List Str) := none
  not_ : Option (List Str) := none
  in_ : Option (List Str) := none
  out : Option (List Str) := none
  inout : Option (List Str) := none
  skip : Option (List Str) := none
  transfer : Option (List Str) := none
  type_ : Option (List Str) := none
  elementType : Option (List Str) := none
  scope : Option (List Str) := none
  closure : Option (List Str) := none
  destroy : Option (List Str) := none
  array : Option (List (Str × Option Str)) := none
  attributes : Option (List (Str × Option Str)) := none
  others : List Str := []
  deriving Repr, Inhabited

def Anns.empty : Anns := {}

/-- `bool(annotations)` -/
def Anns.nonEmpty (a : Anns) : Bool :=
  a.allowNone.isSome || a.nullable.isSome || a.optional.isSome || a.not_.isSome || a.in_.isSome
  || a.out.isSome || a.inout.isSome || a.skip.isSome || a.transfer.isSome || a.type_.isSome
  || a.elementType.isSome || a.scope.isSome || a.closure.isSome || a.destroy.isSome
  || a.array.isSome || a.attributes.isSome || !a.others.isEmpty

inductive Pos where
  | ann (part : Str)     -- `annotations.position` of the part (lost on a continuation line)
  | part (part : Str)    -- the part's own position
  | nowhere              -- `message.warn(text)` without a position
  | parent               -- the callable's declaration
  | block                -- the comment block
  | owner                -- the declaration of the class that owns the signal
  deriving DecidableEq, Repr

structure Warning where
  ann : Str
  pos : Pos
  deriving DecidableEq, Repr

inductive Fail where
  | fatal (what : Str)    -- `message.log_node(FATAL, ...)`: SystemExit
  | raises (what : Str)   -- uncaught Python exception
  deriving DecidableEq, Repr

abbrev M := Except Fail

/-! ### annotationparser: `GtkDocAnnotatable.validate` -/

def pyDigits : Str → Bool
  | [] => false
  | [c] => isAsciiDigit c
  | c :: '_' :: d :: rest => isAsciiDigit c && pyDigits (d :: rest)
  | c :: rest => isAsciiDigit c && pyDigits rest

/-- `int(s)` for ASCII input: optional sign, digits, single underscores between digits -/
def pyInt? (s : Str) : Option Int :=
  let body (ds : Str) : Option Nat :=
    if pyDigits ds then some ((ds.filter isAsciiDigit).foldl (fun n c => 10 * n + (c.toNat - 48)) 0) else none
  match s with
  | '-' :: ds => (body ds).map (fun n => -(n : Int))
  | '+' :: ds => (body ds).map (fun n => (n : Int))
  | ds => (body ds).map (fun n => (n : Int))

abbrev VRow := String × String × Option Nat × Option Nat × Option Nat × Option (List String)

/-- `_validate_annotation`: number of warnings -/
def validateGeneric (row : VRow) (opts : List Str) : Nat :=
  let n := opts.length
  let (_, _, exact, mn, mx, choices) := row
  (match exact with | some e => if n != e then 1 else 0 | none => 0)
  + (match mn with | some e => if n < e then 1 else 0 | none => 0)
  + (match mx with | some e => if n > e then 1 else 0 | none => 0)
  + (match opts, choices with
     | o :: _, some ch => if ch.any (fun c => G c == o) then 0 else 1
     | _, _ => 0)

/-- `_do_validate_array`: one warning per bad option -/
def validateArrayOpt (kv : Str × Option Str) : Nat :=
  if kv.1 == G Gen.ParamAnn.optArrayFixedSize then
    match kv.2 with
    | none => 1
    | some v => if (pyInt? v).isSome then 0 else 1
  else if kv.1 == G Gen.ParamAnn.optArrayZeroTerminated then
    match kv.2 with
    | none => 0
    | some v => if v == G "0" || v == G "1" then 0 else 1
  else if kv.1 == G Gen.ParamAnn.optArrayLength then
    match kv.2 with
    | none => 1
    | some _ => 0
  else 1

def findRow (table : List VRow) (name : Str) : Option VRow := table.find? (fun r => G r.1 == name)

/-- warnings `validate()` emits for one list-valued annotation `name` with options `opts` -/
def validateList (table : List VRow) (name : Str) (opts : List Str) : Nat :=
  match findRow table name with
  | some row => if row.2.1 == "generic" then validateGeneric row opts else 0
  | none => 1     -- "unexpected annotation" / "unknown annotation"

def validateDict (table : List VRow) (name : Str) (opts : List (Str × Option Str)) : Nat :=
  match findRow table name with
  | some row =>
    if row.2.1 == "array" then (opts.map validateArrayOpt).foldl (· + ·) 0
    else if row.2.1 == "generic" then validateGeneric row (opts.map (·.1)) else 0
  | none => 1

def rep (n : Nat) (w : Warning) : List Warning := List.replicate n w

/-- `GtkDocParameter.validate` / `GtkDocTag.validate` for one part; every warning carries the
    annotation it is about and sits at `annotations.position` -/
def validatePart (table : List VRow) (part : Str) (a : Anns) : List Warning :=
  let w (name : String) (n : Nat) : List Warning := rep n ⟨G name, .ann part⟩
  let l (name : String) (o : Option (List Str)) : List Warning :=
    match o with | some opts => w name (validateList table (G name) opts) | none => []
  let d (name : String) (o : Option (List (Str × Option Str))) : List Warning :=
    match o with | some opts => w name (validateDict table (G name) opts) | none => []
  let notW : List Warning :=
    match a.not_ with
    | some opts =>
      (if opts.contains (G Gen.ParamAnn.optNotNullable) then
        (if a.nullable.isSome then w "not" 1 else []) ++ (if a.allowNone.isSome then w "not" 1 else [])
       else [])
      ++ (if opts.contains (G Gen.ParamAnn.optNotOptional) && a.optional.isSome then w "not" 1 else [])
    | none => []
  l "allow-none" a.allowNone ++ l "nullable" a.nullable ++ l "optional" a.optional
  ++ l "not" a.not_ ++ notW ++ l "in" a.in_ ++ l "out" a.out ++ l "inout" a.inout ++ l "skip" a.skip
  ++ l "transfer" a.transfer ++ l "type" a.type_ ++ l "element-type" a.elementType
  ++ l "scope" a.scope ++ l "closure" a.closure ++ l "destroy" a.destroy
  ++ d "array" a.array ++ d "attributes" a.attributes
  ++ a.others.flatMap (fun n => [⟨n, .ann part⟩])

/-! ### `_resolve` (grammar only; identifiers are looked up in `env`) -/

abbrev Env := List (Str × Option Ty)

def isSepChar (c : Char) : Bool := c == ',' || c == '<' || c == '>' || c == '(' || c == ')'

/-- `re.split(r'([,<>()])', s, 1)` -/
def splitFirstSep (s : Str) : Str × Option (Char × Str) :=
  let first := s.takeWhile (fun c => !isSepChar c)
  match s.dropWhile (fun c => !isSepChar c) with
  | [] => (first, none)
  | c :: rest => (first, some (c, rest))

/-- `resolver(ident)` = `create_type_from_user_string(ident)` -/
def resolver (env : Env) (ident : Str) : M Ty :=
  match env.find? (fun e => e.1 == ident) with
  | some (_, some t) => .ok t
  | some (_, none) => .error (.raises (G "create_type_from_user_string"))
  | none => .error (.raises (G "env: identifier not supplied"))

/-- `combiner(base, *rest)`; the Bool says "Too many parameters" was warned -/
def combiner (base : Ty) (rest : List Ty) : Ty × Bool :=
  match rest with
  | [] => (base, false)
  | _ =>
    match base, rest with
    | .list n _ _, [e] => (.list n e {}, false)
    | .array k _ z s l i, [e] => (.array k e z s l i, false)
    | .map _ _ _, [k, v] => (.map k v {}, false)
    | _, _ => (base, true)

mutual
/-- `grab_one`; returns (type, trailing string, number of "Too many parameters" warnings) -/
def grabOne (env : Env) (constOf : Option Bool) : Nat → Str → M (Ty × Str × Nat)
  | 0, _ => .error (.raises (G "fuel"))
  | fuel + 1, s => do
    let (first, more) := splitFirstSep s
    let base ← resolver env first
    let base := match constOf with
      | some c => base.setInfo { base.info with isConst := c }
      | none => base
    match more with
    | some (sep, rest) =>
      if sep == '<' || sep == '(' then
        let last := if sep == '<' then '>' else ')'
        let (args, rest', n) ← grabArgs env last fuel rest
        let (t, many) := combiner base args
        pure (t, rest', n + (if many then 1 else 0))
      else
        pure (base, sep :: rest, 0)
    | none => pure (base, [], 0)

/-- the `while sep != lastsep` loop -/
def grabArgs (env : Env) (last : Char) : Nat → Str → M (List Ty × Str × Nat)
  | 0, _ => .error (.raises (G "fuel"))
  | fuel + 1, s => do
    let (t, rest, n) ← grabOne env none fuel s
    match rest with
    | [] => .error (.raises (G "IndexError: string index out of range"))
    | sep :: rest' =>
      if sep == last then pure ([t], rest', n)
      else do
        let (ts, rest'', m) ← grabArgs env last fuel rest'
        pure (t :: ts, rest'', n + m)
end

/-- `_resolve(type_str, type_node, node, parent)`; `unknownPos` is where "Unknown type" goes -/
def resolve (env : Env) (ann : Str) (unknownPos : Pos) (typeStr : Str) (orig : Ty) : M (Ty × List Warning) := do
  let (t, rest, many) ← grabOne env (some orig.info.isConst) (2 * typeStr.length + 2) typeStr
  let w1 := rep many ⟨ann, .nowhere⟩
  let w2 := if rest.isEmpty then [] else [⟨ann, .nowhere⟩]
  let w3 := if t.resolved then [] else [⟨ann, unknownPos⟩]
  pure (t, w1 ++ w2 ++ w3)

/-- `_resolve_toplevel`: keep the C type of the node -/
def resolveToplevel (env : Env) (ann : Str) (unknownPos : Pos) (typeStr : Str) (orig : Ty) : M (Ty × List Warning) := do
  let (t, ws) ← resolve env ann unknownPos typeStr orig
  let t1 := t.setInfo { t.info with ctype := orig.info.ctype, cctype := orig.info.cctype }
  -- `if not result.resolved and result.ctype is None and result.gtype_name is None: result.ctype = type_str`
  -- (a type made from an annotation string never has a gtype_name)
  let t2 := if !t1.resolved && t1.info.ctype.isNone then t1.setInfo { t1.info with ctype := some typeStr } else t1
  pure (t2, ws)

/-! ### validity predicates of the transformer -/

def isOutish (d : Dir) : Bool := d == .out || d == .inout

/-- the `target` variable: the looked-up node, or the type itself when the lookup gives None -/
def targetIsType (t : Ty) : Bool :=
  match t.cls with
  | .none => true
  | .fund _ _ => true
  | _ => false

/-- `_is_pointer_type(node, annotations)`; a basic type without a C type (a `(type)` override of a signal
    parameter) is not a pointer (d9df372; `None.endswith` before) -/
def isPointerType (isRet : Bool) (d : Dir) (t : Ty) : M Bool :=
  if !isRet && isOutish d then .ok true
  else
    match t.cls with
    | .none =>
      if !t.inFunds Gen.ParamAnn.basicTypes then .ok true
      else match t.info.ctype with
        | some c => .ok (endsWith c ['*'])
        | none => .ok false
    | .fund f c =>
      if !(Gen.ParamAnn.basicTypes.any (fun n => G n == f)) then .ok true
      else match c with
        | some c => .ok (endsWith c ['*'])
        | none => .ok false
    | _ => .ok true

/-- `_get_transfer_default(parent, node)` -/
def transferDefault (isRet : Bool) (d : Dir) (callerAllocates : Bool) (t : Ty) : Option Str :=
  if t.isNone || (match t with | .varargs => true | _ => false) then some (G Gen.ParamAnn.transferNone)
  else if isRet then
    (if t.info.isConst then some (G Gen.ParamAnn.transferNone) else t.info.retDef)
  else if isOutish d then
    (if callerAllocates then some (G Gen.ParamAnn.transferNone) else some (G Gen.ParamAnn.transferFull))
  else some (G Gen.ParamAnn.transferNone)

def isClassLike (c : TClass) : Bool := c == .klass || c == .iface

/-- `node_type.target_giname` where `node_type = target if isinstance(target, Type) else node.type` -/
def nodeTypeGiname (t : Ty) : Option Str :=
  match t.cls with
  | .fund _ _ => none
  | _ => t.giname

def nodeTypeIsString (t : Ty) : Bool :=
  match t.cls with
  | .fund f _ => f == G Gen.ParamAnn.typeString || f == G Gen.ParamAnn.typeFilename
  | _ => t.inFunds [Gen.ParamAnn.typeString, Gen.ParamAnn.typeFilename]

def isCompoundLike (c : TClass) : Bool :=
  c == .record || c == .union || c == .boxed || c == .klass || c == .iface

/-- `_apply_transfer_annotation`: (new transfer, warned?) -/
def transferStep (isRet : Bool) (d : Dir) (t : Ty) (cur : Option Str) (ann : Option (List Str))
    (hasArray : Bool) : M (Option Str × Bool) :=
  match ann with
  | some [tr] =>
    -- `if transfer not in TRANSFER_OPTIONS: return` (already reported by the annotation parser)
    if !(Gen.ParamAnn.transferOptions.any (fun o => G o == tr)) then .ok (cur, false)
    else if tr == G Gen.ParamAnn.optTransferFloating then
      if !isClassLike t.cls && nodeTypeGiname t != some (G "GLib.Variant")
          && nodeTypeGiname t != some (G "GObject.Closure") then .ok (cur, true)
      else .ok (some (G Gen.ParamAnn.optTransferNone), false)
    else if tr == G Gen.ParamAnn.optTransferContainer then
      if !hasArray && !t.isContainer then .ok (cur, true)
      else .ok (some tr, false)
    else do
      let p ← isPointerType isRet d t
      if !p && !nodeTypeIsString t && !t.isContainer && !isCompoundLike t.cls then pure (cur, true)
      else pure (some tr, false)
  | _ => .ok (cur, false)

/-! ### containers -/

def dictGet (d : List (Str × Option Str)) (k : String) : Option (Option Str) :=
  (d.find? (fun kv => kv.1 == G k)).map (·.2)

/-- Python truthiness of `options.get(key)` -/
def dictGetTruthy (d : List (Str × Option Str)) (k : String) : Option Str :=
  match dictGet d k with
  | some (some v) => if v.isEmpty then none else some v
  | _ => none

/-- zero-terminated rule of `_apply_annotations_array` -/
def arrayZeroTerminated (opts : List (Str × Option Str)) : Bool :=
  match dictGet opts Gen.ParamAnn.optArrayZeroTerminated with
  | none => false                 -- `.get(key, '0') == '0'`
  | some (some v) => !(v == G "0")
  | some none => true

def stripStar (c : Option Str) : Option Str :=
  match c with
  | some s => if endsWith s ['*'] then some s.dropLast else some s
  | none => none

def findParam (all : List Node) (name : Str) : Option Node := all.find? (fun p => p.name == name)

/-- `_check_array_element_type`: number of warnings -/
def checkArrayElem (t : Ty) : Nat :=
  match t with
  | .array kind elem _ _ _ _ =>
    (if kind == G Gen.ParamAnn.arrayPtrArray
        && elem.inFunds Gen.ParamAnn.basicGirTypes && !elem.inFunds Gen.ParamAnn.pointerTypes then 1 else 0)
    + (if kind == G Gen.ParamAnn.arrayByteArray && !elem.inFunds Gen.ParamAnn.byteArrayElems then 1 else 0)
  | _ => 0

structure LenEffect where
  target : Str
  dir : Dir
  deriving Repr

/-- `_apply_annotations_array`: (new type, warnings, effect on the length parameter) -/
def arrayStep (env : Env) (unknownPos : Pos) (all : List Node) (d : Dir) (t : Ty) (a : Anns)
    (opts : List (Str × Option Str)) : M (Ty × List Warning × Option LenEffect) := do
  let (elem, ws) ←
    match a.elementType with
    | some (e :: _) => resolve env (G "element-type") unknownPos e t
    | _ =>
      match t with
      | .array _ e _ _ _ _ => pure (e, [])
      | _ =>
        let i := t.info
        -- `node.type.clone()`: an `ast.Type` with the fundamental/giname of the node (containers
        -- clone to their own class, but then the isinstance(Array) branch above was taken for arrays)
        -- `Type.__init__` asserts that an unresolved type has a C type (or a GType name)
        if (match t with | .leaf none none _ li => li.ctype.isNone | _ => false) then
          throw (.raises (G "AssertionError: Type.clone of a type without ctype"))
        pure (match t with
              | .leaf f g c _ => Ty.leaf f g c { ctype := stripStar i.ctype, isConst := i.isConst }
              | .list n e _ => Ty.list n e {}
              | .map k v _ => Ty.map k v {}
              | .varargs => Ty.leaf (some (G "<varargs>")) none .none { ctype := some (G "<varargs>") }
              | other => other, [])
  let kind := match t with | .array k _ _ _ _ _ => k | _ => G Gen.ParamAnn.arrayC
  let i : TInfo := { ctype := t.info.ctype, cctype := t.info.cctype, isConst := t.info.isConst }
  let zt := arrayZeroTerminated opts
  let (len, eff) ←
    match dictGetTruthy opts Gen.ParamAnn.optArrayLength with
    | some l =>
      match findParam all l with
      | some p =>
        -- `if paramname:` an empty argname would be falsy
        if p.name.isEmpty then pure (none, none)
        else pure (some p.name, some (LenEffect.mk p.name d))
      | none => throw (.fatal (G "can't find parameter referenced by length"))
    | none => pure (none, none)
  match dictGetTruthy opts Gen.ParamAnn.optArrayFixedSize with
  | some f =>
    match pyInt? f with
    | some n => pure (.array kind elem zt (some n) len i, ws, eff)
    | none => pure (t, ws, eff)       -- `return` before `node.type = container_type`
  | none => pure (.array kind elem zt none len i, ws, eff)

/-- `_apply_annotations_element_type`: (new type, warnings) -/
def elementTypeStep (env : Env) (unknownPos : Pos) (part : Str) (t : Ty) (opts : List Str) :
    M (Ty × List Warning) :=
  let bad : Ty × List Warning := (t, [⟨G "element-type", .ann part⟩])
  match t with
  | .list n _ i =>
    match opts with
    | [e] => do
      let (et, ws) ← resolve env (G "element-type") unknownPos e t
      pure (.list n et i, ws)
    | _ => pure bad
  | .map _ _ i =>
    match opts with
    | [k, v] => do
      let (kt, ws1) ← resolve env (G "element-type") unknownPos k t
      let (vt, ws2) ← resolve env (G "element-type") unknownPos v t
      pure (.map kt vt i, ws1 ++ ws2)
    | _ => pure bad
  | .array k _ z s l i =>
    match opts with
    | [e] => do
      let (et, ws) ← resolve env (G "element-type") unknownPos e t
      pure (.array k et z s l i, ws)
    | _ => pure bad
  | _ => pure bad

/-- `_adjust_container_type` -/
def containerStep (env : Env) (unknownPos : Pos) (part : Str) (all : List Node) (d : Dir) (t : Ty) (a : Anns) :
    M (Ty × List Warning × Option LenEffect) := do
  let (t', ws, eff) ←
    match a.array with
    | some opts => arrayStep env unknownPos all d t a opts
    | none =>
      match a.elementType with
      | some opts => do
        let (t', ws) ← elementTypeStep env unknownPos part t opts
        pure (t', ws, none)
      | none => pure (t, [], none)
  pure (t', ws ++ rep (checkArrayElem t') ⟨G "element-type", .ann part⟩, eff)

/-! ### `_apply_annotations_param_ret_common` -/

/-- `d[k] = v` on an insertion-ordered dict -/
def dictSet (d : List (Str × Str)) (k v : Str) : List (Str × Str) :=
  if d.any (fun e => e.1 == k) then d.map (fun e => if e.1 == k then (k, v) else e) else d ++ [(k, v)]

/-- the direction an annotation asks for: inout beats out beats in -/
def annotatedDir (a : Anns) : Option Dir :=
  if a.inout.isSome then some .inout
  else if a.out.isSome then some .out
  else if a.in_.isSome then some .in_
  else none

def containsSub (s sub : Str) : Bool :=
  match s with
  | [] => sub.isEmpty
  | _ :: rest => sub.isPrefixOf s || containsSub rest sub

/-- the caller-allocates value computed in the `(out)` branch -/
def outCallerAllocates (a : Anns) (t : Ty) : Bool :=
  if a.inout.isSome then false
  else match a.out with
    | some [] =>
      match t.giname, t.info.ctype with
      | some _, some c =>
        if c.isEmpty then false
        else !containsSub c ['*', '*'] && (t.cls == .record || t.cls == .union)
      | _, _ => false
    | some (o :: _) => o == G Gen.ParamAnn.optOutCallerAllocates
    | none => false

structure StepOut where
  node : Node
  warnings : List Warning
  eff : Option LenEffect

/-- direction, caller-allocates and the transfer the direction toggle leaves behind -/
structure DirOut where
  dir : Dir
  ca : Bool
  tr : Option Str
  deriving Repr

/-- `if annotated_direction is not None and annotated_direction != node.direction: ...` -/
def dirStep (n : Node) (a : Anns) (ty1 : Ty) : DirOut :=
  -- `if isinstance(node, ast.Return): pass`: direction annotations are ignored on return values
  if n.isRet then ⟨n.dir, n.callerAllocates, n.transfer⟩ else
  match annotatedDir a with
  | some d =>
    if d != n.dir then
      ⟨d, outCallerAllocates a ty1, transferDefault n.isRet d (outCallerAllocates a ty1) ty1⟩
    else ⟨n.dir, n.callerAllocates, n.transfer⟩
  | none => ⟨n.dir, n.callerAllocates, n.transfer⟩

structure NullOut where
  nullable : Bool
  notNullable : Bool
  optional : Bool
  warnings : List Warning
  deriving Repr

/-- `OPT_NOT_OPTIONAL in not_annotation` -/
def notOptionalAnn (a : Anns) : Bool :=
  match a.not_ with
  | some o => o.contains (G Gen.ParamAnn.optNotOptional)
  | none => false

/-- a `(not ...)` annotation that is not `(not optional)`: `(not nullable)`, a bare or unknown `(not)` -/
def notNullableAnn (a : Anns) : Bool :=
  match a.not_ with
  | some o => !(o.contains (G Gen.ParamAnn.optNotOptional))
  | none => false

/-- the nullable / optional / allow-none / not block, given the answer `p` of `_is_pointer_type` -/
def nullPure (part : Str) (n : Node) (a : Anns) (dir : Dir) (ty2 : Ty) (p : Bool) : NullOut :=
  let nul0 := if ty2.isAny then true else n.nullable
  let r1 : Bool × Bool × List Warning :=
    match a.nullable with
    | some _ => if p then (true, false, []) else (nul0, n.notNullable, [Warning.mk (G "nullable") (.ann part)])
    | none => (nul0, n.notNullable, [])
  let r2 : Bool × List Warning :=
    match a.optional with
    | some _ =>
      if !n.isRet && isOutish dir then (true, []) else (n.optional, [Warning.mk (G "optional") (.ann part)])
    | none => (n.optional, [])
  let r3 : Bool × Bool × List Warning :=
    match a.allowNone with
    | some _ =>
      if dir == .out && !n.isRet then (r1.1, true, [])
      else if p then (true, r2.1, []) else (r1.1, r2.1, [Warning.mk (G "allow-none") (.ann part)])
    | none => (r1.1, r2.1, [])
  let nul3 :=
    if dir != .out && (ty2.giname == some (G "Gio.AsyncReadyCallback") || ty2.giname == some (G "Gio.Cancellable"))
    then true else r3.1
  let fin : Bool × Bool := if notNullableAnn a then (false, true) else (nul3, r1.2.1)
  { nullable := fin.1, notNullable := fin.2, optional := if notOptionalAnn a then false else r3.2.1,
    warnings := r1.2.2 ++ r2.2 ++ r3.2.2 }

/-- `_is_pointer_type` is only evaluated when (nullable) or the last branch of (allow-none) needs it -/
def needsPointerTest (n : Node) (a : Anns) (dir : Dir) : Bool :=
  a.nullable.isSome || (a.allowNone.isSome && !(dir == .out && !n.isRet))

def nullStep (part : Str) (n : Node) (a : Anns) (dir : Dir) (ty2 : Ty) : M NullOut := do
  let p ← if needsPointerTest n a dir then isPointerType n.isRet dir ty2 else pure true
  pure (nullPure part n a dir ty2 p)

def skipOf (n : Node) (a : Anns) : Bool := if a.skip.isSome then true else n.skip

/-- `node.attributes[key] = value` for every key with a non-empty value -/
def attrsOf (n : Node) (a : Anns) : List (Str × Str) :=
  match a.attributes with
  | some kvs =>
    kvs.foldl (fun acc kv =>
      match kv.2 with
      | some v => if v.isEmpty then acc else dictSet acc kv.1 v
      | none => acc) n.attrs
  | none => n.attrs

def assemble (n : Node) (a : Anns) (d : DirOut) (tr1 : Option Str) (ty2 : Ty) (nl : NullOut) : Node :=
  { n with dir := d.dir, callerAllocates := d.ca, transfer := tr1, nullable := nl.nullable,
           notNullable := nl.notNullable, optional := nl.optional, skip := skipOf n a, attrs := attrsOf n a,
           ty := ty2 }

/-- the `(type)` override at the top of the common step -/
def typeStep (env : Env) (unknownPos : Pos) (n : Node) (a : Anns) : M (Ty × List Warning) :=
  match a.type_ with
  | some (s :: _) => resolveToplevel env (G "type") unknownPos s n.ty
  | _ => pure (n.ty, [])

/-- `_apply_annotations_param_ret_common(parent, node, tag)`; `tag = none` is `tag is None` -/
def commonStep (env : Env) (isFunction : Bool) (all : List Node) (part : Str) (n : Node) (tag : Option Anns) :
    M StepOut := do
  let a := tag.getD Anns.empty
  let unknownPos : Pos := if isFunction then .part part else .parent
  let t1 ← typeStep env unknownPos n a
  let d := dirStep n a t1.1
  let tr ← transferStep n.isRet d.dir t1.1 d.tr a.transfer a.array.isSome
  let cs ← containerStep env unknownPos part all d.dir t1.1 a
  let nl ← nullStep part n a d.dir cs.1
  pure { node := assemble n a d tr.1 cs.1 nl,
         warnings := t1.2 ++ (if tr.2 then [Warning.mk (G "transfer") (.ann part)] else []) ++ cs.2.1 ++ nl.warnings,
         eff := cs.2.2 }

/-! ### callables -/

inductive CKind where
  | function | callback | vfunc | signal
  deriving DecidableEq, Repr, Inhabited

structure Callable where
  kind : CKind
  inst : Option Node := none
  params : List Node := []
  ret : Node := { isRet := true, dir := .out }
  throws : Bool := false
  deriving Repr, Inhabited

/-- `all_parameters` -/
def Callable.all (c : Callable) : List Node :=
  match c.inst with
  | some i => i :: c.params
  | none => c.params

/-- index into `all_parameters` of the first parameter called `name` (`get_parameter`) -/
def allIndex? (c : Callable) (name : Str) : Option Nat := c.all.findIdx? (fun p => p.name == name)

/-- `get_parameter_index(name)`: position in `parameters` (instance parameter excluded) -/
def paramIndex? (c : Callable) (name : Str) : Option Nat := c.params.findIdx? (fun p => p.name == name)

def Callable.setAll (c : Callable) (i : Nat) (f : Node → Node) : Callable :=
  match c.inst with
  | some inst =>
    match i with
    | 0 => { c with inst := some (f inst) }
    | j + 1 => { c with params := c.params.modify j f }
  | none => { c with params := c.params.modify i f }

def Callable.getAll? (c : Callable) (i : Nat) : Option Node := c.all[i]?

/-- side effect of `(array length=p)`: `param.direction = node.direction`, out ⇒ transfer full -/
def applyLenEffect (c : Callable) (e : LenEffect) : Callable :=
  match allIndex? c e.target with
  | some j => c.setAll j (fun p =>
      { p with dir := e.dir, transfer := if e.dir == .out then some (G Gen.ParamAnn.transferFull) else p.transfer })
  | none => c

def isCallbackCls (c : TClass) : Bool :=
  match c with
  | .callback _ => true
  | _ => false

/-- `closure_target != ast.TYPE_ANY` -/
def closureTargetNotAny (t : Ty) : Bool :=
  match t.cls with
  | .fund f _ => !(f == G Gen.ParamAnn.typeAny)
  | _ =>
    match t.fundamental with
    | some f => !(f == G Gen.ParamAnn.typeAny)
    | none =>
      match t.giname with
      | some _ => true
      | none => !(t.info.ctype == some (G "gpointer"))

/-- `_apply_annotations_param_callback(parent, param, tag)` on the parameter at `all` index `i` -/
def callbackStep (c : Callable) (i : Nat) (part : Str) (tag : Option Anns) : M (Callable × List Warning) := do
  let a := tag.getD Anns.empty
  match c.getAll? i with
  | none => pure (c, [])
  | some p =>
    if !isCallbackCls p.ty.cls then
      let w (o : Option (List Str)) (n : String) : List Warning := if o.isSome then [⟨G n, .ann part⟩] else []
      pure (c, w a.scope "scope" ++ w a.destroy "destroy" ++ w a.closure "closure")
    else do
      -- `len(scope_annotation) == 1 and scope_annotation[0] in SCOPE_OPTIONS`
      let c1 := match a.scope with
        | some [s] =>
          if Gen.ParamAnn.scopeOptions.any (fun o => G o == s) then c.setAll i (fun p => { p with scope := some s })
          else c
        | _ => c
      let c2 ←
        match a.destroy with
        | some [d] =>
          match allIndex? c1 d with
          | none => throw (.fatal (G "can't find parameter referenced by destroy"))
          | some j =>
            let c' := c1.setAll i (fun p => { p with destroy := some d, scope := some (G Gen.ParamAnn.scopeNotified) })
            -- `if destroy_param.scope is None: destroy_param.scope = PARAM_SCOPE_NOTIFIED`
            pure (c'.setAll j (fun q => if q.scope.isNone then { q with scope := some (G Gen.ParamAnn.scopeNotified) } else q))
        | _ => pure c1
      match a.closure with
      | some [cl] =>
        match allIndex? c2 cl with
        | none => throw (.fatal (G "can't find parameter referenced by closure"))
        | some j =>
          let c3 := c2.setAll i (fun p => { p with closure := some cl })
          let tgt := (c3.getAll? j).map (·.ty)
          let warn := match tgt with | some t => closureTargetNotAny t | none => false
          pure (c3, if warn then [⟨G "closure", .ann part⟩] else [])
      | _ => pure (c2, [])

/-- `_apply_annotations_param_closure(parent, param, tag)` (callback typedefs) -/
def closureStep (c : Callable) (i : Nat) (part : Str) (tag : Option Anns) : Callable × List Warning :=
  let a := tag.getD Anns.empty
  match a.closure, c.getAll? i with
  | some opts, some p =>
    if !opts.isEmpty then (c, [⟨G "closure", .ann part⟩])
    else
      (c.setAll i (fun q => { q with closure := some q.name }),
       if closureTargetNotAny p.ty then [⟨G "closure", .ann part⟩] else [])
  | _, _ => (c, [])

/-- the documentation of a callable: parts in comment order plus the Returns tag -/
structure Doc where
  params : List (Str × Anns) := []
  ret : Option Anns := none
  deriving Repr, Inhabited

def Doc.find (d : Doc) (name : Str) : Option Anns := (d.params.find? (fun p => p.1 == name)).map (·.2)

/-- the kind-specific first half of `_apply_annotations_param` -/
def firstStep (c : Callable) (i : Nat) (part : Str) (tag : Option Anns) : M (Callable × List Warning) :=
  match c.kind with
  | .function => callbackStep c i part tag
  | .vfunc => callbackStep c i part tag
  | .callback => pure (closureStep c i part tag)
  | .signal => pure (c, [])

/-- the second half: the common step on parameter `i`, written back, plus the length effect -/
def commonApply (env : Env) (isFunction : Bool) (c1 : Callable) (i : Nat) (part : Str) (tag : Option Anns)
    (w1 : List Warning) : M (Callable × List Warning) :=
  match c1.getAll? i with
  | none => pure (c1, w1)
  | some p =>
    match commonStep env isFunction c1.all part p tag with
    | .error e => .error e
    | .ok out =>
      let c2 := c1.setAll i (fun _ => out.node)
      pure (match out.eff with | some e => applyLenEffect c2 e | none => c2, w1 ++ out.warnings)

/-- `_apply_annotations_param(parent, param, tag, block)` for the parameter at `all` index `i` -/
def applyParam (env : Env) (c : Callable) (i : Nat) (tag : Option Anns) : M (Callable × List Warning) :=
  match c.getAll? i with
  | none => pure (c, [])
  | some p0 =>
    match firstStep c i p0.name tag with
    | .error e => .error e
    | .ok r => commonApply env (c.kind == .function) r.1 i p0.name tag r.2

def applyParamsFrom (env : Env) (doc : Option Doc) : Nat → Nat → Callable → M (Callable × List Warning)
  | 0, _, c => pure (c, [])
  | k + 1, i, c => do
    let tag := match doc, c.getAll? i with
      | some d, some p => d.find p.name
      | _, _ => none
    let (c1, w1) ← applyParam env c i tag
    let (c2, w2) ← applyParamsFrom env doc k (i + 1) c1
    pure (c2, w1 ++ w2)

def retPart : Str := G "returns"

/-- `_apply_annotations_return(parent, return_, block)` -/
def applyReturn (env : Env) (c : Callable) (doc : Option Doc) : M (Callable × List Warning) := do
  let tag0 := doc.bind (·.ret)
  let (tag, w0) :=
    match tag0 with
    | some _ => if c.ret.ty.isNone then (none, [Warning.mk [] (.part retPart)]) else (tag0, [])
    | none => (none, [])
  let out ← commonStep env (c.kind == .function) c.all retPart c.ret tag
  let c1 := { c with ret := out.node }
  let c2 := match out.eff with | some e => applyLenEffect c1 e | none => c1
  pure (c2, w0 ++ out.warnings)

/-- `unknown = docparams - declparams`: one warning per documented name that is no parameter -/
def unknownParamWarnings (c : Callable) (doc : Option Doc) : List Warning :=
  match doc with
  | some d => (d.params.filter (fun p => !(c.all.any (fun q => q.name == p.1)))).map
      (fun p => Warning.mk [] (.part p.1))
  | none => []

/-- the early `_resolve_toplevel` of `_apply_annotations_signal` (its result is overwritten by the
    common step, which resolves the same string against the already replaced type: same C type,
    same constness) -/
def signalEarly (env : Env) : List (Node × (Str × Anns)) → M (List Node × List Warning)
  | [] => pure ([], [])
  | (p, (_, a)) :: rest => do
    let (p', w) ←
      match a.type_ with
      | some (s :: _) => do
        let (t, w) ← resolveToplevel env (G "type") .owner s p.ty
        pure ({ p with ty := t }, w)
      | _ => pure (p, [])
    let (ps, ws) ← signalEarly env rest
    pure (p' :: ps, w ++ ws)

/-- the signal-specific prologue of `_apply_annotations_signal`: parameters are renamed after the
    documented ones (skipping the first, the instance), `(type)` is resolved once more up front -/
def signalPrologue (env : Env) (c : Callable) (doc : Option Doc) : M (Callable × Option Doc × List Warning) :=
  match doc with
  | none => pure (c, none, [])
  | some d =>
    if d.params.length > c.params.length then do
      let names := (d.params.drop 1).map (·.1)
      let ps := (c.params.zip names).map (fun pn => { pn.1 with name := pn.2 })
      let (ps', ws) ← signalEarly env (ps.zip (d.params.drop 1))
      -- tags are taken by POSITION (`names[i + 1]`), the model keeps them by the (new) names
      pure ({ c with params := ps' }, some d, ws)
    else if c.params.length != 0 then
      pure (c, some { d with params := [] }, [Warning.mk [] .block])
    else pure (c, some { d with params := [] }, [])

/-- `_apply_annotations_callable` / `_apply_annotations_signal`: the whole annotation pass of one callable -/
def applyCallable (env : Env) (c : Callable) (doc : Option Doc) : M (Callable × List Warning) := do
  match c.kind with
  | .signal =>
    let (c0, doc', w0) ← signalPrologue env c doc
    let (c1, w1) ← applyParamsFrom env doc' c0.all.length 0 c0
    let (c2, w2) ← applyReturn env c1 doc
    pure (c2, w0 ++ w1 ++ w2)
  | _ =>
    let (c1, w1) ← applyParamsFrom env doc c.all.length 0 c
    let w1' := unknownParamWarnings c doc
    let (c2, w2) ← applyReturn env c1 doc
    pure (c2, w1 ++ w1' ++ w2)

/-- parser-side validation of every part that has annotations (run at parse time, i.e. first) -/
def validateDoc (doc : Option Doc) : List Warning :=
  match doc with
  | some d =>
    d.params.flatMap (fun p => validatePart Gen.ParamAnn.paramValidate p.1 p.2)
    ++ (match d.ret with | some a => validatePart Gen.ParamAnn.tagValidate retPart a | none => [])
  | none => []

/-! ### after the annotation pass: method pairing, pass 3 -/

/-- `_setup_method`: `func.instance_parameter = func.parameters.pop(0)` -/
def splitInstance (c : Callable) : Callable :=
  match c.inst, c.params with
  | none, p :: rest => { c with inst := some p, params := rest }
  | _, _ => c

/-- `_check_instance_parameter`: `(annotations.get(ANN_TRANSFER) or [OPT_TRANSFER_NONE])[0]` — a bare
    `(transfer)` (empty option list) falls back to `none`; the function only emits strict-mode
    messages, which are not part of the comparison, and never raises -/
def checkInstanceParameter (_c : Callable) (_doc : Option Doc) : M Unit := .ok ()

def cbGiName (t : Ty) : Option Str :=
  match t.cls with
  | .callback n => some n
  | _ => none

/-- first loop of `_pass3_callable_callbacks` -/
def pass3WellKnown (ps : List Node) : List Node :=
  ps.map (fun p =>
    match cbGiName p.ty with
    | some n =>
      if n == G "Gio.AsyncReadyCallback" || n == G "GLib.DestroyNotify" then
        { p with scope := some (G Gen.ParamAnn.scopeAsync), transfer := some (G Gen.ParamAnn.transferNone) }
      else p
    | none => p)

/-- second loop: walk the parameters, remembering the last callback parameter seen -/
def pass3Pair : List Node → Nat → Option Nat → List Node → List Node
  | [], _, _, acc => acc
  | p :: rest, i, cb, acc =>
    match cbGiName p.ty with
    | some n =>
      if n == G "GLib.DestroyNotify" then
        match cb with
        | some k =>
          pass3Pair rest (i + 1) cb (acc.modify k (fun q =>
            { q with destroy := some p.name, scope := some (G Gen.ParamAnn.scopeNotified),
                     transfer := some (G Gen.ParamAnn.transferNone) }))
        | none => pass3Pair rest (i + 1) cb acc
      else pass3Pair rest (i + 1) (some i) acc
    | none =>
      match cb with
      | some k =>
        if p.ty.isAny && endsWith p.name (G "data") then
          pass3Pair rest (i + 1) cb (acc.modify k (fun q => { q with closure := some p.name }))
        else pass3Pair rest (i + 1) cb acc
      | none => pass3Pair rest (i + 1) cb acc

/-- third loop: user-data parameters become nullable; `.error` is the `ValueError` of
    `get_parameter_index` -/
def pass3Nullable : List Node → List Node → M (List Node)
  | [], acc => .ok acc
  | p :: rest, acc =>
    match p.closure with
    | some cl =>
      match acc.findIdx? (fun q => q.name == cl) with
      | some j => pass3Nullable rest (acc.modify j (fun q => if q.notNullable then q else { q with nullable := true }))
      | none => .error (.raises (G "ValueError: Unknown argument"))
    | none => pass3Nullable rest acc

/-- `length_param_name = check(...)` on a top-level array type -/
def Ty.checkLength (ok : Str → Bool) : Ty → Ty
  | .array k e z s (some l) i => .array k e z s (if ok l then some l else none) i
  | t => t

/-- the names `_pass3_callable_references` accepts: those of `parameters`, minus a trailing `GError**` -/
def refNames (c : Callable) : List Str :=
  match c.params.getLast? with
  | some l =>
    if l.ty.info.ctype == some (G "GError**") then (c.params.map (fun p => p.name)).dropLast
    else c.params.map (fun p => p.name)
  | none => c.params.map (fun p => p.name)

/-- `check(name, what)` -/
def chkRef (names : List Str) (o : Option Str) : Option Str :=
  match o with
  | some nm => if names.contains nm then some nm else none
  | none => none

def fixRefs (names : List Str) (p : Node) : Node :=
  { p with closure := chkRef names p.closure, destroy := chkRef names p.destroy,
           ty := p.ty.checkLength (fun l => names.contains l) }

/-- `_pass3_callable_references`: a `(closure)`, `(destroy)` or `(array length=)` reference to a name that
    is not in `parameters` (the instance parameter) or is the trailing `GError**` is dropped (with a
    warning, which comes after the start of pass 3 and is not part of the comparison) -/
def pass3References (c : Callable) : Callable :=
  let names := refNames c
  { c with inst := c.inst.map (fixRefs names),
           params := c.params.map (fixRefs names),
           ret := { c.ret with ty := c.ret.ty.checkLength (fun l => names.contains l) } }

/-- `_pass3_callable_references`, `_pass3_callable_callbacks`, then `_pass3_callable_throws` -/
def pass3 (c0 : Callable) : M Callable := do
  let c := pass3References c0
  let ps1 := pass3WellKnown c.params
  let ps2 := pass3Pair ps1 0 none ps1
  -- the third loop reads `param.closure_name` while iterating the same (mutated) objects
  let ps3 ← pass3Nullable ps2 ps2
  match ps3.getLast? with
  | some l =>
    if l.ty.info.ctype == some (G "GError**") then pure { c with params := ps3.dropLast, throws := true }
    else pure { c with params := ps3 }
  | none => pure { c with params := ps3 }

/-- `IntrospectablePass._introspectable_param_analysis` only matters here for where it dies:
    `Type.unresolved_string` asserts when an unresolved type has neither a C type nor a GType name
    (a `(type Unknown)` on a node whose type came from the runtime dump) -/
def introspectableCheck (c : Callable) : M Unit :=
  let bad (n : Node) : Bool :=
    !n.skip && !n.ty.resolved && (match n.ty.info.ctype with | some s => s.isEmpty | none => true)
  if c.params.any bad || bad c.ret then .error (.raises (G "AssertionError: unresolved_string")) else .ok ()

/-- what the later `_pass_type_resolution` finds for a still unresolved C type name:
    (giname, class of the looked-up node).  Namespace lookup: an input. -/
abbrev Late := List (Str × Option (Str × TClass))

/-- `Transformer.resolve_type` on the types left unresolved by `(type)`/`(element-type)`:
    `_resolve_toplevel` keeps the C type of the node, so the next resolution pass may still
    find the node by its C name -/
def Ty.lateResolve (late : Late) : Ty → Ty
  | .leaf none none cls i =>
    match i.ctype with
    | some c =>
      if c.isEmpty then .leaf none none cls i
      else match late.find? (fun e => e.1 == c) with
        | some (_, some (g, k)) => .leaf none (some g) k i
        | _ => .leaf none none cls i
    | none => .leaf none none cls i
  | .leaf f g cls i => .leaf f g cls i
  | .array k e z s l i => .array k (e.lateResolve late) z s l i
  | .list n e i => .list n (e.lateResolve late) i
  | .map k v i => .map (k.lateResolve late) (v.lateResolve late) i
  | .varargs => .varargs

def Node.lateResolve (late : Late) (n : Node) : Node := { n with ty := n.ty.lateResolve late }

def Callable.lateResolve (late : Late) (c : Callable) : Callable :=
  { c with inst := c.inst.map (Node.lateResolve late), params := c.params.map (Node.lateResolve late),
           ret := c.ret.lateResolve late }

/-- A virtual method shares its `Parameter` objects with the callback field of the class struct it was
    made from, and pass 3 visits that field first.  There `self` still is an ordinary parameter, so a
    `(closure self)` survives `_pass3_callable_references` and the user-data rule of
    `_pass3_callable_callbacks` makes `self` nullable — on the shared object, i.e. on the virtual
    method's instance parameter too.  (Everything else that pass does is repeated by the virtual
    method's own pass 3.) -/
def vfuncFieldPass (c : Callable) : Callable :=
  match c.kind, c.inst with
  | .vfunc, some i =>
    if c.params.any (fun p => p.closure == some i.name) && !i.notNullable then
      { c with inst := some { i with nullable := true } }
    else c
  | _, _ => c

/-- everything between the annotation pass and the writer -/
def finish (late : Late) (c : Callable) (doc : Option Doc) (split : Bool) : M Callable := do
  let c0 := c.lateResolve late
  let c1 := vfuncFieldPass (if split then splitInstance c0 else c0)
  checkInstanceParameter c1 doc
  let c2 ← pass3 c1
  introspectableCheck c2
  pure c2

/-! ### girwriter -/

structure XType where
  tag : Str
  attrs : List (Str × Str)
  children : List XType
  deriving Repr, Inhabited

def natStr (n : Nat) : Str := (toString n).toList
def intStr (n : Int) : Str := (toString n).toList

def ctypeAttr (i : TInfo) : List (Str × Str) :=
  match i.cctype with
  | some c => if c.isEmpty then (match i.ctype with | some c' => if c'.isEmpty then [] else [(G "c:type", c')] | none => [])
              else [(G "c:type", c)]
  | none => match i.ctype with | some c' => if c'.isEmpty then [] else [(G "c:type", c')] | none => []

/-- `_type_to_name` -/
def typeToName (ns : Str) (giname : Str) : Str :=
  let pre := ns ++ ['.']
  if pre.isPrefixOf giname then giname.drop pre.length else giname

/-- `_write_type(ntype, parent=parent)`; `lenIndex` is `parent.get_parameter_index` (or the
    assertion failure when the parent is not a callable) -/
def writeType (ns : Str) (lenIndex : Str → M Nat) : Ty → M XType
  | .varargs => pure ⟨G "varargs", [], []⟩
  | .array kind elem zt size len i => do
    let e ← writeType ns (fun _ => .error (.raises (G "AssertionError: parent not a callable or compound"))) elem
    let a0 := ctypeAttr i
    let a1 := if kind != G Gen.ParamAnn.arrayC then (G "name", kind) :: a0 else a0
    let a2 := if !zt then (G "zero-terminated", G "0") :: a1
              else if size.isSome || len.isSome then (G "zero-terminated", G "1") :: a1 else a1
    let a3 := match size with | some n => a2 ++ [(G "fixed-size", intStr n)] | none => a2
    let a4 ← match len with
      | some l => do
        let k ← lenIndex l
        pure ((G "length", natStr k) :: a3)
      | none => pure a3
    pure ⟨G "array", a4, [e]⟩
  | .list name elem i => do
    let e ← writeType ns (fun _ => .error (.raises (G "AssertionError: parent not a callable or compound"))) elem
    let a := match name with | some n => if n.isEmpty then ctypeAttr i else (G "name", n) :: ctypeAttr i | none => ctypeAttr i
    pure ⟨G "type", a, [e]⟩
  | .map k v i => do
    let ke ← writeType ns (fun _ => .error (.raises (G "AssertionError: parent not a callable or compound"))) k
    let ve ← writeType ns (fun _ => .error (.raises (G "AssertionError: parent not a callable or compound"))) v
    pure ⟨G "type", (G "name", G "GLib.HashTable") :: ctypeAttr i, [ke, ve]⟩
  | .leaf fund giname _ i =>
    match giname with
    | some g => if g.isEmpty then
        (match fund with
         | some f => pure ⟨G "type", (if f.isEmpty then ctypeAttr i else (G "name", f) :: ctypeAttr i), []⟩
         | none => pure ⟨G "type", ctypeAttr i, []⟩)
      else pure ⟨G "type", (G "name", typeToName ns g) :: ctypeAttr i, []⟩
    | none =>
      match fund with
      | some f => pure ⟨G "type", (if f.isEmpty then ctypeAttr i else (G "name", f) :: ctypeAttr i), []⟩
      | none => pure ⟨G "type", ctypeAttr i, []⟩

structure XNode where
  attrs : List (Str × Str)        -- in writer order
  attributes : List (Str × Str)   -- `<attribute name= value=>` children
  ty : XType
  deriving Repr, Inhabited

def b2l (b : Bool) (kv : Str × Str) : List (Str × Str) := if b then [kv] else []

def truthy (o : Option Str) : Option Str :=
  match o with
  | some s => if s.isEmpty then none else some s
  | none => none

def indexOf (c : Callable) (name : Str) : M Nat :=
  match paramIndex? c name with
  | some k => .ok k
  | none => .error (.raises (G "ValueError: Unknown argument"))

def dirAttrs (p : Node) : List (Str × Str) :=
  match p.dir with
  | .unset => []
  | .in_ => []
  | d => [(G "direction", (d.str).getD []), (G "caller-allocates", if p.callerAllocates then G "1" else G "0")]

def transferAttrs (p : Node) : List (Str × Str) :=
  match truthy p.transfer with | some t => [(G "transfer-ownership", t)] | none => []

def nullAttrs (p : Node) : List (Str × Str) :=
  if p.nullable && !p.notNullable then (G "nullable", G "1") :: b2l (p.dir != .out) (G "allow-none", G "1") else []

def optAttrs (p : Node) : List (Str × Str) :=
  if p.optional then (G "optional", G "1") :: b2l (p.dir == .out) (G "allow-none", G "1") else []

def scopeAttrs (p : Node) : List (Str × Str) :=
  match truthy p.scope with | some s => [(G "scope", s)] | none => []

/-- `('closure', '%d' % parent.get_parameter_index(name))` -/
def refAttr (c : Callable) (key : String) (ref : Option Str) : M (List (Str × Str)) :=
  match ref with
  | some n =>
    match paramIndex? c n with
    | some k => .ok [(G key, natStr k)]
    | none => .error (.raises (G "ValueError: Unknown argument"))
  | none => .ok []

/-- the attribute list of `_write_parameter` (without the type child) -/
def paramAttrs (c : Callable) (p : Node) : M (List (Str × Str)) := do
  let cl ← refAttr c "closure" p.closure
  let de ← refAttr c "destroy" p.destroy
  pure ([(G "name", p.name)] ++ dirAttrs p ++ transferAttrs p ++ nullAttrs p ++ optAttrs p ++ scopeAttrs p
        ++ cl ++ de ++ b2l p.skip (G "skip", G "1"))

/-- `_write_parameter` -/
def writeParam (ns : Str) (c : Callable) (p : Node) : M XNode := do
  let a ← paramAttrs c p
  let t ← writeType ns (indexOf c) p.ty
  pure ⟨a, p.attrs, t⟩

def retAttrs (r : Node) : List (Str × Str) :=
  (match truthy r.transfer with
   | some t => [(G "transfer-ownership", t)]
   -- `elif return_.skip:` the attribute is mandatory in the GIR
   | none => b2l r.skip (G "transfer-ownership", G Gen.ParamAnn.transferNone))
  ++ b2l r.skip (G "skip", G "1")
  ++ b2l (r.nullable && !r.notNullable) (G "nullable", G "1")

/-- `_write_return_type(return_, parent)`: every caller (`_write_callable`, `_write_signal`) passes
    the callable as parent -/
def writeReturn (ns : Str) (c : Callable) : M XNode := do
  let t ← writeType ns (indexOf c) c.ret.ty
  pure ⟨retAttrs c.ret, c.ret.attrs, t⟩

structure Written where
  ret : XNode
  inst : Option XNode
  params : List XNode
  throws : Bool
  deriving Repr, Inhabited

/-- `_write_callable`: return value first, then instance parameter, then parameters -/
def write (ns : Str) (c : Callable) : M Written := do
  let r ← writeReturn ns c
  let i ← match c.inst with
    | some p => do let x ← writeParam ns c p; pure (some x)
    | none => pure none
  let ps ← c.params.mapM (writeParam ns c)
  pure ⟨r, i, ps, c.throws⟩

/-- the whole pipeline for one callable: parse-time validation, annotation pass, pairing,
    pass 3, writer -/
def run (ns : Str) (env : Env) (late : Late) (c : Callable) (doc : Option Doc) (split : Bool) :
    M (Written × List Warning) := do
  let w0 := validateDoc doc
  let (c1, w1) ← applyCallable env c doc
  let c2 ← finish late c1 doc split
  let out ← write ns c2
  pure (out, w0 ++ w1)

end GIVerif.ParamAnn
