/- C10/C11 model (giscanner/annotationparser.py, message.py): umbrella import. -/
import GIVerif.Model.AnnParse.Basic
import GIVerif.Model.AnnParse.Tokenizer
import GIVerif.Model.AnnParse.MessageLog
import GIVerif.Model.AnnParse.Matchers
import GIVerif.Model.AnnParse.Block
import GIVerif.Model.AnnParse.Writer
