/-
  C06 model, part 3: the size arithmetic of the typelib writer as far as it is mirrored here.

  * `align4`            — ALIGN_VALUE (x, 4) of girnode.c / girmodule.c
  * `strAlloc`          — space `_g_ir_write_string` takes for a new string
  * `indexListBytes`    — `2 * (n + (n % 2))`, the padded guint16 index arrays of ObjectBlob /
                          InterfaceBlob (`_g_ir_node_get_size`, G_IR_NODE_OBJECT / INTERFACE)
  * `Ty.reserved/used`  — `_g_ir_node_get_full_size_internal` (G_IR_NODE_TYPE) against what
                          `_g_ir_node_build_typelib` (G_IR_NODE_TYPE) consumes when nothing is shared
  * `sigReserved/Used`  — the same for a callable's signature (SignatureBlob + ArgBlobs)
  * `fixedSize…`        — `_g_ir_node_get_size`: the extent of a directory entry's blob with its
                          inline members, from the counts stored in the blob
  * `headerArea`        — the offsets `_g_ir_module_build_typelib` derives before the first blob
  * `dirIndex…`         — the size arithmetic of the directory index section
                          (`add_directory_index_section` of girmodule.c, `_gi_typelib_hash_builder_prepare`
                          / `_pack` of gthash.c) with the width of the C variable holding the size

  Blob sizes are the generated `sizeof` values (Model/Typelib `sizeOf'`), not literals.
-/
import GIVerif.Model.Typelib
import GIVerif.Gen.TypelibConsts

namespace GIVerif.Typelib

/-- `ALIGN_VALUE (n, 4)`: `(n + 3) & ~3` -/
def align4 (n : Nat) : Nat := (n + 3) / 4 * 4

/-- bytes `_g_ir_write_string` advances the pool for a string of `len` bytes: `ALIGN_VALUE (len + 1, 4)` -/
def strAlloc (len : Nat) : Nat := align4 (len + 1)

/-- `2 * (n + (n % 2))`: an array of `n` guint16 padded to a 32-bit boundary -/
def indexListBytes (n : Nat) : Nat := 2 * (n + n % 2)

/-! ### types (G_IR_NODE_TYPE) -/

/-- the shape of a type node as far as sizes depend on it -/
inductive Ty where
  | basic
  | array (elem : Ty)
  | iface
  | list (elem : Ty)
  | hash (key val : Ty)
  | error

def szSimple := sizeOf' "SimpleTypeBlob"
def szArray := sizeOf' "ArrayTypeBlob"
def szIface := sizeOf' "InterfaceTypeBlob"
def szParam := sizeOf' "ParamTypeBlob"
def szError := sizeOf' "ErrorTypeBlob"

/-- `_g_ir_node_get_full_size_internal`, case G_IR_NODE_TYPE: the space reserved -/
def Ty.reserved : Ty → Nat
  | .basic => szSimple
  | .array e => szArray + e.reserved
  | .iface => szSimple + szIface
  | .list e => szSimple + szParam + e.reserved
  | .hash k v => szSimple + szParam * 2 + k.reserved + v.reserved
  | .error => szSimple + szError

/-- bytes of the out-of-line pool (`*offset2`) that `_g_ir_node_build_typelib` consumes for a
    type that is not shared with an earlier one; the inline SimpleTypeBlob (4 bytes at `*offset`)
    is accounted for by the enclosing blob -/
def Ty.pool : Ty → Nat
  | .basic => 0
  | .array e => szArray + e.pool
  | .iface => szIface
  | .list e => szParam + szSimple + e.pool
  | .hash k v => szParam + szSimple * 2 + k.pool + v.pool
  | .error => szError

/-- total consumption (inline + pool) of a type written at top level -/
def Ty.used (t : Ty) : Nat := szSimple + t.pool

/-! ### callables -/

def szArg := sizeOf' "ArgBlob"
def szSignature := sizeOf' "SignatureBlob"

/-- one parameter: (length of its name, its type) -/
abbrev Param := Nat × Ty

/-- `_g_ir_node_get_full_size_internal`, G_IR_NODE_PARAM (without attributes) -/
def paramReserved (p : Param) : Nat := (szArg - szSimple) + strAlloc p.1 + p.2.reserved

/-- pool bytes a parameter consumes beyond its ArgBlob: its name and its type's pool -/
def paramPool (p : Param) : Nat := strAlloc p.1 + p.2.pool

/-- what FUNCTION/CALLBACK/SIGNAL/VFUNC reserve for result and parameters; the result is a
    G_IR_NODE_PARAM without a name -/
def sigReserved (ret : Ty) (ps : List Param) : Nat :=
  (ps.map paramReserved).sum + ((szArg - szSimple) + ret.reserved)

/-- what the writer consumes from the pool for the signature: SignatureBlob + n ArgBlobs,
    the return type's pool, each parameter's name and type pool -/
def sigUsed (ret : Ty) (ps : List Param) : Nat :=
  szSignature + ps.length * szArg + ret.pool + (ps.map paramPool).sum

/-! ### extents of directory-entry blobs (`_g_ir_node_get_size`) -/

def szField := sizeOf' "FieldBlob"
def szCallback := sizeOf' "CallbackBlob"
def szFunction := sizeOf' "FunctionBlob"
def szProperty := sizeOf' "PropertyBlob"
def szSignal := sizeOf' "SignalBlob"
def szVFunc := sizeOf' "VFuncBlob"
def szConstant := sizeOf' "ConstantBlob"
def szValue := sizeOf' "ValueBlob"

def fixedSizeStruct (nFields nFieldCallbacks nMethods : Nat) : Nat :=
  sizeOf' "StructBlob" + nFields * szField + nFieldCallbacks * szCallback + nMethods * szFunction

def fixedSizeUnion (nFields nFunctions : Nat) : Nat :=
  sizeOf' "UnionBlob" + nFields * szField + nFunctions * szFunction

def fixedSizeEnum (nValues nMethods : Nat) : Nat :=
  sizeOf' "EnumBlob" + nValues * szValue + nMethods * szFunction

def fixedSizeObject (nIfaces nFields nFieldCallbacks nProps nMethods nSignals nVFuncs nConsts : Nat) : Nat :=
  sizeOf' "ObjectBlob" + indexListBytes nIfaces + nFields * szField + nFieldCallbacks * szCallback +
    nProps * szProperty + nMethods * szFunction + nSignals * szSignal + nVFuncs * szVFunc + nConsts * szConstant

def fixedSizeInterface (nPrereq nProps nMethods nSignals nVFuncs nConsts : Nat) : Nat :=
  sizeOf' "InterfaceBlob" + indexListBytes nPrereq + nProps * szProperty + nMethods * szFunction +
    nSignals * szSignal + nVFuncs * szVFunc + nConsts * szConstant

/-! ### the area before the first blob (`_g_ir_module_build_typelib`) -/

/-- offsets derived from the lengths of the header strings (each written at most once, in
    this order: dependencies, namespace, nsversion, shared_library, c_prefix) and the entry count.

    `passes` is the number of times the function body runs: 1, or 2 when the first pass met a
    reference to another namespace ("Found implicit cross references, starting over").  The local
    `header_size` is advanced by `_g_ir_write_string` and NOT reset at `restart:`, so after a
    restart the header strings are written once more, behind the bytes of the first pass. -/
structure HeaderArea where
  sections : Nat
  directory : Nat
  firstBlob : Nat

def headerArea (strLens : List Nat) (nEntries passes : Nat) : HeaderArea :=
  let headerSize := align4 (sizeOf' "Header") + passes * (strLens.map strAlloc).sum
  let sections := align4 headerSize
  let directory := sections + Gen.numSections * sizeOf' "Section"
  { sections := sections, directory := directory, firstBlob := directory + nEntries * sizeOf' "DirEntry" }

/-! ### the directory index section (`add_directory_index_section`, gthash.c) -/

/-- assignment to an unsigned C variable of `bits` bits -/
def storeIn (bits v : Nat) : Nat := v % 2 ^ bits

/-- gthash.c `_gi_typelib_hash_builder_prepare`:
    `offset = sizeof (guint32) + cmph_packed_size (c); dirmap_offset = ALIGN_VALUE (offset, 4)` -/
def dirmapOffset (cmphPacked : Nat) : Nat := align4 (4 + cmphPacked)

/-- `packed_size = dirmap_offset + num_elts * sizeof (guint16)` -/
def hashPackedSize (dirmap nElts : Nat) : Nat := dirmap + 2 * nElts

/-- `add_directory_index_section`: `required_size = _gi_typelib_hash_builder_get_buffer_size (b);
    required_size = ALIGN_VALUE (required_size, 4);` where `required_size` is an unsigned variable of
    `bits` bits (the macro computes in `unsigned long`, the assignment truncates) -/
def dirIndexRequired (bits packed : Nat) : Nat := storeIn bits (align4 (storeIn bits packed))

/-- the `g_assert (len >= builder->packed_size)` of `_gi_typelib_hash_builder_pack`, called with
    `len = required_size`: false means g-ir-compiler aborts -/
def dirIndexPackOk (bits packed : Nat) : Bool := decide (packed ≤ dirIndexRequired bits packed)

/-- `new_offset = *offset2 + required_size` (the file ends there: `header->size = offset2`) -/
def dirIndexEnd (bits offset2 packed : Nat) : Nat := offset2 + dirIndexRequired bits packed

end GIVerif.Typelib
