/-
  C10/C11 model, part 3 (layer 2): the line patterns of giscanner/annotationparser.py
  (COMMENT_BLOCK_START_RE ... TAG_VALUE_STABILITY_RE) re-expressed as direct scanners that
  return every named group as a span (start, end) of the line.  Python's `re` itself is
  not modelled; each scanner follows the backtracking order of its pattern (lazy groups
  are extended one character at a time, alternatives are tried in pattern order).
  Lines never contain '\n' or '\r' (they come from `re.sub(LINE_BREAK_RE, '\n', s).split('\n')`),
  so `.` is "any character" and `$` is "end of line".
  Character classes come from generated tables (`\s` = str.isspace, `\w`, IGNORECASE).
-/
import GIVerif.Model.AnnParse.Basic

namespace GIVerif.AnnParse
open GIVerif.Py

/-- `\w` (UNICODE) -/
def isWord (c : Char) : Bool := Gen.pyWordRanges.any (fun r => r.1 ≤ c.toNat && c.toNat ≤ r.2)
/-- `[\w-]` -/
def isWordDash (c : Char) : Bool := isWord c || c == '-'
/-- `[0-9\.]` -/
def isVersionChar (c : Char) : Bool := isAsciiDigit c || c == '.'

/-- does `c` match the ASCII lower-case letter `l` under re.IGNORECASE|re.UNICODE? -/
def icaseMatch (l c : Char) : Bool :=
  match Gen.pyIgnoreCase.find? (fun e => e.1 == l.toNat) with
  | some e => e.2.contains c.toNat
  | none => c == l

/-- number of leading characters satisfying `p` -/
def countWhile (p : Char → Bool) : Str → Nat
  | [] => 0
  | c :: cs => if p c then countWhile p cs + 1 else 0

def countWs (s : Str) : Nat := countWhile isSpace s

/-- a named group: (name, start, end) -/
abbrev Group := String × Nat × Nat
abbrev MatchRes := Option (List Group)

/-- `\s*:?\s*$` -/
def tailOK (rest : Str) : Bool :=
  match rest.drop (countWs rest) with
  | [] => true
  | ':' :: r => r.all isSpace
  | _ => false

/-- end of a lazy `(.*?)` that must be followed by `\s*:?\s*$`, starting at the beginning of `rest`:
    number of characters taken (always exists: the empty remainder is accepted) -/
def lazyFieldsLen : Str → Nat
  | [] => 0
  | c :: cs => if tailOK (c :: cs) then 0 else lazyFieldsLen cs + 1

/-- `\s*(?P<x>.*?)\s*$` at offset `off` of the line: span of the lazily matched text -/
def trimmedSpan (off : Nat) (rest : Str) : Nat × Nat :=
  let a := off + countWs rest
  (a, a + (rstrip (rest.drop (countWs rest))).length)

/-- literal prefix test -/
def hasPrefix : Str → Str → Bool
  | _, [] => true
  | [], _ :: _ => false
  | c :: cs, p :: ps => c == p && hasPrefix cs ps

/-! ### comment delimiters and asterisks -/

/-- `/\*{2}(?![\*/])` at the start of `s` -/
def startTokenAt (s : Str) : Bool :=
  match s with
  | '/' :: '*' :: '*' :: rest =>
    (match rest with
     | c :: _ => c != '*' && c != '/'
     | [] => true)
  | _ => false

/-- first offset ≥ `off` at which `\s*` + start token matches (the lazy `code` group grows
    one character at a time); returns (offset, token start) -/
def findStart : Str → Nat → Option (Nat × Nat)
  | [], _ => none
  | c :: cs, off =>
    let w := countWs (c :: cs)
    if startTokenAt ((c :: cs).drop w) then some (off, off + w) else findStart cs (off + 1)

/-- COMMENT_BLOCK_START_RE -/
def matchStart (line : Str) : MatchRes :=
  match findStart line 0 with
  | none => none
  | some (p, t) =>
    let c := trimmedSpan (t + 3) (line.drop (t + 3))
    some [("code", 0, p), ("token", t, t + 3), ("comment", c.1, c.2)]

/-- `\s*\*+/` at the start of `s`: (token start, token end) relative to `s` -/
def endTokenAt (s : Str) : Option (Nat × Nat) :=
  let w := countWs s
  let r := s.drop w
  let k := countWhile (· == '*') r
  if k = 0 then none
  else match r.drop k with
    | '/' :: _ => some (w, w + k + 1)
    | _ => none

def findEnd : Str → Nat → Option (Nat × Nat × Nat)
  | [], _ => none
  | c :: cs, off =>
    match endTokenAt (c :: cs) with
    | some (ts, te) => some (off, off + ts, off + te)
    | none => findEnd cs (off + 1)

/-- COMMENT_BLOCK_END_RE -/
def matchEnd (line : Str) : MatchRes :=
  let a := countWs line
  match findEnd (line.drop a) a with
  | none => none
  | some (q, ts, te) =>
    some [("comment", a, q), ("token", ts, te), ("code", te, te + (rstrip (line.drop te)).length)]

/-- `\s*\*` at the start of `s`: offset just after the asterisk -/
def asteriskAt (s : Str) : Option Nat :=
  let w := countWs s
  match s.drop w with
  | '*' :: _ => some (w + 1)
  | _ => none

def findAsterisk : Str → Nat → Option (Nat × Nat)
  | [], _ => none
  | c :: cs, off =>
    match asteriskAt (c :: cs) with
    | some e => some (off, off + e)
    | none => findAsterisk cs (off + 1)

/-- COMMENT_ASTERISK_RE: groups and `result.end(0)` -/
def matchAsterisk (line : Str) : Option (List Group × Nat) :=
  let a := countWs line
  match findAsterisk (line.drop a) a with
  | none => none
  | some (q, e) =>
    let e' := match line.drop e with
      | c :: _ => if isSpace c then e + 1 else e
      | [] => e
    some ([("comment", a, q)], e')

/-- INDENTATION_RE (always matches a line) -/
def matchIndentation (line : Str) : List Group := [("indentation", 0, countWs line)]

/-- EMPTY_LINE_RE -/
def matchEmpty (line : Str) : Bool := line.all isSpace

/-! ### identifiers -/

/-- `[\w-]*\w` at the start of `s`: length of the match -/
def nameLen (s : Str) : Option Nat :=
  let run := s.takeWhile isWordDash
  let trimmed := (run.reverse.dropWhile (fun c => !isWord c)).reverse
  if trimmed.isEmpty then none else some trimmed.length

/-- `\s*(?P<delimiter>:?)\s*(?P<fields>.*?)\s*:?\s*$` at offset `pos` -/
def identTail (line : Str) (pos : Nat) : List Group :=
  let d0 := pos + countWs (line.drop pos)
  let d1 := match line.drop d0 with
    | ':' :: _ => d0 + 1
    | _ => d0
  let f := d1 + countWs (line.drop d1)
  [("delimiter", d0, d1), ("fields", f, f + lazyFieldsLen (line.drop f))]

/-- SYMBOL_RE -/
def matchSymbol (line : Str) : MatchRes :=
  let a := countWs line
  match nameLen (line.drop a) with
  | none => none
  | some n => some (("symbol_name", a, a + n) :: identTail line (a + n))

/-- PROPERTY_RE / SIGNAL_RE / FIELD_RE: `\s*(?P<class_name>\w+)\s*SEP\s*(?P<NAME>[\w-]*\w)` + tail -/
def matchClassMember (sep : Str) (member : String) (line : Str) : MatchRes :=
  let a := countWs line
  let c := countWhile isWord (line.drop a)
  if c = 0 then none
  else
    let s0 := a + c + countWs (line.drop (a + c))
    if !hasPrefix (line.drop s0) sep then none
    else
      let m0 := s0 + sep.length + countWs (line.drop (s0 + sep.length))
      match nameLen (line.drop m0) with
      | none => none
      | some n => some (("class_name", a, a + c) :: (member, m0, m0 + n) :: identTail line (m0 + n))

def matchProperty := matchClassMember [':'] "property_name"
def matchSignal := matchClassMember [':', ':'] "signal_name"
def matchField := matchClassMember ['.'] "field_name"

/-- ACTION_RE -/
def matchAction (line : Str) : MatchRes :=
  let a := countWs line
  let c := countWhile isWord (line.drop a)
  if c = 0 then none
  else
    let s0 := a + c + countWs (line.drop (a + c))
    match line.drop s0 with
    | '|' :: _ =>
      let m0 := s0 + 1 + countWs (line.drop (s0 + 1))
      let r1 := countWhile isWordDash (line.drop m0)
      if r1 = 0 then none
      else match line.drop (m0 + r1) with
        | '.' :: rest =>
          let r2 := countWhile isWordDash rest
          if r2 = 0 then none
          else some (("class_name", a, a + c) :: ("action_name", m0, m0 + r1 + 1 + r2) ::
                     identTail line (m0 + r1 + 1 + r2))
        | _ => none
    | _ => none

/-- name part of SECTION_RE: `\w\S+?` followed by `\s*:?\s*$`; `s` starts after the `\w` -/
def sectionNameLen : Str → Option Nat
  | [] => none
  | c :: cs =>
    if isSpace c then none
    else if tailOK cs then some 1
    else (sectionNameLen cs).map (· + 1)

/-- SECTION_RE -/
def matchSection (line : Str) : MatchRes :=
  let a := countWs line
  if !hasPrefix (line.drop a) (str "SECTION") then none
  else
    let b1 := a + 7 + countWs (line.drop (a + 7))
    let b2 := match line.drop b1 with
      | ':' :: _ => b1 + 1
      | _ => b1
    let p := b2 + countWs (line.drop b2)
    match line.drop p with
    | c :: cs =>
      if !isWord c then none
      else match sectionNameLen cs with
        | none => none
        | some m => some [("delimiter", b1, b2), ("section_name", p, p + 1 + m)]
    | [] => none

/-! ### parameters and tags -/

/-- `\s*:` at the start of `s`: offset just after the colon -/
def colonAfterWs (s : Str) : Option Nat :=
  let w := countWs s
  match s.drop w with
  | ':' :: _ => some (w + 1)
  | _ => none

/-- second alternative of the parameter name: `.*?\.\.\.` followed by `\s*:`;
    returns (name length, offset after the colon), both relative to `s` -/
def dotsName : Str → Nat → Option (Nat × Nat)
  | [], _ => none
  | c :: cs, off =>
    if hasPrefix (c :: cs) ['.', '.', '.'] then
      match colonAfterWs ((c :: cs).drop 3) with
      | some e => some (off + 3, off + 3 + e)
      | none => dotsName cs (off + 1)
    else dotsName cs (off + 1)

/-- PARAMETER_RE -/
def matchParameter (line : Str) : MatchRes :=
  let a := countWs line
  match line.drop a with
  | '@' :: rest =>
    let p := a + 1
    let run := countWhile isWordDash rest
    let alt1 : Option (Nat × Nat) :=
      if run = 0 then none
      else match (rest.take run).getLast? with
        | some l =>
          if isWord l then (colonAfterWs (rest.drop run)).map (fun e => (run, run + e)) else none
        | none => none
    let alt := match alt1 with
      | some r => some r
      | none => dotsName rest 0
    match alt with
    | none => none
    | some (n, e) =>
      let f := trimmedSpan (p + e) (line.drop (p + e))
      some [("parameter_name", p, p + n), ("fields", f.1, f.2)]
  | _ => none

/-- one tag alternative (`' '` in the table stands for `\s`), case-insensitively -/
def tagAltAt : Str → Str → Bool
  | _, [] => true
  | [], _ :: _ => false
  | c :: cs, t :: ts => (if t = ' ' then isSpace c else icaseMatch t c) && tagAltAt cs ts

/-- TAG_RE: alternatives in the order of ALL_TAGS, the first one that is followed by `\s*:` -/
def matchTagFrom (line : Str) (a : Nat) : List String → MatchRes
  | [] => none
  | t :: ts =>
    let s := line.drop a
    if tagAltAt s t.toList then
      match colonAfterWs (s.drop t.length) with
      | some e =>
        let f := trimmedSpan (a + t.length + e) (line.drop (a + t.length + e))
        some [("tag_name", a, a + t.length), ("fields", f.1, f.2)]
      | none => matchTagFrom line a ts
    else matchTagFrom line a ts

def matchTag (line : Str) : MatchRes := matchTagFrom line (countWs line) Gen.allTags

/-- `\s*(?P<delimiter>:?)\s*(?P<description>.*?)\s*$` at offset `pos` -/
def valueTail (line : Str) (pos : Nat) : List Group :=
  let d0 := pos + countWs (line.drop pos)
  let d1 := match line.drop d0 with
    | ':' :: _ => d0 + 1
    | _ => d0
  let f := trimmedSpan d1 (line.drop d1)
  [("delimiter", d0, d1), ("description", f.1, f.2)]

/-- TAG_VALUE_VERSION_RE (always matches) -/
def matchVersion (s : Str) : List Group :=
  let a := countWs s
  let v := countWhile isVersionChar (s.drop a)
  ("value", a, a + v) :: valueTail s (a + v)

/-- TAG_VALUE_STABILITY_RE (always matches) -/
def matchStability (s : Str) : List Group :=
  let a := countWs s
  let v := match Gen.stabilityValues.find? (fun t => tagAltAt (s.drop a) t.toList) with
    | some t => t.length
    | none => 0
  ("value", a, a + v) :: valueTail s (a + v)

/-- text of a group -/
def groupText (line : Str) (g : List Group) (name : String) : Str :=
  match g.find? (fun e => e.1 == name) with
  | some (_, s, e) => (line.drop s).take (e - s)
  | none => []

def groupStart (g : List Group) (name : String) : Nat :=
  match g.find? (fun e => e.1 == name) with
  | some (_, s, _) => s
  | none => 0

def groupEnd (g : List Group) (name : String) : Nat :=
  match g.find? (fun e => e.1 == name) with
  | some (_, _, e) => e
  | none => 0

end GIVerif.AnnParse
