/-
  C10 model, part 5: `GtkDocCommentBlockWriter` of giscanner/annotationparser.py —
  `_serialize_parameter`, `_serialize_tag`, `write` (`_serialize_annotations` is in Tokenizer.lean).
  `Counter(block.indentation).most_common(1)[0][0]` is the one partial step (IndexError for a block
  without recorded indentation, i.e. one that was not produced by the parser).
-/
import GIVerif.Model.AnnParse.Block

namespace GIVerif.AnnParse
open GIVerif.Py

/-- `': ' + description` or `':' + description` when the description starts on the next line -/
def descSuffix (d : Str) : Str :=
  match d with
  | '\n' :: _ => ':' :: d
  | _ => ':' :: ' ' :: d

/-- `_serialize_parameter` -/
def serializeParameter (p : PartM) : List Str :=
  let s := '@' :: p.name
  let s := if p.annotations.isEmpty then s else s ++ ':' :: ' ' :: serializeAnnotations p.annotations
  let s := if truthy p.description then s ++ descSuffix (p.description.getD []) else s ++ [':']
  splitChar '\n' s []

/-- `_serialize_tag` -/
def serializeTag (t : PartM) : List Str :=
  let s := pyCapitalize t.name
  let s := if t.annotations.isEmpty then s else s ++ ':' :: ' ' :: serializeAnnotations t.annotations
  let s := if truthy t.value then s ++ ':' :: ' ' :: t.value.getD [] else s
  let s := if truthy t.description then s ++ descSuffix (t.description.getD []) else s
  let s := if !truthy t.value && !truthy t.description then s ++ [':'] else s
  splitChar '\n' s []

/-- `Counter(l).most_common(1)`: the element with the highest count, the earliest one among equals
    (walking over the list in order and replacing the candidate only by a strictly more frequent element
    visits the distinct elements in first-occurrence order, which is the order `Counter` keeps) -/
def mostCommon (l : List Str) : Option Str :=
  l.foldl (fun best k => match best with
    | none => some k
    | some b => if l.count k > l.count b then some k else some b) none

/-- `re.match(r'^ACTION:(\w+):([\w-]+\.[\w-]+)$', name)`: the two groups.  No character class overlaps the
    literal that follows it, so every repetition is the maximal run; `$` also matches before a final `\n`. -/
def matchActionName (name : Str) : Option (Str × Str) :=
  if !hasPrefix name (str "ACTION:") then none
  else
    let r0 := name.drop 7
    let c := countWhile isWord r0
    if c = 0 then none
    else match r0.drop c with
      | ':' :: r1 =>
        let g := countWhile isWordDash r1
        if g = 0 then none
        else match r1.drop g with
          | '.' :: r2 =>
            let a := countWhile isWordDash r2
            if a = 0 then none
            else if r2.drop a = [] ∨ r2.drop a = ['\n'] then some (r0.take c, r1.take (g + 1 + a))
            else none
          | _ => none
      | _ => none

/-- the identifier line: `SECTION:name` verbatim, an action as `Class|group.action`, everything else with
    its colon and annotations -/
def identifierLine (b : BlockM) : Str :=
  if startsWith b.name (str "SECTION:") then b.name
  else match matchActionName b.name with
    | some (cls, act) => cls ++ '|' :: act
    | none =>
      if b.annotations.isEmpty then b.name ++ [':']
      else b.name ++ ':' :: ' ' :: serializeAnnotations b.annotations

/-- the lines of the comment body, before ` * ` is put in front of them -/
def bodyLines (b : BlockM) : List Str :=
  let ident : Str := identifierLine b
  let params := (b.params.map (fun e => serializeParameter e.2)).flatten
  let desc := if truthy b.description then [] :: splitChar '\n' (b.description.getD []) [] else []
  let tags := if b.tags.isEmpty then [] else [] :: (b.tags.map (fun e => serializeTag e.2)).flatten
  ident :: params ++ desc ++ tags

/-- `(start_indent, line_indent)` for `self.indent == True` -/
def writeIndents (b : BlockM) : Except PyErr (Str × Str) :=
  match mostCommon b.indentation with
  | none => .error .indexError
  | some i0 =>
    let indent := if i0.isEmpty then [' '] else i0
    if endsWith indent ['\t'] then .ok (indent, indent ++ [' '])
    else .ok (indent.dropLast, indent)

/-- `GtkDocCommentBlockWriter(indent=True).write(block)` for a block that is not `None` -/
def writeBlock (b : BlockM) : Except PyErr Str :=
  match writeIndents b with
  | .error e => .error e
  | .ok (startIndent, lineIndent) =>
    let body := (bodyLines b).map (fun l =>
      if l.isEmpty then lineIndent ++ ['*', '\n'] else lineIndent ++ '*' :: ' ' :: l ++ ['\n'])
    let lines := (startIndent ++ str "/**\n") :: body ++ [lineIndent ++ str "*/\n"]
    let lines := if b.codeBefore.isEmpty then lines else (b.codeBefore ++ ['\n']) :: lines
    let lines := if b.codeAfter.isEmpty then lines else lines ++ [b.codeAfter ++ ['\n']]
    .ok lines.flatten

end GIVerif.AnnParse
