/-
  C10/C11 model, part 2 (layer 1): the annotation tokenizer of
  giscanner/annotationparser.py — `_parse_annotation_options_list/_dict/_unknown`,
  `_parse_annotation`, `_parse_annotations` (character state machine), `_parse_fields`
  and `GtkDocCommentBlockWriter._serialize_annotations`.  One definition per Python
  function, same branch order.
-/
import GIVerif.Model.AnnParse.Basic

namespace GIVerif.AnnParse
open GIVerif.Py

def isListAnn (n : Str) : Bool := inTable Gen.listAnnotations n
def isDictAnn (n : Str) : Bool := inTable Gen.dictAnnotations n

/-- `_parse_annotation_options_unknown`: `[options.strip()]` when `options` is truthy, else the
    implicit `return None` -/
def optionsUnknown (options : Option Str) : Opts :=
  match options with
  | some o => if o.isEmpty then .none else .list [strip o]
  | none => .none

/-- `_parse_annotation_options_list` -/
def optionsList (col : Nat) (options : Option Str) : Opts × List TDiag :=
  match options with
  | none => (.list [], [])
  | some o =>
    if o.isEmpty then (.list [], [])
    else match findChar '=' o with
      | some k => (optionsUnknown (some o), [⟨.warning, .listGotKeyValue, col + k⟩])
      | none => (.list (splitChar ' ' o []), [])

/-- `p.split('=', 1)` → (key, value or None) -/
def keyValue (p : Str) : Str × Option Str := split1 '=' p

/-- `_parse_annotation_options_dict` -/
def optionsDict (options : Option Str) : Opts :=
  match options with
  | none => .dict []
  | some o =>
    if o.isEmpty then .dict []
    else .dict ((splitChar ' ' o []).foldl (fun d p => assocSet d (keyValue p).1 (keyValue p).2) [])

/-- the `(attribute ...)` branch of `_parse_annotation`: the options are parsed as a list and
    glued back into one `key=value` (or bare `key`) option of `(attributes ...)` -/
def attributeStep (col : Nat) (opts0 : Option Str) :
    Except PyErr (Option (Str × Option Str) × List TDiag) :=
  let d0 : List TDiag := [⟨.warning, .attributeDeprecated, col⟩]
  let lo := optionsList col opts0
  match pyLen lo.1 with
  | .error e => .error e
  | .ok n =>
    if n = 1 then
      match pyItem lo.1 0 with
      | .error e => .error e
      | .ok a => .ok (some (str Gen.annAttributes, some a), d0 ++ lo.2)
    else if n = 2 then
      match pyItem lo.1 0, pyItem lo.1 1 with
      | .ok a, .ok b => .ok (some (str Gen.annAttributes, some (a ++ '=' :: b)), d0 ++ lo.2)
      | .error e, _ => .error e
      | _, .error e => .error e
    else
      .ok (none, d0 ++ lo.2 ++ [⟨.error, .malformedAttribute, col⟩])

/-- first half of `_parse_annotation`: the deprecated spellings -/
def deprecatedStep (col : Nat) (name0 : Str) (opts0 : Option Str) :
    Except PyErr (Option (Str × Option Str) × List TDiag) :=
  if name0 = str Gen.annInoutAlt then
    .ok (some (str Gen.annInout, opts0), [⟨.warning, .inoutDeprecated, col⟩])
  else if name0 = str Gen.annAttribute then attributeStep col opts0
  else .ok (some (name0, opts0), [])

/-- second half of `_parse_annotation`: `column += len(ann_name) + 2` and the options parser
    chosen by the annotation's class -/
def classStep (col : Nat) (name : Str) (opts : Option Str) : (Str × Opts) × List TDiag :=
  let col' := col + name.length + 2
  if isListAnn name then
    let lo := optionsList col' opts
    ((name, lo.1), lo.2)
  else if isDictAnn name then ((name, optionsDict opts), [])
  else ((name, optionsUnknown opts), [])

/-- `_parse_annotation`: `(name or None, options)`, with the diagnostics it logs.
    `col` is the column of the annotation's opening parenthesis. -/
def parseAnnotation (col : Nat) (annotation : Str) :
    Except PyErr (Option (Str × Opts) × List TDiag) :=
  let parts := split1 ' ' (replaceAngles annotation)
  match deprecatedStep col (pyLower parts.1) parts.2 with
  | .error e => .error e
  | .ok (none, d) => .ok (none, d)
  | .ok (some (name, opts), d) =>
    let r := classStep col name opts
    .ok (some r.1, d ++ r.2)

/-- loop state of `_parse_annotations` -/
structure St where
  parens : Nat
  prev : Option Char
  buf : Str
  startPos : Nat
  endPos : Nat
  anns : Anns
  raw : List Str
  changed : Bool
  diags : List TDiag
  deriving Repr, DecidableEq

inductive Outcome where
  | cont (s : St)
  | brk (s : St)
  | fail (d : List TDiag)
  | raise (e : PyErr)
  deriving Repr, DecidableEq

/-- the `parens_level == 0` branch of a closing parenthesis -/
def closeAnn (parseOptions : Bool) (col : Nat) (s : St) (i : Nat) (c : Char) : Outcome :=
  if parseOptions then
    match parseAnnotation (col + s.startPos) (strip s.buf) with
    | .error e => .raise e
    | .ok (none, d) =>
      .cont { s with parens := 0, prev := some c, buf := [], endPos := i + 1, diags := s.diags ++ d }
    | .ok (some (name, opts), d) =>
      let d2 : List TDiag :=
        if assocHas s.anns name then [⟨.error, .multipleAnn, col + i⟩] else []
      .cont { s with parens := 0, prev := some c, buf := [], endPos := i + 1,
                     anns := assocSet s.anns name opts, changed := true,
                     diags := s.diags ++ d ++ d2 }
  else
    .cont { s with parens := 0, prev := some c, buf := [], endPos := i + 1,
                   raw := s.raw ++ [strip s.buf], changed := true }

/-- one iteration of `for i, cur_char in enumerate(fields)` -/
def step (parseOptions : Bool) (col : Nat) (s : St) (i : Nat) (c : Char) : Outcome :=
  if c = '(' then
    if s.prev = some '(' then
      .fail (s.diags ++ [⟨.error, .unexpectedParens, col + i⟩])
    else if s.parens = 0 then
      .cont { s with parens := 1, startPos := i, prev := some c }
    else
      .cont { s with parens := s.parens + 1, buf := s.buf ++ [c], prev := some c }
  else if c = ')' then
    if s.prev = some '(' then
      .fail (s.diags ++ [⟨.error, .unexpectedParens, col + i⟩])
    else if s.parens = 0 then
      .fail (s.diags ++ [⟨.error, .unbalancedParens, col + i⟩])
    else if s.parens = 1 then
      closeAnn parseOptions col s i c
    else
      .cont { s with parens := s.parens - 1, buf := s.buf ++ [c], prev := some c }
  else if isSpace c then
    if s.parens > 0 then .cont { s with buf := s.buf ++ [c], prev := some c }
    else .cont { s with prev := some c }
  else
    if s.parens = 0 then .brk s
    else .cont { s with buf := s.buf ++ [c], prev := some c }

inductive LoopRes where
  | done (s : St)
  | fail (d : List TDiag)
  | raise (e : PyErr)
  deriving Repr, DecidableEq

def loop (parseOptions : Bool) (col : Nat) : Str → Nat → St → LoopRes
  | [], _, s => .done s
  | c :: cs, i, s =>
    match step parseOptions col s i c with
    | .cont s' => loop parseOptions col cs (i + 1) s'
    | .brk s' => .done s'
    | .fail d => .fail d
    | .raise e => .raise e

/-- `_ParseAnnotationsResult` plus the diagnostics logged on the way -/
inductive AnnResult where
  | ok (anns : Anns) (raw : List Str) (changed : Bool) (startPos endPos : Nat) (diags : List TDiag)
  | fail (diags : List TDiag)
  | raise (e : PyErr)
  deriving Repr, DecidableEq

def initSt (init : Option Anns) : St :=
  { parens := 0, prev := none, buf := [], startPos := 0, endPos := 0,
    anns := init.getD [], raw := [], changed := false, diags := [] }

/-- `_parse_annotations(position, column, line, fields, annotations, parse_options)` -/
def parseAnnotations (parseOptions : Bool) (col : Nat) (fields : Str) (init : Option Anns) : AnnResult :=
  match loop parseOptions col fields 0 (initSt init) with
  | .raise e => .raise e
  | .fail d => .fail d
  | .done s =>
    if s.parens > 0 then
      .fail (s.diags ++ [⟨.error, .unbalancedParens, col + (fields.length - 1)⟩])
    else .ok s.anns s.raw s.changed s.startPos s.endPos s.diags

/-- `_ParseFieldsResult` plus diagnostics -/
structure FieldsResult where
  success : Bool
  anns : Anns
  raw : List Str
  changed : Bool
  description : Str
  diags : List TDiag
  deriving Repr, DecidableEq

/-- `_parse_fields` -/
def parseFields (parseOptions validateDescription : Bool) (col : Nat) (fields : Str)
    (init : Option Anns) : Except PyErr FieldsResult :=
  match parseAnnotations parseOptions col fields init with
  | .raise e => .error e
  | .fail d => .ok { success := false, anns := [], raw := [], changed := false, description := [], diags := d }
  | .ok a raw ch _ ep d =>
    let desc := strip (fields.drop ep)
    if !desc.isEmpty && validateDescription then
      match desc with
      | ':' :: rest => .ok { success := true, anns := a, raw := raw, changed := ch, description := rest, diags := d }
      | _ =>
        let d2 : List TDiag := if ep > 0 then [⟨.warning, .missingColon, col + ep⟩] else []
        .ok { success := true, anns := a, raw := raw, changed := ch, description := desc, diags := d ++ d2 }
    else .ok { success := true, anns := a, raw := raw, changed := ch, description := desc, diags := d }

/-! ### how `parse_comment_block` applies a `_parse_fields` result to a part -/

/-- first line of a parameter/tag: `if result.success: part.annotations = result.annotations`
    (the part is new: its annotations are empty) -/
def applyFirst (r : FieldsResult) : Anns := if r.success then r.anns else []

/-- continuation line: `if r.success and r.annotations_changed: part.annotations = r.annotations` -/
def applyContinuation (cur : Anns) (r : FieldsResult) : Anns :=
  if r.success && r.changed then r.anns else cur

/-! ### the writer -/

/-- one iteration of the writer's loop over a dict's items (`if value is not None:`) -/
def dictStep (acc : Str) (kv : Str × Option Str) : Str :=
  match kv.2 with
  | some v => acc ++ kv.1 ++ '=' :: v ++ [' ']
  | none => acc ++ kv.1 ++ [' ']

/-- options part of one serialized annotation (`None` = bare `(name)`) -/
def serializeOptions : Opts → Option Str
  | .none => none
  | .list [] => none
  | .list l => some (join [' '] l)
  | .dict [] => none
  | .dict d => some (strip (d.foldl dictStep []))

def serializeAnnotation (a : Str × Opts) : Str :=
  match serializeOptions a.2 with
  | some o => '(' :: a.1 ++ ' ' :: o ++ [')']
  | none => '(' :: a.1 ++ [')']

/-- `GtkDocCommentBlockWriter._serialize_annotations` -/
def serializeAnnotations (a : Anns) : Str := join [' '] (a.map serializeAnnotation)

end GIVerif.AnnParse
