/-
  C10/C11 model, part 4 (layer 3): the block state machine
  `GtkDocCommentBlockParser.parse_comment_block` of giscanner/annotationparser.py, statement by
  statement: line-ending normalisation, start/end token handling, the per-line loop
  (identifier, parameters, description break, tags incl. the deprecated tag forms,
  continuation lines), the final clean-up.  `GtkDocAnnotatable.validate()` only logs
  (its one partial operation, `len(options)`, is `pyLen` in Props/C11) and is not part of the
  block value; it is not modelled here.

  (As of /repo b545356 continued and deprecated-tag annotations keep a position, as of 4fa4c2f text in
  front of the closing token is diagnosed against its source line.)

  Every partial Python operation is an explicit `Except PyErr` step:
  `comment_lines[-1]` (IndexError on an empty list), `line_indent <= part_indent`
  (TypeError when `part_indent` is None), `current_part.description` (AttributeError when
  `current_part` is None), a `None` annotation name used as a key.
  Objects that Python mutates through references (`current_part`) are written through:
  the state keeps the current part AND stores it under its key in `params` / `tags` on every
  update (the current part is always the part created last, so it is the one under its key).
-/
import GIVerif.Model.AnnParse.Tokenizer
import GIVerif.Model.AnnParse.Matchers
import GIVerif.Gen.AnnCase

namespace GIVerif.AnnParse
open GIVerif.Py

/-! ### values -/

/-- one `warn()` / `error()` call of the block parser: `Position(filename, line)`, and for the
    calls that pass them `marker_pos` and `marker_line` -/
structure BDiag where
  level : Level
  kind : DKind
  line : Nat
  marker : Option Nat
  quoted : Option Str
  deriving Repr, DecidableEq

/-- `GtkDocParameter` / `GtkDocTag` (`value` stays `none` for parameters).  `line` is
    `part.position.line`, `annsLine` is `part.annotations.position` (`none` = Python `None`). -/
structure PartM where
  name : Str
  line : Nat
  annotations : Anns
  annsLine : Option Nat
  value : Option Str
  description : Option Str
  deriving Repr, DecidableEq

/-- `GtkDocCommentBlock` -/
structure BlockM where
  name : Str
  line : Nat
  annotations : Anns
  annsLine : Option Nat
  params : List (Str × PartM)
  description : Option Str
  tags : List (Str × PartM)
  codeBefore : Str
  codeAfter : Str
  indentation : List Str
  deriving Repr, DecidableEq

inductive InPart where
  | ident | params | desc | tags
  deriving Repr, DecidableEq

/-- the local variables of the `for line in comment_lines` loop -/
structure BSt where
  block : Option BlockM
  identWarned : Bool
  blockIndent : List Str
  partIndent : Option Nat
  inPart : Option InPart
  cur : Option (Bool × PartM)      -- `current_part`: (is it in `tags`?, the part)
  returnsSeen : Bool
  diags : List BDiag
  deriving Repr, DecidableEq

def BSt.init : BSt :=
  { block := none, identWarned := false, blockIndent := [], partIndent := none, inPart := none,
    cur := none, returnsSeen := false, diags := [] }

/-! ### small Python pieces -/

/-- `re.sub(LINE_BREAK_RE, '\n', comment).split('\n')` (LINE_BREAK_RE = `\r\n|\r|\n`, leftmost
    alternative first: a `\r` takes a directly following `\n` with it — `afterCR` says that the
    previous character was such a `\r`, which has already ended the line) -/
def commentLinesAux : Str → Str → Bool → List Str
  | [], acc, _ => [acc.reverse]
  | c :: cs, acc, afterCR =>
    if c = '\n' then
      if afterCR then commentLinesAux cs acc false else acc.reverse :: commentLinesAux cs [] false
    else if c = '\r' then acc.reverse :: commentLinesAux cs [] true
    else commentLinesAux cs (c :: acc) false

def commentLines (comment : Str) : List Str := commentLinesAux comment [] false

/-- truthiness of a Python `str` or `None` -/
def truthy : Option Str → Bool
  | some s => !s.isEmpty
  | none => false

/-- truthiness of annotation options (`if stored_annotation:`) -/
def optsTruthy : Opts → Bool
  | .none => false
  | .list l => !l.isEmpty
  | .dict d => !d.isEmpty

/-- `'%s' % x` for a `str` or `None` -/
def fmtOpt : Option Str → Str
  | some s => s
  | none => str "None"

/-- `description = line` / `description += '\n' + line` -/
def appendDesc (d : Option Str) (line : Str) : Option Str :=
  match d with
  | none => some line
  | some x => some (x ++ '\n' :: line)

/-- `len(result.group('indentation').replace('\t', '  '))` for INDENTATION_RE on `line` -/
def lineIndent (line : Str) : Nat :=
  ((line.take (countWs line)).map (fun c => if c = '\t' then 2 else 1)).sum

/-- `s.replace(' ', '-')` -/
def spacesToDashes (s : Str) : Str := s.map (fun c => if c = ' ' then '-' else c)

/-- first character of `s.capitalize()`: the title-case mapping (table complete on `Gen.titleDomain`) -/
def titleChar (c : Char) : Str :=
  match Gen.pyTitleFirst.find? (fun e => e.1 == c.toNat) with
  | some e => e.2.map Char.ofNat
  | none => [c]

/-- `s.capitalize()` -/
def pyCapitalize : Str → Str
  | [] => []
  | c :: cs => titleChar c ++ pyLower cs

def tdiagsAt (ln : Nat) (quoted : Str) (ds : List TDiag) : List BDiag :=
  ds.map (fun d => { level := d.level, kind := d.kind, line := ln, marker := some d.marker, quoted := some quoted })

def mkDiag (lv : Level) (k : DKind) (ln m : Nat) (q : Str) : BDiag :=
  { level := lv, kind := k, line := ln, marker := some m, quoted := some q }

def mkDiagPos (lv : Level) (k : DKind) (ln : Nat) : BDiag :=
  { level := lv, kind := k, line := ln, marker := none, quoted := none }

def BSt.log (st : BSt) (ds : List BDiag) : BSt := { st with diags := st.diags ++ ds }

/-! ### the identifier line -/

/-- what the chain SECTION_RE, PROPERTY_RE, SIGNAL_RE, ACTION_RE, FIELD_RE, SYMBOL_RE leaves in
    `identifier_name/_delimiter/_fields/_fields_start` and `result.start('delimiter')` -/
structure IdentM where
  name : Str
  delimiter : Option Str
  fields : Option Str
  fieldsStart : Nat
  delimStart : Nat
  deriving Repr, DecidableEq

def identOf (line : Str) (g : List Group) (name : Str) : IdentM :=
  { name := name, delimiter := some (groupText line g "delimiter"), fields := some (groupText line g "fields"),
    fieldsStart := groupStart g "fields", delimStart := groupStart g "delimiter" }

def matchIdentifier (line : Str) : Option IdentM :=
  match matchSection line with
  | some g => some { name := str "SECTION:" ++ groupText line g "section_name", delimiter := none, fields := none,
                     fieldsStart := 0, delimStart := 0 }
  | none =>
  match matchProperty line with
  | some g => some (identOf line g (groupText line g "class_name" ++ ':' :: groupText line g "property_name"))
  | none =>
  match matchSignal line with
  | some g => some (identOf line g (groupText line g "class_name" ++ ':' :: ':' :: groupText line g "signal_name"))
  | none =>
  match matchAction line with
  | some g => some { name := str "ACTION:" ++ groupText line g "class_name" ++ ':' :: groupText line g "action_name",
                     delimiter := none, fields := none, fieldsStart := 0, delimStart := 0 }
  | none =>
  match matchField line with
  | some g => some (identOf line g (groupText line g "class_name" ++ '.' :: groupText line g "field_name"))
  | none =>
  match matchSymbol line with
  | some g => some (identOf line g (groupText line g "symbol_name"))
  | none => none

/-- header data every new block gets: `comment_block_pos.line`, `code_before`, `code_after` -/
structure Hdr where
  line : Nat
  codeBefore : Str
  codeAfter : Str
  deriving Repr, DecidableEq

def newBlock (h : Hdr) (name : Str) : BlockM :=
  { name := name, line := h.line, annotations := [], annsLine := none, params := [], description := none,
    tags := [], codeBefore := h.codeBefore, codeAfter := h.codeAfter, indentation := [] }

/-- `if not result:` — "identifier not found on the first line", reported once -/
def identNotFound (st : BSt) (ln col : Nat) (orig : Str) : BSt :=
  if st.identWarned then st
  else { st with identWarned := true, diags := st.diags ++ [mkDiag .error .identNotFound ln col orig] }

/-- the `if comment_block is None:` branch of the loop body -/
def identStep (h : Hdr) (st : BSt) (ln col : Nat) (orig line : Str) (indent : Nat) : Except PyErr BSt :=
  match matchIdentifier line with
  | none => .ok (identNotFound st ln col orig)
  | some im =>
    let blk := newBlock h im.name
    let st1 := { st with inPart := some .ident, partIndent := some indent, block := some blk }
    if truthy im.fields then
      let f := im.fields.getD []
      match parseAnnotations true (col + im.fieldsStart) f none with
      | .raise e => .error e
      | .fail d => .ok (st1.log (tdiagsAt ln orig d))
      | .ok a _ _ _ ep d =>
        let st2 := st1.log (tdiagsAt ln orig d)
        if !(strip (f.drop ep)).isEmpty then
          -- not an identifier due to an invalid trailing description field
          .ok (identNotFound { st2 with inPart := none, partIndent := none, block := none } ln col orig)
        else
          let d2 := if !truthy im.delimiter && !a.isEmpty
            then [mkDiag .warning .missingColon ln (col + im.delimStart) orig] else []
          .ok ({ st2 with block := some { blk with annotations := a, annsLine := some ln } }.log d2)
    else .ok st1

/-! ### first line of a parameter or tag -/

/-- `if fields: result = self._parse_fields(position, column, original_line, fields)`:
    `none` when the fields are empty (no call), else the result -/
def firstFields (col : Nat) (fields : Str) : Except PyErr (Option FieldsResult) :=
  if fields.isEmpty then .ok none
  else match parseFields true true col fields none with
    | .error e => .error e
    | .ok r => .ok (some r)

/-- `if result.success: part.annotations = result.annotations; part.description = result.description`
    (a fresh `GtkDocAnnotations(position=position)` is what `_parse_annotations` returns) -/
def applyFirstFields (p : PartM) (ln : Nat) (r : Option FieldsResult) : PartM :=
  match r with
  | some r => if r.success then { p with annotations := r.anns, annsLine := some ln, description := some r.description } else p
  | none => p

def fieldsDiags (ln : Nat) (quoted : Str) (r : Option FieldsResult) : List BDiag :=
  match r with
  | some r => tdiagsAt ln quoted r.diags
  | none => []

def newPart (name : Str) (ln : Nat) : PartM :=
  { name := name, line := ln, annotations := [], annsLine := none, value := none, description := none }

def setTag (blk : BlockM) (t : PartM) : BlockM := { blk with tags := assocSet blk.tags t.name t }
def setParam (blk : BlockM) (p : PartM) : BlockM := { blk with params := assocSet blk.params p.name p }

/-! ### parameters -/

/-- the `result = PARAMETER_RE.match(line); if result:` branch -/
def paramStep (st : BSt) (blk : BlockM) (ln col : Nat) (orig line : Str) (indent : Nat) (g : List Group) :
    Except PyErr BSt :=
  let pname := groupText line g "parameter_name"
  let fields := groupText line g "fields"
  let fstart := groupStart g "fields"
  let mpos := groupStart g "parameter_name" + col
  let d1 := if st.inPart = some .ident ∨ st.inPart = some .params then []
            else [mkDiag .warning .paramUnexpected ln mpos orig]
  let st := { st with partIndent := some indent, inPart := some .params }.log d1
  match firstFields (col + fstart) fields with
  | .error e => .error e
  | .ok r =>
    if pyLower pname = str Gen.tagReturns then
      -- deprecated return value as parameter instead of tag
      let d2 := if st.returnsSeen then [mkDiagPos .error .multipleReturnsParam ln] else []
      let tag := applyFirstFields (newPart (str Gen.tagReturns) ln) ln r
      .ok ({ st with returnsSeen := true, block := some (setTag blk tag), cur := some (true, tag) }.log
             (d2 ++ fieldsDiags ln orig r))
    else
      let deprecated : Bool := decide (pname = str "Varargs") || (endsWith pname (str "...") && decide (pname ≠ str "..."))
      let d2 := if deprecated then [mkDiag .warning .varargsDeprecated ln mpos orig] else []
      let pname := if deprecated then str "..." else pname
      let d3 := if assocHas blk.params pname then [mkDiag .error .multipleParam ln mpos orig] else []
      let p := applyFirstFields (newPart pname ln) ln r
      .ok ({ st with block := some (setParam blk p), cur := some (false, p) }.log
             (d2 ++ d3 ++ fieldsDiags ln orig r))

/-! ### tags -/

/-- one iteration of `for annotation in result.annotations:` of the deprecated `Attributes:` tag;
    `transformed` may already be `None` (then Python formats it as the text "None") -/
def attributesTagFold (ln mpos : Nat) (orig line : Str) (acc : Option Str × List BDiag) (annotation : Str) :
    Except PyErr (Option Str × List BDiag) :=
  let lo := optionsList mpos (some annotation)
  let d := acc.2 ++ tdiagsAt ln line lo.2
  match pyLen lo.1 with
  | .error e => .error e
  | .ok n =>
    if n = 1 then
      match pyItem lo.1 0 with
      | .error e => .error e
      | .ok a => .ok (some (fmtOpt acc.1 ++ ' ' :: a), d)
    else if n = 2 then
      match pyItem lo.1 0, pyItem lo.1 1 with
      | .ok a, .ok b => .ok (some (fmtOpt acc.1 ++ ' ' :: a ++ '=' :: b), d)
      | .error e, _ => .error e
      | _, .error e => .error e
    else .ok (none, d ++ [mkDiag .error .malformedAttributesTag ln mpos orig])

def foldExcept {α β : Type} (f : β → α → Except PyErr β) : List α → β → Except PyErr β
  | [], b => .ok b
  | a :: as, b => match f b a with
    | .error e => .error e
    | .ok b' => foldExcept f as b'

/-- `if tag_name_lower == TAG_ATTRIBUTES:` inside the deprecated branch -/
def attributesTagStep (st : BSt) (blk : BlockM) (ln col : Nat) (orig line : Str) (annName fields : Str)
    (tagStart fstart mpos : Nat) : Except PyErr BSt :=
  match parseFields false false (tagStart + col) (strip fields) none with
  | .error e => .error e
  | .ok r =>
    let st := st.log (tdiagsAt ln line r.diags)
    if !r.success then .ok st
    else
      match foldExcept (attributesTagFold ln mpos orig line) r.raw (some [], []) with
      | .error e => .error e
      | .ok (transformed, d) =>
        let st := st.log d
        if !truthy transformed then .ok st
        else
          let t := annName ++ ' ' :: strip (transformed.getD [])
          match parseAnnotation (col + fstart) t with
          | .error e => .error e
          | .ok (none, _) => .error .keyError        -- annotations[None]: not reachable, `t` starts with "attributes "
          | .ok (some (n, o), d2) =>
            let st := st.log (tdiagsAt ln orig d2)
            if optsTruthy ((assocGet? blk.annotations (str Gen.annAttributes)).getD .none) then
              .ok (st.log [mkDiag .error .duplicateAttributesTag ln mpos orig])
            else
              -- `if comment_block.annotations.position is None: ….position = position`
              .ok { st with block := some { blk with annotations := assocSet blk.annotations n o,
                                                     annsLine := blk.annsLine <|> some ln } }

/-- a regular (non-deprecated-annotation) tag: `in_part` bookkeeping -/
def tagInPart (st : BSt) (blk : BlockM) : Bool :=
  st.inPart = some .desc
  || (st.inPart = some .params && !truthy blk.description)
  || (st.inPart = some .ident && blk.params.isEmpty && !truthy blk.description)

/-- the `result = TAG_RE.match(line); if result and line_indent <= part_indent:` branch -/
def tagStep (st : BSt) (blk : BlockM) (ln col : Nat) (orig line : Str) (indent : Nat) (g : List Group) :
    Except PyErr BSt :=
  let tname := groupText line g "tag_name"
  let lower := pyLower tname
  let fields := groupText line g "fields"
  let fstart := groupStart g "fields"
  let tagStart := groupStart g "tag_name"
  let mpos := tagStart + col
  let st := { st with partIndent := some indent }
  if inTable Gen.deprecatedGiAnnTags lower then
    let st := st.log [mkDiag .warning .giTagDeprecated ln mpos orig]
    let annName := spacesToDashes lower
    if lower = str Gen.tagAttributes then
      attributesTagStep st blk ln col orig line annName fields tagStart fstart mpos
    else
      match parseAnnotation (col + fstart) (annName ++ ' ' :: fields) with
      | .error e => .error e
      | .ok (none, _) => .error .keyError          -- annotations[None]: not reachable, the name is not "attribute"
      | .ok (some (n, o), d) =>
        .ok ({ st with block := some { blk with annotations := assocSet blk.annotations n o,
                                                annsLine := blk.annsLine <|> some ln } }.log (tdiagsAt ln line d))
  else if lower = str Gen.tagDescription then
    .ok ({ st with inPart := some .desc,
                   block := some { blk with description := some (match blk.description with
                     | none => fields
                     | some x => x ++ '\n' :: fields) } }.log
           [mkDiag .warning .descriptionTagDeprecated ln mpos orig])
  else
    let d1 := if tagInPart st blk || st.inPart = some .tags then [] else [mkDiag .warning .tagUnexpected ln mpos orig]
    let st := { st with inPart := some .tags }.log d1
    match firstFields (col + fstart) fields with
    | .error e => .error e
    | .ok r =>
      if inTable Gen.tagReturnsFamily lower then
        let d2 := if st.returnsSeen then [mkDiagPos .error .multipleReturnsTag ln] else []
        let tag := applyFirstFields (newPart (str Gen.tagReturns) ln) ln r
        .ok ({ st with returnsSeen := true, block := some (setTag blk tag), cur := some (true, tag) }.log
               (d2 ++ fieldsDiags ln orig r))
      else
        let d2 := if assocHas blk.tags lower then [mkDiag .error .multipleTag ln mpos orig] else []
        let tag0 := newPart lower ln
        let (tag, d3) : PartM × List BDiag := match r with
          | none => (tag0, [])
          | some r =>
            if !r.success then (tag0, [])
            else
              let d3 := if !r.anns.isEmpty then [mkDiagPos .error .tagAnnotationsUnsupported ln] else []
              if inTable Gen.tagVersioned lower then
                let m := matchVersion r.description
                ({ tag0 with value := some (groupText r.description m "value"),
                             description := some (groupText r.description m "description") }, d3)
              else if lower = str Gen.tagStability then
                let m := matchStability r.description
                ({ tag0 with value := some (pyCapitalize (groupText r.description m "value")),
                             description := some (groupText r.description m "description") }, d3)
              else (tag0, d3)
        .ok ({ st with block := some (setTag blk tag), cur := some (true, tag) }.log
               (d2 ++ fieldsDiags ln orig r ++ d3))

/-! ### continuation lines -/

/-- write the updated current part through to the dict it lives in -/
def storeCur (blk : BlockM) (isTag : Bool) (p : PartM) : BlockM :=
  if isTag then setTag blk p else setParam blk p

/-- "we must be in the middle of a multiline comment block, parameter or tag description" -/
def middleStep (st : BSt) (blk : BlockM) (ln col : Nat) (orig line0 : Str) : Except PyErr BSt :=
  let line := if matchEmpty line0 then line0 else rstrip line0
  if st.inPart = some .ident ∨ st.inPart = some .desc then
    let plain : BSt := { st with block := some { blk with description := appendDesc blk.description line } }
    if !truthy blk.description && st.inPart = some .ident then
      match parseAnnotations true col line (some blk.annotations) with
      | .raise e => .error e
      | .fail d => .ok (plain.log (tdiagsAt ln orig d))
      | .ok a _ ch _ _ d =>
        if ch then
          -- `GtkDocAnnotations(annotations, position=annotations.position or position)`
          .ok ({ st with block := some { blk with annotations := a, annsLine := blk.annsLine <|> some ln } }.log
                 (tdiagsAt ln orig d))
        else .ok (plain.log (tdiagsAt ln orig d))
    else .ok plain
  else if st.inPart = some .params ∨ st.inPart = some .tags then
    match st.cur with
    | none => .error .attributeError            -- `current_part.description` with `current_part` None
    | some (isTag, p) =>
      let plainP := { p with description := appendDesc p.description line }
      let plain (d : List BDiag) : BSt :=
        { st with block := some (storeCur blk isTag plainP), cur := some (isTag, plainP) }.log d
      if !truthy p.description then
        match parseFields true true col line (some p.annotations) with
        | .error e => .error e
        | .ok r =>
          if r.success && r.changed then
            let p' := { p with annotations := r.anns, annsLine := p.annsLine <|> some ln, description := some r.description }
            .ok ({ st with block := some (storeCur blk isTag p'), cur := some (isTag, p') }.log (tdiagsAt ln orig r.diags))
          else .ok (plain (tdiagsAt ln orig r.diags))
      else .ok (plain [])
  else .ok st

/-! ### the loop -/

/-- "Get rid of the ' * ' at the start of the line": the error for text in front of the asterisk,
    `column_offset`, and the rest of the line -/
def stripAsterisk (ln : Nat) (orig : Str) : List BDiag × Nat × Str :=
  match matchAsterisk orig with
  | some (g, e) =>
    (if (groupText orig g "comment").isEmpty then []
     else [mkDiag .error .invalidCommentText ln (groupStart g "comment") orig], e, orig.drop e)
  | none => ([], 0, orig)

/-- the same for the last line when text stands in front of the closing token: `line` is that text, `orig`
    the source line it was cut from and `base` the column at which it starts there -/
def stripAsteriskAt (ln base : Nat) (orig line : Str) : List BDiag × Nat × Str :=
  match matchAsterisk line with
  | some (g, e) =>
    (if (groupText line g "comment").isEmpty then []
     else [mkDiag .error .invalidCommentText ln (base + groupStart g "comment") orig], base + e, line.drop e)
  | none => ([], base, line)

/-- the loop body after the asterisk has been removed: `col` = `column_offset`, `line` = the rest -/
def lineBody (h : Hdr) (st : BSt) (ln col : Nat) (orig line : Str) : Except PyErr BSt :=
  let indent := lineIndent line
  match st.block with
  | none => identStep h st ln col orig line indent
  | some blk =>
    match matchParameter line with
    | some g => paramStep st blk ln col orig line indent g
    | none =>
      if matchEmpty line && (st.inPart = some .ident || st.inPart = some .params) then
        .ok { st with inPart := some .desc, partIndent := some indent }
      else
        match matchTag line with
        | some g =>
          match st.partIndent with
          | none => .error .typeError             -- `line_indent <= None`
          | some pi =>
            if indent ≤ pi then tagStep st blk ln col orig line indent g
            else middleStep st blk ln col orig line
        | none => middleStep st blk ln col orig line

/-- one iteration of `for line in comment_lines:`; `ln` is the already incremented `lineno` -/
def lineStep (h : Hdr) (st : BSt) (ln : Nat) (orig : Str) : Except PyErr BSt :=
  let a := stripAsterisk ln orig
  lineBody h ({ st with blockIndent := st.blockIndent ++ [orig.take (countWs orig)] }.log a.1) ln a.2.1 orig a.2.2

/-- the last iteration when text stands in front of the closing token (`original_line = end_line`,
    `column_offset = end_offset`) -/
def lineStepAt (h : Hdr) (st : BSt) (ln base : Nat) (orig line : Str) : Except PyErr BSt :=
  let a := stripAsteriskAt ln base orig line
  lineBody h ({ st with blockIndent := st.blockIndent ++ [line.take (countWs line)] }.log a.1) ln a.2.1 orig a.2.2

def lineLoop (h : Hdr) : List Str → Nat → BSt → Except PyErr BSt
  | [], _, st => .ok st
  | l :: ls, ln, st =>
    match lineStep h st (ln + 1) l with
    | .error e => .error e
    | .ok st' => lineLoop h ls (ln + 1) st'

/-! ### clean-up -/

/-- `_clean_description_field` -/
def cleanDescription (p : PartM) : PartM :=
  match p.description with
  | none => p
  | some d =>
    if d.isEmpty then p
    else if (strip d).isEmpty then { p with description := none }
    else if matchEmpty (split1 '\n' d).1 then { p with description := some (rstrip d) }
    else { p with description := some (strip d) }

/-- `if comment_block.description: comment_block.description = comment_block.description.strip()` -/
def stripDescription : Option Str → Option Str
  | some d => if d.isEmpty then some d else some (strip d)
  | none => none

/-- "Finished parsing this comment block." -/
def finishBlock (st : BSt) : Option BlockM :=
  match st.block with
  | none => none
  | some blk =>
    some { blk with
      description := stripDescription blk.description,
      tags := blk.tags.map (fun e => (e.1, cleanDescription e.2)),
      params := blk.params.map (fun e => (e.1, cleanDescription e.2)),
      indentation := st.blockIndent }

/-! ### what `validate()` reports against -/

/-- the positions `GtkDocCommentBlock.validate()` reports: `GtkDocAnnotatable.validate` runs for the block, then
    every parameter, then every tag, does nothing for a part without annotations and hands
    `self.annotations.position` to every `warn()` of a part that has some -/
def validatePositions (b : BlockM) : List (Option Nat) :=
  (if b.annotations.isEmpty then [] else [b.annsLine]) ++
  (b.params.filter (fun e => !e.2.annotations.isEmpty)).map (fun e => e.2.annsLine) ++
  (b.tags.filter (fun e => !e.2.annotations.isEmpty)).map (fun e => e.2.annsLine)

/-! ### start and end tokens -/

/-- result of the two token checks: the lines to loop over, the header, the diagnostics -/
structure Opened where
  lines : List Str                       -- the lines between the tokens
  endText : Option (Str × Str × Nat)     -- text in front of the closing token: (text, its source line, its column there)
  hdr : Hdr
  deriving Repr, DecidableEq

/-- everything of `parse_comment_block` before "If we get this far": the diagnostics logged so
    far and, unless the function returned `None`, the lines to loop over -/
def openBlock (lines : List Str) (lineno : Nat) : Except PyErr (Option Opened × List BDiag) :=
  let n := lines.length
  match lines with
  | [] => .error .indexError                      -- `comment_lines[0]`; `split` never returns an empty list
  | first :: rest =>
    match matchStart first with
    | none => .ok (none, [])
    | some g =>
      if n = 1 then .ok (none, [mkDiag .error .skipSingleLine lineno (groupEnd g "code") first])
      else
        let codeBefore := groupText first g "code"
        let comment := groupText first g "comment"
        let d1 := if codeBefore.isEmpty then [] else [mkDiag .warning .codeBeforeStart lineno (groupEnd g "code") first]
        let d2 := if comment.isEmpty then [] else [mkDiag .warning .textAfterStart lineno (groupStart g "comment") first]
        let lines1 := if comment.isEmpty then rest else comment :: rest
        match lines1.getLast? with
        | none => .error .indexError              -- `comment_lines[-1]`
        | some last =>
          match matchEnd last with
          | none => .ok (none, d1 ++ d2)
          | some ge =>
            let codeAfter := groupText last ge "code"
            let commentE := groupText last ge "comment"
            let d3 := if codeAfter.isEmpty then [] else [mkDiag .warning .codeAfterEnd (lineno + n - 1) (groupEnd ge "code") last]
            let d4 := if commentE.isEmpty then [] else [mkDiag .warning .textBeforeEnd (lineno + n - 1) (groupEnd ge "comment") last]
            let endText := if commentE.isEmpty then none else some (commentE, last, groupStart ge "comment")
            .ok (some { lines := lines1.dropLast, endText := endText,
                        hdr := { line := lineno, codeBefore := codeBefore, codeAfter := codeAfter } },
                 d1 ++ d2 ++ d3 ++ d4)

/-- `parse_comment_block` after the split into lines -/
def parseBlockLines (lines : List Str) (lineno : Nat) : Except PyErr (Option BlockM × List BDiag) :=
  match openBlock lines lineno with
  | .error e => .error e
  | .ok (none, d) => .ok (none, d)
  | .ok (some o, d) =>
    match lineLoop o.hdr o.lines lineno { BSt.init with diags := d } with
    | .error e => .error e
    | .ok st =>
      match o.endText with
      | none => .ok (finishBlock st, st.diags)
      | some (text, src, off) =>
        match lineStepAt o.hdr st (lineno + o.lines.length + 1) off src text with
        | .error e => .error e
        | .ok st' => .ok (finishBlock st', st'.diags)

/-- `parse_comment_block(comment, filename, lineno)` without the final `validate()`:
    the block (or `None`) and the diagnostics logged on the way, in order -/
def parseBlock (comment : Str) (lineno : Nat) : Except PyErr (Option BlockM × List BDiag) :=
  parseBlockLines (commentLines comment) lineno

end GIVerif.AnnParse
