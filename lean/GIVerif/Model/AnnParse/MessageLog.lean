/-
  C11 model: giscanner/message.py `MessageLogger.log` (counting, suppression, FATAL) and
  the warnings-as-errors decision at the end of giscanner/scannermain.py `scanner_main`.
-/
import GIVerif.Model.AnnParse.Basic

namespace GIVerif.AnnParse

inductive LogType where
  | warning | error | fatal
  deriving Repr, DecidableEq

/-- the observable state of a `MessageLogger` -/
structure Logger where
  enableWarnings : Bool
  warningCount : Nat
  written : Nat          -- number of messages written to the output stream
  deriving Repr, DecidableEq

def Logger.new (enable : Bool) : Logger := { enableWarnings := enable, warningCount := 0, written := 0 }

/-- `MessageLogger.log`: returns the new state and whether `SystemExit` was raised (FATAL) -/
def Logger.log (lg : Logger) (t : LogType) : Logger × Bool :=
  let lg1 := { lg with warningCount := lg.warningCount + 1 }
  if !lg.enableWarnings && (t = .warning || t = .error) then (lg1, false)
  else
    let lg2 := { lg1 with written := lg1.written + 1 }
    (lg2, t = .fatal)

/-- a run of the parser: a sequence of warn()/error() calls -/
def Logger.logAll (lg : Logger) (ts : List LogType) : Logger :=
  ts.foldl (fun l t => (l.log t).1) lg

/-- `scanner_main`: `if options.warn_fatal and warning_count > 0: message.fatal(...); return 1` -/
def warnFatalFails (warnFatal : Bool) (lg : Logger) : Bool := warnFatal && decide (lg.warningCount > 0)

end GIVerif.AnnParse
