/-
  C10/C11 model, part 1: data types and the Python string operations the comment parser
  uses that are not in GIVerif.Py.Str (strip, lower, find, split(' ', 1), replace).
  Mirrors giscanner/annotationparser.py.  Import-free apart from the Py library and
  generated tables, so it links into the compiled drivers.
-/
import GIVerif.Py.Str
import GIVerif.Gen.AnnVocab

namespace GIVerif.AnnParse
open GIVerif.Py

/-- the Python exceptions a partial operation of the parser could raise -/
inductive PyErr where
  | typeError      -- len(None), None[0], `x in None`
  | indexError     -- l[i] out of range
  | attributeError -- m.group() on a failed match
  | keyError
  deriving Repr, DecidableEq

inductive Level where
  | warning | error
  deriving Repr, DecidableEq

/-- annotation options: `None`, a list, or an ordered dict (key → value or None) -/
inductive Opts where
  | none
  | list (l : List Str)
  | dict (d : List (Str × Option Str))
  deriving Repr, DecidableEq

/-- `GtkDocAnnotations`: an OrderedDict name → options, in insertion order -/
abbrev Anns := List (Str × Opts)

/-- which diagnostic (one constructor per warn()/error() call site of the parser) -/
inductive DKind where
  | unexpectedParens | unbalancedParens | multipleAnn | inoutDeprecated | attributeDeprecated
  | malformedAttribute | listGotKeyValue | missingColon
  -- block level
  | skipSingleLine | codeBeforeStart | textAfterStart | codeAfterEnd | textBeforeEnd
  | invalidCommentText | identMissingColon | identNotFound | paramUnexpected | multipleReturnsParam
  | varargsDeprecated | multipleParam | giTagDeprecated | malformedAttributesTag
  | duplicateAttributesTag | descriptionTagDeprecated | tagUnexpected | multipleReturnsTag
  | multipleTag | tagAnnotationsUnsupported
  -- validate()
  | unexpectedAnnotation | unknownAnnotation | notNullableBoth | notAllowNoneBoth | notOptionalBoth
  | optionCount | invalidOption | arrayNeedsValue | arrayNotInteger | arrayNotBool | arrayLengthNeedsValue
  | arrayInvalidOption
  deriving Repr, DecidableEq

/-- a diagnostic of the tokenizer: relative to the current source line, always with a caret -/
structure TDiag where
  level : Level
  kind : DKind
  marker : Nat
  deriving Repr, DecidableEq

def str (s : String) : Str := s.toList

/-! ### Python str operations -/

/-- `s.lstrip()` -/
def lstrip (s : Str) : Str := s.dropWhile isSpace
/-- `s.rstrip()` -/
def rstrip (s : Str) : Str := (s.reverse.dropWhile isSpace).reverse
/-- `s.strip()` -/
def strip (s : Str) : Str := rstrip (lstrip s)

/-- `chr(c).lower()`; table generated from the running CPython -/
def lowerChar (c : Char) : Str :=
  match (if c.toNat < 128 then Gen.pyLowerAscii else Gen.pyLowerTable).find? (fun e => e.1 == c.toNat) with
  | some e => e.2.map Char.ofNat
  | none => [c]

/-- `s.lower()` (character-wise; the context-sensitive final-sigma rule is not modelled) -/
def pyLower (s : Str) : Str := s.flatMap lowerChar

/-- `s.find(c)` for a one-character needle; `none` is Python's `-1` -/
def findChar (c : Char) : Str → Option Nat
  | [] => none
  | x :: xs => if x = c then some 0 else (findChar c xs).map (· + 1)

/-- `s.split(c, 1)`: `(parts[0], parts[1] if len(parts) == 2 else None)` -/
def split1 (c : Char) : Str → Str × Option Str
  | [] => ([], none)
  | x :: xs =>
    if x = c then ([], some xs)
    else let r := split1 c xs; (x :: r.1, r.2)

/-- `annotation.replace('<', '(').replace('>', ')')` -/
def replaceAngles (s : Str) : Str :=
  s.map (fun c => if c = '<' then '(' else if c = '>' then ')' else c)

/-- OrderedDict assignment `d[k] = v`: replace in place or append -/
def assocSet {β : Type} (d : List (Str × β)) (k : Str) (v : β) : List (Str × β) :=
  match d with
  | [] => [(k, v)]
  | (k', v') :: rest => if k' = k then (k, v) :: rest else (k', v') :: assocSet rest k v

def assocHas {β : Type} (d : List (Str × β)) (k : Str) : Bool := d.any (fun e => e.1 == k)

def assocGet? {β : Type} (d : List (Str × β)) (k : Str) : Option β :=
  (d.find? (fun e => e.1 == k)).map (·.2)

def inTable (t : List String) (s : Str) : Bool := t.any (fun x => x.toList == s)

/-! ### partial Python operations made explicit -/

/-- `len(options)` -/
def pyLen : Opts → Except PyErr Nat
  | .none => .error .typeError
  | .list l => .ok l.length
  | .dict d => .ok d.length

/-- `options[i]` on what must be a list -/
def pyItem : Opts → Nat → Except PyErr Str
  | .none, _ => .error .typeError
  | .list l, i => match l[i]? with
    | some x => .ok x
    | none => .error .indexError
  | .dict _, _ => .error .keyError

end GIVerif.AnnParse
