/-
  C02 model, part 1: from a parsed C type tree to the GI type and its c:type.
  Mirrors giscanner/transformer.py:
    Transformer._create_source_type, _create_complete_source_type, _canonicalize_ctype,
    _create_type_from_base, _create_bare_container_type, create_type_from_ctype_string,
    the un-annotated type part of _create_parameter / _create_return / _create_member / _create_const
  and the c:type choice of giscanner/girwriter.py:GIRWriter._write_type.
  Tables (`ast.type_names`, literal names) are regenerated from /repo on every run
  (GIVerif/Gen/TypeNames.lean, GIVerif/Gen/Defaults.lean).
  Import-free apart from the Py library and generated tables (links into the driver).
-/
import GIVerif.Py.Str
import GIVerif.Gen.TypeNames
import GIVerif.Gen.Defaults

namespace GIVerif.Types
open GIVerif.Py

/-! ### the parsed C type (what the C lexer delivers as `SourceType`) -/

/-- `type_qualifier` bits that the transformer looks at -/
structure Qual where
  const : Bool
  volatile : Bool
  deriving Repr, DecidableEq, Inhabited

def Qual.plain : Qual := ⟨false, false⟩

/-- `SourceType` trees.  `tagged` is CTYPE_STRUCT / CTYPE_UNION / CTYPE_ENUM spelled with its
    tag (`struct _Foo`); `func` is CTYPE_FUNCTION (its signature plays no role for the type
    and c:type reconstruction, `_create_source_type` does not look inside). -/
inductive CType where
  | void (q : Qual)
  | basic (q : Qual) (n : Str)
  | typedef (q : Qual) (n : Str)
  | tagged (q : Qual) (n : Str)
  | ptr (q : Qual) (t : CType)
  | array (q : Qual) (t : CType) (n : Option Nat)
  | func (q : Qual)
  deriving Repr, DecidableEq, Inhabited

def CType.qual : CType → Qual
  | .void q | .basic q _ | .typedef q _ | .tagged q _ | .ptr q _ | .array q _ _ | .func q => q

def stars (k : Nat) : Str := List.replicate k '*'

/-! string literals used inside the recursive definitions are named constants: the elaborator
    never has to unfold a `String` literal while generating equation lemmas -/
def sVoid : Str := "void".toList
def sGpointer : Str := "gpointer".toList
def sGconstpointer : Str := "gconstpointer".toList
/-- `'const ' + value` -/
def kwConst : Str := "const ".toList
/-- `'volatile ' + value` -/
def kwVolatile : Str := "volatile ".toList
/-- `value += ' const'` -/
def sfxConst : Str := " const".toList
/-- `value += ' volatile'` -/
def sfxVolatile : Str := " volatile".toList

/-- `Transformer._create_source_type(source_type, is_parameter)` -/
def createSourceType : CType → Bool → Str
  | .void _, _ => sVoid
  | .basic _ n, _ => n
  | .typedef _ n, _ => n
  | .ptr _ t, _ => createSourceType t false ++ ['*']
  | .array _ t _, true => createSourceType t false ++ ['*']
  | .array _ t _, false => createSourceType t false
  | .tagged _ _, _ => sGpointer
  | .func _, _ => sGpointer

/-- `Transformer._create_complete_source_type(source_type, is_parameter)` -/
def createCompleteSourceType : CType → Bool → Str
  | .void q, _ =>
    -- `value = 'void'`, then the same qualifier prefixes as every other named base type
    let value := if q.const then kwConst ++ sVoid else sVoid
    if q.volatile then kwVolatile ++ value else value
  | .basic q n, _ | .typedef q n, _ | .tagged q n, _ =>
    let value := if q.const then kwConst ++ n else n
    if q.volatile then kwVolatile ++ value else value
  | .ptr q t, _ | .array q t _, true =>
    let value := createCompleteSourceType t false ++ ['*']
    let value := if q.const then value ++ sfxConst else value
    if q.volatile then value ++ sfxVolatile else value
  | .array _ t _, false => createCompleteSourceType t false
  | .func q, _ =>
    let value := if q.const then sGconstpointer else sGpointer
    if q.volatile then kwVolatile ++ value else value

/-! ### `ast.type_names` and canonicalisation -/

/-- (key, target_fundamental) rows of `ast.type_names`, as character lists -/
def table : List (Str × Str) := Gen.typeNames.map (fun r => (r.1.toList, r.2.1.toList))

/-- `dict.get(key)` on an association list -/
def lookupIn (tbl : List (Str × Str)) (s : Str) : Option Str :=
  (tbl.find? (fun r => r.1 == s)).map (·.2)

/-- `_canonicalize_ctype` on the REVERSED spelling (so that stripping the last `*` is
    structural): look the whole spelling up first; otherwise strip one trailing `*`,
    canonicalise the rest, append the `*` again. -/
def canonRevIn (tbl : List (Str × Str)) : Str → Str
  | [] => match lookupIn tbl [] with
    | some f => f
    | none => []
  | c :: r => match lookupIn tbl (c :: r).reverse with
    | some f => f
    | none => if c = '*' then canonRevIn tbl r ++ ['*'] else (c :: r).reverse

def canonicalizeIn (tbl : List (Str × Str)) (ctype : Str) : Str := canonRevIn tbl ctype.reverse

/-- `ast.type_names.get(s).target_fundamental` -/
def lookup (s : Str) : Option Str := lookupIn table s

/-- `Transformer._canonicalize_ctype(ctype)` -/
def canonicalize (ctype : Str) : Str := canonicalizeIn table ctype

/-! ### the GI type object -/

/-- which `ast.Type` subclass / target the transformer created -/
inductive TKind where
  | fundamental (name : Str)      -- ast.Type(target_fundamental=name)
  | unresolved                     -- ast.Type(ctype=...): to be resolved against the namespaces
  | strv                           -- ast.Array(None, utf8 without ctype)
  | list (name : Str)              -- ast.List(name, TYPE_ANY)
  | array (name : Str) (elem : Str) -- ast.Array(name, TYPE_UINT8 | TYPE_ANY)
  | map                            -- ast.Map(TYPE_ANY, TYPE_ANY)
  | varargs                        -- ast.Varargs()
  deriving Repr, DecidableEq, Inhabited

structure TypeNode where
  kind : TKind
  ctype : Str
  isConst : Bool
  complete : Str
  deriving Repr, DecidableEq, Inhabited

def strs (l : List String) : List Str := l.map String.toList

/-- `base[1:]` -/
def dropFirst : Str → Str
  | [] => []
  | _ :: cs => cs

/-- `base.split('.', 1)[1]` for a base that contains a '.' -/
def afterFirstDot : Str → Str
  | [] => []
  | c :: cs => if c = '.' then cs else afterFirstDot cs

/-- `Transformer._create_bare_container_type(base, ...)`: the container kind, if any -/
def createBareContainerType (base : Str) : Option TKind :=
  if (strs Gen.listBases).contains base then
    some (.list (if (strs Gen.listShortBases).contains base then "GLib.".toList ++ dropFirst base else base))
  else if (strs Gen.byteArrayBases).contains base then
    some (.array "GLib.ByteArray".toList Gen.typeUint8Name.toList)
  else if (strs Gen.arrayBases).contains base then
    some (.array (if base.contains '.' then "GLib.".toList ++ afterFirstDot base else "GLib.".toList ++ dropFirst base)
      Gen.typeAnyName.toList)
  else if (strs Gen.mapBases).contains base then some .map
  else none

/-- `canonical.replace('*', '')` -/
def stripStars (s : Str) : Str := s.filter (· ≠ '*')

/-- the part of `create_type_from_ctype_string` after `canonical` and `base` are fixed: the
    `utf8*`-return / GStrv array rule, the fundamental lookup, bare containers, else unresolved -/
def typeOfCanonical (canonical base ctype : Str) (isConst isReturn : Bool) (complete : Str) : TypeNode :=
  if (isReturn && canonical == Gen.strvReturnCanonical.toList) || base == Gen.strvBase.toList then
    ⟨.strv, ctype, isConst, complete⟩
  else match lookup base with
    | some f => ⟨.fundamental f, ctype, isConst, complete⟩
    | none => match createBareContainerType base with
      | some k => ⟨k, ctype, isConst, complete⟩
      | none => ⟨.unresolved, ctype, isConst, complete⟩

/-- `Transformer.create_type_from_ctype_string(ctype, is_const, is_parameter, is_return, complete_ctype)`
    (`is_parameter` is not used by the Python function) -/
def createTypeFromCtypeString (ctype : Str) (isConst isReturn : Bool) (complete : Str) : TypeNode :=
  let canonical := canonicalize ctype
  if (strs Gen.boolAliases).contains canonical then
    -- `canonical = 'gboolean'; base = canonical`
    typeOfCanonical Gen.boolTarget.toList Gen.boolTarget.toList ctype isConst isReturn complete
  else typeOfCanonical canonical (stripStars canonical) ctype isConst isReturn complete

/-- the `const` computed by `_create_type_from_base`: the type is a pointer whose immediate
    pointee is const-qualified -/
def pointeeConst : CType → Bool
  | .ptr _ t => t.qual.const
  | _ => false

/-- `Transformer._create_type_from_base(source_type, is_parameter, is_return)` -/
def createTypeFromBase (t : CType) (isParameter isReturn : Bool) : TypeNode :=
  createTypeFromCtypeString (createSourceType t isParameter) (pointeeConst t) isReturn
    (createCompleteSourceType t isParameter)

/-- `_create_parameter`: the type of a named (non-ellipsis) parameter -/
def paramType (t : CType) : TypeNode := createTypeFromBase t true false
/-- `_create_return` -/
def returnType (t : CType) : TypeNode := createTypeFromBase t false true
/-- `_create_const` with an explicit cast type, `_create_typedef` alias target -/
def plainType (t : CType) : TypeNode := createTypeFromBase t false false
/-- `ast.Parameter('...', ast.Varargs())` -/
def varargsType : TypeNode := ⟨.varargs, "<varargs>".toList, false, []⟩

/-! ### struct fields (`_create_member`, the non-callback non-anonymous branches) -/

/-- the `while source_type.type == CTYPE_ARRAY` loop: element type and flattened size
    (`None` as soon as one dimension has no constant size) -/
def flattenArray : CType → Option Nat → CType × Option Nat
  | .array _ t n, size =>
    flattenArray t (match size, n with
      | some s, some k => some (s * k)
      | _, _ => none)
  | t, size => (t, size)

inductive FieldType where
  | callback                                  -- pointer to function: an anonymous ast.Callback
  | array (elem : TypeNode) (size : Option Nat) -- ast.Array(None, elem), zeroterminated False
  | plain (t : TypeNode)
  deriving Repr, DecidableEq

/-- `Transformer._create_member(symbol)` for a field whose type is `t` (named compounds only) -/
def createMember (t : CType) : FieldType :=
  match t with
  | .ptr _ (.func _) => .callback
  | .array _ _ _ =>
    let (elem, size) := flattenArray t (some 1)
    .array (createTypeFromCtypeString (createSourceType elem false) false false
      (createCompleteSourceType elem false)) size
  | _ => .plain (createTypeFromBase t false false)

/-- `GIRWriter._write_type`: `c:type` is complete_ctype when set, else ctype (absent when both empty) -/
def writtenCtype (n : TypeNode) : Str := if n.complete.isEmpty then n.ctype else n.complete

/-! ### flat view of a C type: base + qualifiers of every pointer level (for the statements) -/

/-- qualifiers of the pointer levels, innermost first; a parameter's outermost array counts
    as one unqualified-by-itself pointer level carrying the array's qualifiers, other arrays
    contribute nothing (the element type is what is described) -/
def levels : CType → Bool → List Qual
  | .ptr q t, _ => levels t false ++ [q]
  | .array q t _, true => levels t false ++ [q]
  | .array _ t _, false => levels t false
  | _, _ => []

/-- the innermost non-pointer, non-array type -/
def baseOf : CType → CType
  | .ptr _ t => baseOf t
  | .array _ t _ => baseOf t
  | t => t

def ptrDepth (t : CType) (isParameter : Bool) : Nat := (levels t isParameter).length

/-- spelling of a pointer level: `*`, then ` const`, then ` volatile` -/
def levelSpelling (q : Qual) : Str :=
  ['*'] ++ (if q.const then sfxConst else []) ++ (if q.volatile then sfxVolatile else [])

/-- spelling of the base with its qualifiers in front (what "the original C spelling is kept"
    asks for; used in statements only, not by the model) -/
def baseSpelling : CType → Str
  | .void q =>
    (if q.volatile then kwVolatile else []) ++ (if q.const then kwConst else []) ++ sVoid
  | .basic q n | .typedef q n | .tagged q n =>
    (if q.volatile then kwVolatile else []) ++ (if q.const then kwConst else []) ++ n
  | .func q => (if q.volatile then kwVolatile else []) ++
      (if q.const then sGconstpointer else sGpointer)
  | _ => []

/-- the qualifier-free base name used for type lookup -/
def baseName : CType → Str
  | .void _ => sVoid
  | .basic _ n | .typedef _ n => n
  | _ => sGpointer

end GIVerif.Types
