/-
  C06 model, part 2: a complete field-by-field decoder of a typelib byte string into an
  `Api` value, written from the format description in girepository/gitypelib-internal.h
  (header, section index, directory, every blob kind with nested signatures, the
  simple/array/param/interface/error type blobs, values, constants with their value bytes,
  attributes, the dependency string).  It is the INDEPENDENT decoder of the translation
  validation in harness/c06.py: it shares no code with girepository/*.c.

  Every access goes through the bounds-checked reader `rd` of Model/Typelib.lean
  (`Image.getByte?`); a read outside the file is the structured error `Err.oob`, never a
  default value.  Which bits make up which member comes from the generated table
  (`Gen.blobFields`, measured by a C probe); a member the table no longer has is `Err.noField`.

  Import-free apart from generated tables and Model/Typelib.
-/
import GIVerif.Model.Typelib
import GIVerif.Model.TypelibSizes
import GIVerif.Gen.TypelibConsts

namespace GIVerif.Typelib

/-- structured decoder errors -/
inductive Err where
  | oob (what : String) (off : Nat)                  -- a read left the file
  | noField (struct member : String)                 -- the generated layout lacks a member
  | noEnum (enum name : String)                      -- the generated enum table lacks an enumerator
  | badMagic
  | badBlobSize (member : String) (got want : Nat)   -- header.*_blob_size differs from sizeof
  | badBlobType (off ty : Nat)
  | blobTypeMismatch (off dirTy blobTy : Nat)
  | badTypeTag (off tag : Nat)
  | badIndex (what : String) (idx : Nat)             -- directory index outside 1..n_entries
  | unterminated (off : Nat)                         -- string without NUL before the end of the file
  | depth (off : Nat)                                -- type nesting deeper than the fuel
  | attrsUnsorted (i : Nat)
  | sectionsUnterminated
  deriving Repr, DecidableEq

/-- the decoded description; strings are kept as byte lists (the driver turns them into JSON) -/
inductive Api where
  | nat (n : Nat)
  | int (i : Int)
  | bool (b : Bool)
  | str (bytes : List Nat)
  | null
  | arr (xs : List Api)
  | obj (kvs : List (String × Api))

abbrev D := Except Err

/-! ### layouts used by the decoder (closed terms: computed once) -/

def LHeader := layoutOf "Header"
def LSection := layoutOf "Section"
def LDirEntry := layoutOf "DirEntry"
def LSimpleFlags := layoutOf "SimpleTypeBlobFlags"
def LSimple := layoutOf "SimpleTypeBlob"
def LArg := layoutOf "ArgBlob"
def LSignature := layoutOf "SignatureBlob"
def LCommon := layoutOf "CommonBlob"
def LFunction := layoutOf "FunctionBlob"
def LCallback := layoutOf "CallbackBlob"
def LIfaceType := layoutOf "InterfaceTypeBlob"
def LArrayDim := layoutOf "ArrayTypeDimension"
def LArrayType := layoutOf "ArrayTypeBlob"
def LParamType := layoutOf "ParamTypeBlob"
def LErrorType := layoutOf "ErrorTypeBlob"
def LValue := layoutOf "ValueBlob"
def LField := layoutOf "FieldBlob"
def LStruct := layoutOf "StructBlob"
def LUnion := layoutOf "UnionBlob"
def LEnum := layoutOf "EnumBlob"
def LProperty := layoutOf "PropertyBlob"
def LSignal := layoutOf "SignalBlob"
def LVFunc := layoutOf "VFuncBlob"
def LObject := layoutOf "ObjectBlob"
def LInterface := layoutOf "InterfaceBlob"
def LConstant := layoutOf "ConstantBlob"
def LAttribute := layoutOf "AttributeBlob"

/-! ### primitives: everything below reads the file only through these -/

/-- one member of a struct at byte `base` -/
def getF (rd : Reader) (L : SLayout) (base : Nat) (name : String) : D Nat :=
  match L.field? name with
  | none => .error (.noField L.name name)
  | some f =>
    match decodeField? rd base f with
    | none => .error (.oob (L.name ++ "." ++ name) base)
    | some v => .ok v

/-- `n` raw bytes at `off` -/
def readBytes (rd : Reader) (off : Nat) : Nat → D (List Nat)
  | 0 => .ok []
  | n + 1 =>
    match rd off with
    | none => .error (.oob "bytes" off)
    | some b =>
      match readBytes rd (off + 1) n with
      | .error e => .error e
      | .ok bs => .ok (b :: bs)

/-- NUL-terminated string at `off` (without the NUL); `fuel` bounds the scan by the file size -/
def readCStrAux (rd : Reader) (off : Nat) (acc : List Nat) : Nat → D (List Nat)
  | 0 => .error (.unterminated off)
  | fuel + 1 =>
    match rd off with
    | none => .error (.oob "string" off)
    | some 0 => .ok acc.reverse
    | some b => readCStrAux rd (off + 1) (b :: acc) fuel

def readCStr (rd : Reader) (size off : Nat) : D (List Nat) := readCStrAux rd off [] (size + 1)

/-- little-endian unsigned 16-bit value at `off` (array elements: interfaces, prerequisites, domains) -/
def readU16 (rd : Reader) (off : Nat) : D Nat :=
  match decodeBits? rd (8 * off) 16 with
  | none => .error (.oob "guint16" off)
  | some v => .ok v

/-! ### decoding context -/

structure Ctx where
  size : Nat
  rd : Reader
  directory : Nat
  nEntries : Nat
  entrySize : Nat
  /-- (blob offset, name, value), sorted by offset -/
  attrs : Array (Nat × List Nat × List Nat)

def bool (n : Nat) : Api := .bool (n != 0)

/-- a string reference: offset 0 means "no string" -/
def strAt (c : Ctx) (off : Nat) : D Api :=
  if off == 0 then .ok .null else do
    let s ← readCStr c.rd c.size off
    pure (.str s)

def tagOf (name : String) : D Nat :=
  match enumVal "GITypeTag" name with
  | some v => .ok v
  | none => .error (.noEnum "GITypeTag" name)

def blobTy (name : String) : D Nat :=
  match enumVal "GTypelibBlobType" name with
  | some v => .ok v
  | none => .error (.noEnum "GTypelibBlobType" name)

/-- first index whose offset is ≥ `o` (attributes are sorted by offset) -/
def lowerBound (a : Array (Nat × List Nat × List Nat)) (o : Nat) : Nat → Nat → Nat → Nat
  | 0, lo, _ => lo
  | fuel + 1, lo, hi =>
    if lo < hi then
      let mid := (lo + hi) / 2
      match a[mid]? with
      | some (x, _, _) => if x < o then lowerBound a o fuel (mid + 1) hi else lowerBound a o fuel lo mid
      | none => lo
    else lo

def collectAttrs (a : Array (Nat × List Nat × List Nat)) (o : Nat) : Nat → Nat → List Api
  | 0, _ => []
  | fuel + 1, i =>
    match a[i]? with
    | some (x, k, v) => if x == o then .arr [.str k, .str v] :: collectAttrs a o fuel (i + 1) else []
    | none => []

/-- the attributes whose `offset` member equals `o`, in file order -/
def attrsAt (c : Ctx) (o : Nat) : Api :=
  let i := lowerBound c.attrs o (c.attrs.size + 1) 0 c.attrs.size
  .arr (collectAttrs c.attrs o (c.attrs.size + 1) i)

/-- name of the directory entry with 1-based index `idx`: "Name" for a local entry,
    "Namespace.Name" for an entry of another namespace -/
def entryRef (c : Ctx) (what : String) (idx : Nat) : D Api :=
  if idx == 0 || idx > c.nEntries then .error (.badIndex what idx) else do
    let base := c.directory + (idx - 1) * c.entrySize
    let loc ← getF c.rd LDirEntry base "local"
    let nameOff ← getF c.rd LDirEntry base "name"
    let name ← readCStr c.rd c.size nameOff
    if loc != 0 then pure (.str name) else do
      let nsOff ← getF c.rd LDirEntry base "offset"
      let ns ← readCStr c.rd c.size nsOff
      pure (.str (ns ++ [46] ++ name))

/-- like `entryRef`, 0 meaning "none" (ObjectBlob.parent, gtype_struct) -/
def entryRefOpt (c : Ctx) (what : String) (idx : Nat) : D Api :=
  if idx == 0 then .ok .null else entryRef c what idx

/-- run `f` on `n` consecutive blobs of stride `stride` starting at `off` -/
def forBlobs (f : Nat → D Api) (stride : Nat) : Nat → Nat → D (List Api)
  | 0, _ => .ok []
  | n + 1, off => do
    let x ← f off
    let xs ← forBlobs f stride n (off + stride)
    pure (x :: xs)

def sname (s : String) : Api := .str (s.toUTF8.toList.map (·.toNat))

/-! ### types -/

/-- the type referenced by the SimpleTypeBlob at `off`.  `fuel` bounds the nesting depth
    (the format allows cyclic offsets in a malformed file). -/
def decodeType (c : Ctx) : Nat → Nat → D Api
  | 0, off => .error (.depth off)
  | fuel + 1, off => do
    let r1 ← getF c.rd LSimpleFlags off "reserved"
    let r2 ← getF c.rd LSimpleFlags off "reserved2"
    if r1 == 0 && r2 == 0 then
      let p ← getF c.rd LSimpleFlags off "pointer"
      let t ← getF c.rd LSimpleFlags off "tag"
      pure (.obj [("blob", sname "SimpleTypeBlob"), ("at", .nat off),
                  ("tag", .nat t), ("pointer", bool p)])
    else do
      let o ← getF c.rd LSimple off "offset"
      let tag ← getF c.rd LIfaceType o "tag"
      let p ← getF c.rd LIfaceType o "pointer"
      let tArray ← tagOf "GI_TYPE_TAG_ARRAY"
      let tIface ← tagOf "GI_TYPE_TAG_INTERFACE"
      let tList ← tagOf "GI_TYPE_TAG_GLIST"
      let tSList ← tagOf "GI_TYPE_TAG_GSLIST"
      let tHash ← tagOf "GI_TYPE_TAG_GHASH"
      let tError ← tagOf "GI_TYPE_TAG_ERROR"
      if tag == tArray then do
        let zt ← getF c.rd LArrayType o "zero_terminated"
        let hl ← getF c.rd LArrayType o "has_length"
        let hs ← getF c.rd LArrayType o "has_size"
        let at_ ← getF c.rd LArrayType o "array_type"
        let dimOff := (nestedOffset "ArrayTypeBlob" "dimensions").getD 0
        let dim ← getF c.rd LArrayDim (o + dimOff) "length"
        match nestedOffset "ArrayTypeBlob" "type" with
        | none => .error (.noField "ArrayTypeBlob" "type")
        | some tOff => do
          let el ← decodeType c fuel (o + tOff)
          pure (.obj [("blob", sname "ArrayTypeBlob"), ("at", .nat o),
                      ("tag", .nat tag), ("pointer", bool p), ("zero_terminated", bool zt),
                      ("has_length", bool hl), ("has_size", bool hs), ("array_type", .nat at_),
                      ("dimension", .nat dim), ("elem", el)])
      else if tag == tIface then do
        let idx ← getF c.rd LIfaceType o "interface"
        let nm ← entryRef c "InterfaceTypeBlob.interface" idx
        pure (.obj [("blob", sname "InterfaceTypeBlob"), ("at", .nat o),
                    ("tag", .nat tag), ("pointer", bool p), ("index", .nat idx), ("iface", nm)])
      else if tag == tList || tag == tSList || tag == tHash then do
        let n ← getF c.rd LParamType o "n_types"
        match nestedOffset "ParamTypeBlob" "type" with
        | none => .error (.noField "ParamTypeBlob" "type")
        | some tOff => do
          let ps ← forBlobs (decodeType c fuel) LSimple.size n (o + tOff)
          pure (.obj [("blob", sname "ParamTypeBlob"), ("at", .nat o),
                      ("tag", .nat tag), ("pointer", bool p), ("n_types", .nat n), ("params", .arr ps)])
      else if tag == tError then do
        let n ← getF c.rd LErrorType o "n_domains"
        match nestedOffset "ErrorTypeBlob" "domains" with
        | none => .error (.noField "ErrorTypeBlob" "domains")
        | some dOff => do
          let ds ← forBlobs (fun a => do let v ← readU16 c.rd a; pure (.nat v)) 2 n (o + dOff)
          pure (.obj [("blob", sname "ErrorTypeBlob"), ("at", .nat o),
                      ("tag", .nat tag), ("pointer", bool p), ("n_domains", .nat n), ("domains", .arr ds)])
      else .error (.badTypeTag o tag)

/-- nesting bound used for every type: far above anything the compiler can emit from XML -/
def typeFuel : Nat := 64

/-- flags (one bit each) of a blob as booleans -/
def flagsOf (c : Ctx) (L : SLayout) (off : Nat) (names : List String) : D (List (String × Api)) :=
  names.mapM fun n => do
    let v ← getF c.rd L off n
    pure (n, bool v)

def numsOf (c : Ctx) (L : SLayout) (off : Nat) (names : List String) : D (List (String × Api)) :=
  names.mapM fun n => do
    let v ← getF c.rd L off n
    pure (n, .nat v)

def strsOf (c : Ctx) (L : SLayout) (off : Nat) (names : List String) : D (List (String × Api)) :=
  names.mapM fun n => do
    let v ← getF c.rd L off n
    let s ← strAt c v
    pure (n, s)

/-- interpretation of an 8-bit member as gint8 (ArgBlob.closure / destroy) -/
def asInt8 (v : Nat) : Int := if v < 128 then v else (v : Int) - 256

/-- interpretation of a 32-bit member as gint32 -/
def asInt32 (v : Nat) : Int := if v < 2147483648 then v else (v : Int) - 4294967296

/-! ### signatures -/

def decodeArg (c : Ctx) (off : Nat) : D Api := do
  let name ← strsOf c LArg off ["name"]
  let fl ← flagsOf c LArg off ["in", "out", "caller_allocates", "nullable", "optional", "transfer_ownership",
    "transfer_container_ownership", "return_value", "skip"]
  let scope ← getF c.rd LArg off "scope"
  let closure ← getF c.rd LArg off "closure"
  let destroy ← getF c.rd LArg off "destroy"
  let rsv ← numsOf c LArg off ["reserved", "padding"]
  match nestedOffset "ArgBlob" "arg_type" with
  | none => .error (.noField "ArgBlob" "arg_type")
  | some tOff => do
    let ty ← decodeType c typeFuel (off + tOff)
    pure (.obj ([("blob", sname "ArgBlob"), ("at", .nat off)] ++ name ++ fl ++
      [("scope", .nat scope), ("closure", .int (asInt8 closure)), ("destroy", .int (asInt8 destroy))] ++ rsv ++
      [("type", ty), ("attributes", attrsAt c off)]))

def decodeSignature (c : Ctx) (argSize : Nat) (off : Nat) : D Api := do
  let fl ← flagsOf c LSignature off ["may_return_null", "caller_owns_return_value", "caller_owns_return_container",
    "skip_return", "instance_transfer_ownership", "throws"]
  let rsv ← numsOf c LSignature off ["reserved"]
  let n ← getF c.rd LSignature off "n_arguments"
  match nestedOffset "SignatureBlob" "return_type", nestedOffset "SignatureBlob" "arguments" with
  | some rOff, some aOff => do
    let ret ← decodeType c typeFuel (off + rOff)
    let args ← forBlobs (decodeArg c) argSize n (off + aOff)
    pure (.obj ([("blob", sname "SignatureBlob"), ("at", .nat off)] ++ fl ++ rsv ++
      [("n_arguments", .nat n), ("return_type", ret), ("arguments", .arr args),
       ("return_attributes", attrsAt c off)]))
  | _, _ => .error (.noField "SignatureBlob" "return_type/arguments")

/-- blob sizes recorded in the header, used as strides -/
structure Strides where
  fnSz : Nat
  cbSz : Nat
  sgSz : Nat
  vfSz : Nat
  arSz : Nat
  prSz : Nat
  flSz : Nat
  vlSz : Nat
  ctSz : Nat
  snSz : Nat
  enSz : Nat
  srSz : Nat
  obSz : Nat
  ifcSz : Nat
  unSz : Nat
  atSz : Nat

def decodeFunction (c : Ctx) (st : Strides) (off : Nat) : D Api := do
  let bt ← getF c.rd LFunction off "blob_type"
  let fl ← flagsOf c LFunction off ["deprecated", "setter", "getter", "constructor", "wraps_vfunc", "throws",
    "is_static", "is_async"]
  let nums ← numsOf c LFunction off ["index", "sync_or_async", "finish", "reserved", "reserved2"]
  let ss ← strsOf c LFunction off ["name", "symbol"]
  let sigOff ← getF c.rd LFunction off "signature"
  let sig ← decodeSignature c st.arSz sigOff
  pure (.obj ([("blob", sname "FunctionBlob"), ("at", .nat off), ("blob_type", .nat bt)] ++ ss ++ fl ++ nums ++
    [("signature", sig), ("attributes", attrsAt c off)]))

def decodeCallback (c : Ctx) (st : Strides) (off : Nat) : D Api := do
  let bt ← getF c.rd LCallback off "blob_type"
  let fl ← flagsOf c LCallback off ["deprecated"]
  let nums ← numsOf c LCallback off ["reserved"]
  let ss ← strsOf c LCallback off ["name"]
  let sigOff ← getF c.rd LCallback off "signature"
  let sig ← decodeSignature c st.arSz sigOff
  pure (.obj ([("blob", sname "CallbackBlob"), ("at", .nat off), ("blob_type", .nat bt)] ++ ss ++ fl ++ nums ++
    [("signature", sig), ("attributes", attrsAt c off)]))

/-! ### members -/

/-- one FieldBlob at `off`; returns the node and the offset just after it (an embedded
    CallbackBlob follows the FieldBlob when `has_embedded_type` is set) -/
def decodeFieldBlob (c : Ctx) (st : Strides) (off : Nat) : D (Api × Nat) := do
  let ss ← strsOf c LField off ["name"]
  let fl ← flagsOf c LField off ["readable", "writable", "has_embedded_type"]
  let nums ← numsOf c LField off ["bits", "struct_offset", "reserved", "reserved2"]
  let emb ← getF c.rd LField off "has_embedded_type"
  match nestedOffset "FieldBlob" "type" with
  | none => .error (.noField "FieldBlob" "type")
  | some tOff =>
    if emb != 0 then do
      let cb ← decodeCallback c st (off + st.flSz)
      let raw ← getF c.rd LSimple (off + tOff) "offset"
      pure (.obj ([("blob", sname "FieldBlob"), ("at", .nat off)] ++ ss ++ fl ++ nums ++
        [("type_raw", .nat raw), ("callback", cb), ("attributes", attrsAt c off)]), off + st.flSz + st.cbSz)
    else do
      let ty ← decodeType c typeFuel (off + tOff)
      pure (.obj ([("blob", sname "FieldBlob"), ("at", .nat off)] ++ ss ++ fl ++ nums ++
        [("type", ty), ("attributes", attrsAt c off)]), off + st.flSz)

/-- `n` consecutive fields starting at `off`: nodes, end offset, number of embedded callbacks -/
def decodeFields (c : Ctx) (st : Strides) : Nat → Nat → D (List Api × Nat)
  | 0, off => .ok ([], off)
  | n + 1, off => do
    let (x, nxt) ← decodeFieldBlob c st off
    let (xs, e) ← decodeFields c st n nxt
    pure (x :: xs, e)

def decodeProperty (c : Ctx) (off : Nat) : D Api := do
  let ss ← strsOf c LProperty off ["name"]
  let fl ← flagsOf c LProperty off ["deprecated", "readable", "writable", "construct", "construct_only",
    "transfer_ownership", "transfer_container_ownership"]
  let nums ← numsOf c LProperty off ["setter", "getter", "reserved", "reserved2"]
  match nestedOffset "PropertyBlob" "type" with
  | none => .error (.noField "PropertyBlob" "type")
  | some tOff => do
    let ty ← decodeType c typeFuel (off + tOff)
    pure (.obj ([("blob", sname "PropertyBlob"), ("at", .nat off)] ++ ss ++ fl ++ nums ++
      [("type", ty), ("attributes", attrsAt c off)]))

def decodeSignal (c : Ctx) (st : Strides) (off : Nat) : D Api := do
  let ss ← strsOf c LSignal off ["name"]
  let fl ← flagsOf c LSignal off ["deprecated", "run_first", "run_last", "run_cleanup", "no_recurse", "detailed",
    "action", "no_hooks", "has_class_closure", "true_stops_emit"]
  let nums ← numsOf c LSignal off ["class_closure", "reserved", "reserved2"]
  let sigOff ← getF c.rd LSignal off "signature"
  let sig ← decodeSignature c st.arSz sigOff
  pure (.obj ([("blob", sname "SignalBlob"), ("at", .nat off)] ++ ss ++ fl ++ nums ++
    [("signature", sig), ("attributes", attrsAt c off)]))

def decodeVFunc (c : Ctx) (st : Strides) (off : Nat) : D Api := do
  let ss ← strsOf c LVFunc off ["name"]
  let fl ← flagsOf c LVFunc off ["must_chain_up", "must_be_implemented", "must_not_be_implemented", "class_closure",
    "throws", "is_async"]
  let nums ← numsOf c LVFunc off ["sync_or_async", "signal", "struct_offset", "invoker", "finish", "reserved",
    "reserved2", "reserved3"]
  let sigOff ← getF c.rd LVFunc off "signature"
  let sig ← decodeSignature c st.arSz sigOff
  pure (.obj ([("blob", sname "VFuncBlob"), ("at", .nat off)] ++ ss ++ fl ++ nums ++
    [("signature", sig), ("attributes", attrsAt c off)]))

def decodeConstant (c : Ctx) (off : Nat) : D Api := do
  let bt ← getF c.rd LConstant off "blob_type"
  let ss ← strsOf c LConstant off ["name"]
  let fl ← flagsOf c LConstant off ["deprecated"]
  let nums ← numsOf c LConstant off ["reserved", "reserved2"]
  let size ← getF c.rd LConstant off "size"
  let voff ← getF c.rd LConstant off "offset"
  match nestedOffset "ConstantBlob" "type" with
  | none => .error (.noField "ConstantBlob" "type")
  | some tOff => do
    let ty ← decodeType c typeFuel (off + tOff)
    -- the value bytes; a size larger than the file is an out-of-bounds read, refused before looping
    if voff + size > c.size then .error (.oob "ConstantBlob value" voff) else do
    let bytes ← readBytes c.rd voff size
    pure (.obj ([("blob", sname "ConstantBlob"), ("at", .nat off), ("blob_type", .nat bt)] ++ ss ++ fl ++ nums ++
      [("size", .nat size), ("value_offset", .nat voff), ("value_bytes", .arr (bytes.map .nat)), ("type", ty),
       ("attributes", attrsAt c off)]))

def decodeValue (c : Ctx) (off : Nat) : D Api := do
  let ss ← strsOf c LValue off ["name"]
  let fl ← flagsOf c LValue off ["deprecated", "unsigned_value"]
  let nums ← numsOf c LValue off ["reserved"]
  let u ← getF c.rd LValue off "unsigned_value"
  let v ← getF c.rd LValue off "value"
  pure (.obj ([("blob", sname "ValueBlob"), ("at", .nat off)] ++ ss ++ fl ++ nums ++
    [("value_raw", .nat v), ("value", if u != 0 then .int v else .int (asInt32 v)), ("attributes", attrsAt c off)]))

/-! ### directory entries -/

def registered (c : Ctx) (L : SLayout) (off : Nat) : D (List (String × Api)) := do
  let bt ← getF c.rd L off "blob_type"
  let ss ← strsOf c L off ["name", "gtype_name", "gtype_init"]
  pure ([("at", .nat off), ("blob_type", .nat bt)] ++ ss)

def decodeStructBlob (c : Ctx) (st : Strides) (off : Nat) : D Api := do
  let reg ← registered c LStruct off
  let fl ← flagsOf c LStruct off ["deprecated", "unregistered", "is_gtype_struct", "foreign"]
  let nums ← numsOf c LStruct off ["alignment", "size", "n_fields", "n_methods", "reserved"]
  let ss ← strsOf c LStruct off ["copy_func", "free_func"]
  let nf ← getF c.rd LStruct off "n_fields"
  let nm ← getF c.rd LStruct off "n_methods"
  let (fields, e1) ← decodeFields c st nf (off + st.srSz)
  let methods ← forBlobs (decodeFunction c st) st.fnSz nm e1
  pure (.obj ([("blob", sname "StructBlob")] ++ reg ++ fl ++ nums ++ ss ++
    [("fields", .arr fields), ("methods", .arr methods), ("end", .nat (e1 + nm * st.fnSz)),
     ("attributes", attrsAt c off)]))

def decodeUnionBlob (c : Ctx) (st : Strides) (off : Nat) : D Api := do
  let reg ← registered c LUnion off
  let fl ← flagsOf c LUnion off ["deprecated", "unregistered", "discriminated"]
  let nums ← numsOf c LUnion off ["alignment", "size", "n_fields", "n_functions", "reserved", "discriminator_offset"]
  let ss ← strsOf c LUnion off ["copy_func", "free_func"]
  let nf ← getF c.rd LUnion off "n_fields"
  let nm ← getF c.rd LUnion off "n_functions"
  let disc ← getF c.rd LUnion off "discriminated"
  let (fields, e1) ← decodeFields c st nf (off + st.unSz)
  let methods ← forBlobs (decodeFunction c st) st.fnSz nm e1
  let e2 := e1 + nm * st.fnSz
  match nestedOffset "UnionBlob" "discriminator_type" with
  | none => .error (.noField "UnionBlob" "discriminator_type")
  | some tOff => do
    let draw ← getF c.rd LSimple (off + tOff) "offset"
    let (dty, dvals, e3) ← (if disc != 0 then do
        let t ← decodeType c typeFuel (off + tOff)
        let vs ← forBlobs (decodeConstant c) st.ctSz nf e2
        pure (t, vs, e2 + nf * st.ctSz)
      else pure (Api.null, [], e2) : D (Api × List Api × Nat))
    pure (.obj ([("blob", sname "UnionBlob")] ++ reg ++ fl ++ nums ++ ss ++
      [("fields", .arr fields), ("methods", .arr methods), ("discriminator_type_raw", .nat draw),
       ("discriminator_type", dty), ("discriminators", .arr dvals), ("end", .nat e3),
       ("attributes", attrsAt c off)]))

def decodeEnumBlob (c : Ctx) (st : Strides) (off : Nat) : D Api := do
  let reg ← registered c LEnum off
  let fl ← flagsOf c LEnum off ["deprecated", "unregistered"]
  let nums ← numsOf c LEnum off ["storage_type", "n_values", "n_methods", "reserved"]
  let ss ← strsOf c LEnum off ["error_domain"]
  let nv ← getF c.rd LEnum off "n_values"
  let nm ← getF c.rd LEnum off "n_methods"
  let values ← forBlobs (decodeValue c) st.vlSz nv (off + st.enSz)
  let methods ← forBlobs (decodeFunction c st) st.fnSz nm (off + st.enSz + nv * st.vlSz)
  pure (.obj ([("blob", sname "EnumBlob")] ++ reg ++ fl ++ nums ++ ss ++
    [("values", .arr values), ("methods", .arr methods),
     ("end", .nat (off + st.enSz + nv * st.vlSz + nm * st.fnSz)), ("attributes", attrsAt c off)]))

/-- `n` directory indices (guint16) at `off`, resolved to names -/
def decodeIndexList (c : Ctx) (what : String) (n off : Nat) : D (List Api) :=
  forBlobs (fun a => do
    let idx ← readU16 c.rd a
    let nm ← entryRef c what idx
    pure (.obj [("index", .nat idx), ("name", nm)])) 2 n off

def decodeObjectBlob (c : Ctx) (st : Strides) (off : Nat) : D Api := do
  let reg ← registered c LObject off
  let fl ← flagsOf c LObject off ["deprecated", "abstract", "fundamental", "final_"]
  let nums ← numsOf c LObject off ["parent", "gtype_struct", "n_interfaces", "n_fields", "n_properties", "n_methods",
    "n_signals", "n_vfuncs", "n_constants", "n_field_callbacks", "reserved", "reserved3", "reserved4"]
  let ss ← strsOf c LObject off ["ref_func", "unref_func", "set_value_func", "get_value_func"]
  let parent ← getF c.rd LObject off "parent"
  let gts ← getF c.rd LObject off "gtype_struct"
  let parentName ← entryRefOpt c "ObjectBlob.parent" parent
  let gtsName ← entryRefOpt c "ObjectBlob.gtype_struct" gts
  let ni ← getF c.rd LObject off "n_interfaces"
  let nf ← getF c.rd LObject off "n_fields"
  let np ← getF c.rd LObject off "n_properties"
  let nm ← getF c.rd LObject off "n_methods"
  let ns ← getF c.rd LObject off "n_signals"
  let nv ← getF c.rd LObject off "n_vfuncs"
  let nc ← getF c.rd LObject off "n_constants"
  let ifaces ← decodeIndexList c "ObjectBlob.interfaces" ni (off + st.obSz)
  let o1 := off + st.obSz + indexListBytes ni
  let (fields, o2) ← decodeFields c st nf o1
  let props ← forBlobs (decodeProperty c) st.prSz np o2
  let o3 := o2 + np * st.prSz
  let methods ← forBlobs (decodeFunction c st) st.fnSz nm o3
  let o4 := o3 + nm * st.fnSz
  let signals ← forBlobs (decodeSignal c st) st.sgSz ns o4
  let o5 := o4 + ns * st.sgSz
  let vfuncs ← forBlobs (decodeVFunc c st) st.vfSz nv o5
  let o6 := o5 + nv * st.vfSz
  let consts ← forBlobs (decodeConstant c) st.ctSz nc o6
  pure (.obj ([("blob", sname "ObjectBlob")] ++ reg ++ fl ++ nums ++ ss ++
    [("parent_name", parentName), ("gtype_struct_name", gtsName), ("interfaces", .arr ifaces),
     ("fields", .arr fields), ("properties", .arr props), ("methods", .arr methods), ("signals", .arr signals),
     ("vfuncs", .arr vfuncs), ("constants", .arr consts), ("end", .nat (o6 + nc * st.ctSz)),
     ("attributes", attrsAt c off)]))

def decodeInterfaceBlob (c : Ctx) (st : Strides) (off : Nat) : D Api := do
  let reg ← registered c LInterface off
  let fl ← flagsOf c LInterface off ["deprecated"]
  let nums ← numsOf c LInterface off ["gtype_struct", "n_prerequisites", "n_properties", "n_methods", "n_signals",
    "n_vfuncs", "n_constants", "reserved", "padding", "reserved2", "reserved3"]
  let gts ← getF c.rd LInterface off "gtype_struct"
  let gtsName ← entryRefOpt c "InterfaceBlob.gtype_struct" gts
  let npre ← getF c.rd LInterface off "n_prerequisites"
  let np ← getF c.rd LInterface off "n_properties"
  let nm ← getF c.rd LInterface off "n_methods"
  let ns ← getF c.rd LInterface off "n_signals"
  let nv ← getF c.rd LInterface off "n_vfuncs"
  let nc ← getF c.rd LInterface off "n_constants"
  let pres ← decodeIndexList c "InterfaceBlob.prerequisites" npre (off + st.ifcSz)
  let o2 := off + st.ifcSz + indexListBytes npre
  let props ← forBlobs (decodeProperty c) st.prSz np o2
  let o3 := o2 + np * st.prSz
  let methods ← forBlobs (decodeFunction c st) st.fnSz nm o3
  let o4 := o3 + nm * st.fnSz
  let signals ← forBlobs (decodeSignal c st) st.sgSz ns o4
  let o5 := o4 + ns * st.sgSz
  let vfuncs ← forBlobs (decodeVFunc c st) st.vfSz nv o5
  let o6 := o5 + nv * st.vfSz
  let consts ← forBlobs (decodeConstant c) st.ctSz nc o6
  pure (.obj ([("blob", sname "InterfaceBlob")] ++ reg ++ fl ++ nums ++
    [("gtype_struct_name", gtsName), ("prerequisites", .arr pres), ("properties", .arr props),
     ("methods", .arr methods), ("signals", .arr signals), ("vfuncs", .arr vfuncs), ("constants", .arr consts),
     ("end", .nat (o6 + nc * st.ctSz)), ("attributes", attrsAt c off)]))

/-- one directory entry -/
def decodeEntry (c : Ctx) (st : Strides) (i : Nat) : D Api := do
  let base := c.directory + i * c.entrySize
  let bt ← getF c.rd LDirEntry base "blob_type"
  let loc ← getF c.rd LDirEntry base "local"
  let rsv ← getF c.rd LDirEntry base "reserved"
  let nameOff ← getF c.rd LDirEntry base "name"
  let off ← getF c.rd LDirEntry base "offset"
  let name ← strAt c nameOff
  let common := [("blob", sname "DirEntry"), ("at", .nat base), ("index", .nat (i + 1)), ("blob_type", .nat bt),
    ("local", bool loc), ("reserved", .nat rsv), ("name", name), ("offset", .nat off)]
  if loc == 0 then do
    let ns ← strAt c off
    pure (.obj (common ++ [("namespace", ns)]))
  else do
    let own ← getF c.rd LCommon off "blob_type"
    if own != bt then .error (.blobTypeMismatch off bt own) else do
    let tFunction ← blobTy "BLOB_TYPE_FUNCTION"
    let tCallback ← blobTy "BLOB_TYPE_CALLBACK"
    let tStruct ← blobTy "BLOB_TYPE_STRUCT"
    let tBoxed ← blobTy "BLOB_TYPE_BOXED"
    let tEnum ← blobTy "BLOB_TYPE_ENUM"
    let tFlags ← blobTy "BLOB_TYPE_FLAGS"
    let tObject ← blobTy "BLOB_TYPE_OBJECT"
    let tInterface ← blobTy "BLOB_TYPE_INTERFACE"
    let tConstant ← blobTy "BLOB_TYPE_CONSTANT"
    let tUnion ← blobTy "BLOB_TYPE_UNION"
    let node ←
      if bt == tFunction then decodeFunction c st off
      else if bt == tCallback then decodeCallback c st off
      else if bt == tStruct || bt == tBoxed then decodeStructBlob c st off
      else if bt == tEnum || bt == tFlags then decodeEnumBlob c st off
      else if bt == tObject then decodeObjectBlob c st off
      else if bt == tInterface then decodeInterfaceBlob c st off
      else if bt == tConstant then decodeConstant c off
      else if bt == tUnion then decodeUnionBlob c st off
      else .error (.badBlobType off bt)
    pure (.obj (common ++ [("node", node)]))

def decodeEntries (c : Ctx) (st : Strides) : Nat → Nat → D (List Api)
  | 0, _ => .ok []
  | n + 1, i => do
    let x ← decodeEntry c st i
    let xs ← decodeEntries c st n (i + 1)
    pure (x :: xs)

/-! ### header, sections, attributes -/

/-- the `n` AttributeBlobs at `off` as (offset, name, value); must be sorted by offset -/
def readAttrs (rd : Reader) (size stride : Nat) : Nat → Nat → Nat → Nat → D (List (Nat × List Nat × List Nat))
  | 0, _, _, _ => .ok []
  | n + 1, i, off, prev => do
    let o ← getF rd LAttribute off "offset"
    let k ← getF rd LAttribute off "name"
    let v ← getF rd LAttribute off "value"
    if o < prev then .error (.attrsUnsorted i) else do
    let ks ← readCStr rd size k
    let vs ← readCStr rd size v
    let rest ← readAttrs rd size stride n (i + 1) (off + stride) o
    pure ((o, ks, vs) :: rest)

/-- the section index at `off`: (id, offset) pairs up to the GI_SECTION_END entry -/
def readSections (rd : Reader) : Nat → Nat → D (List Api)
  | 0, _ => .error .sectionsUnterminated
  | fuel + 1, off => do
    let id ← getF rd LSection off "id"
    let o ← getF rd LSection off "offset"
    if id == 0 then pure [] else do
      let rest ← readSections rd fuel (off + LSection.size)
      pure (.obj [("id", .nat id), ("offset", .nat o)] :: rest)

/-- header.X_blob_size must equal sizeof of the struct girmodule.c writes there -/
def checkBlobSizes (rd : Reader) : List (String × String × Nat) → D Unit
  | [] => .ok ()
  | (member, struct, lit) :: rest => do
    let got ← getF rd LHeader 0 member
    let want := if struct != "" then sizeOf' struct else lit
    if got != want then .error (.badBlobSize member got want) else checkBlobSizes rd rest

def headerNums : List String :=
  ["major_version", "minor_version", "reserved", "n_entries", "n_local_entries", "directory", "n_attributes",
   "attributes", "dependencies", "size", "namespace", "nsversion", "shared_library", "c_prefix",
   "entry_blob_size", "function_blob_size", "callback_blob_size", "signal_blob_size", "vfunc_blob_size",
   "arg_blob_size", "property_blob_size", "field_blob_size", "value_blob_size", "attribute_blob_size",
   "constant_blob_size", "error_domain_blob_size", "signature_blob_size", "enum_blob_size", "struct_blob_size",
   "object_blob_size", "interface_blob_size", "union_blob_size", "sections"]

/-- decode a whole typelib seen through the checked reader `rd` of a file of `size` bytes -/
def decodeWith (size : Nat) (rd : Reader) : D Api := do
  let magic ← readBytes rd 0 Gen.irMagic.length
  if magic != Gen.irMagic then .error .badMagic else do
  checkBlobSizes rd Gen.headerBlobSizeWritten
  let h (n : String) : D Nat := getF rd LHeader 0 n
  let st : Strides := {
    fnSz := ← h "function_blob_size", cbSz := ← h "callback_blob_size", sgSz := ← h "signal_blob_size",
    vfSz := ← h "vfunc_blob_size", arSz := ← h "arg_blob_size", prSz := ← h "property_blob_size",
    flSz := ← h "field_blob_size", vlSz := ← h "value_blob_size", ctSz := ← h "constant_blob_size",
    snSz := ← h "signature_blob_size", enSz := ← h "enum_blob_size", srSz := ← h "struct_blob_size",
    obSz := ← h "object_blob_size", ifcSz := ← h "interface_blob_size", unSz := ← h "union_blob_size",
    atSz := ← h "attribute_blob_size" }
  let nEntries ← h "n_entries"
  let directory ← h "directory"
  let entrySize ← h "entry_blob_size"
  let nAttrs ← h "n_attributes"
  let attrOff ← h "attributes"
  -- refuse a count that cannot fit before looping over it
  if attrOff + nAttrs * st.atSz > size then .error (.oob "attributes" attrOff) else do
  if directory + nEntries * entrySize > size then .error (.oob "directory" directory) else do
  let attrs ← readAttrs rd size st.atSz nAttrs 0 attrOff 0
  let c : Ctx := { size := size, rd := rd, directory := directory, nEntries := nEntries, entrySize := entrySize,
                   attrs := attrs.toArray }
  let nums ← headerNums.mapM (fun n => do let v ← h n; pure (n, Api.nat v))
  let strs ← strsOf c LHeader 0 ["dependencies", "namespace", "nsversion", "shared_library", "c_prefix"]
  let padOff := (nestedOffset "Header" "padding").getD 0
  let padding ← readBytes rd padOff (LHeader.size - padOff)
  let sectOff ← h "sections"
  let sections ← readSections rd (size / LSection.size.max 1 + 1) sectOff
  let entries ← decodeEntries c st nEntries 0
  pure (.obj [("header", .obj nums), ("strings", .obj strs), ("padding", .arr (padding.map .nat)),
              ("sections", .arr sections), ("entries", .arr entries),
              ("attribute_table", .arr (attrs.map fun (o, k, v) => .arr [.nat o, .str k, .str v])),
              ("file_size", .nat size)])

/-- decode a typelib image -/
def decode (m : Image) : D Api := decodeWith m.size m.getByte?

end GIVerif.Typelib
