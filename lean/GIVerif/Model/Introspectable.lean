/-
  C05 model: giscanner/introspectablepass.py (`IntrospectablePass.validate` and every walk it
  runs), the index computations of giscanner/girwriter.py (`_write_parameter`, `_write_type`:
  closure / destroy / length) and the part of `Transformer.resolve_type` the pass relies on
  (an unknown giname is cleared, so the type is "unresolved").

  The namespace is simplified to what the pass reads and writes:
    * top-level nodes in `Namespace.names` order, each with `skip`, `introspectable` and a body:
      alias (target type), callable (function / callback signature), compound (record, union,
      class, interface, boxed, enum: fields, properties and the nested callables that
      `Node._walk` visits, flattened in walk order), other (constant, doc section, macro);
    * types as a tree `Ty` (what `Type`/`Array`/`List`/`Map`/`Varargs` objects look like after the
      type-resolution passes of MainTransformer);
    * the mutable part (the `introspectable` flags) is kept apart from the static part in `St`,
      so that "flags only go from true to false" is a statement about `List Bool`;
    * the accessor names `_introspectable_property_analysis` clears (`prop.setter/getter`,
      `method.set_property/get_property`) are computed from the final flags by `accessorsAfter`.

  Import-free apart from the Py library and generated tables: links into the compiled driver.
-/
import GIVerif.Py.Str
import GIVerif.Gen.TypeNames

namespace GIVerif.Introspectable
open GIVerif.Py

/-- What `lookup_typenode` + `resolve_aliases` deliver, as far as
    `_introspectable_param_analysis` looks at it. -/
inductive TKind where
  | other                         -- None, a fundamental `Type`, a class, an enum, ...
  | callback (exempt : Bool)      -- ast.Callback; exempt = gi_name is GLib.DestroyNotify / Gio.AsyncReadyCallback
  | bareCompound                  -- Record/Union, no get_type, copy or free func missing, not foreign
  deriving Repr, DecidableEq, Inhabited

/-- `ast.Type` and its subclasses after type resolution. -/
inductive Ty where
  | unresolved                                  -- no target_* set (or `TypeUnknown`)
  | fund (name : Str)                           -- target_fundamental (a GIR fundamental name)
  | foreignT                                    -- target_foreign
  | varargs                                     -- ast.Varargs (target_fundamental '<varargs>')
  | ref (name : Str)                            -- target_giname, this namespace
  | ext (intro skip : Bool) (tk : TKind)        -- target_giname in an included namespace: the looked-up node
  | array (elem : Ty)                           -- ast.Array
  | list (elem : Ty)                            -- ast.List
  | map (key val : Ty)                          -- ast.Map
  deriving Repr, DecidableEq, Inhabited

/-- `ast.Parameter` / `ast.Return` -/
structure Param where
  ty : Ty
  skip : Bool := false
  hasScope : Bool := false          -- `scope is not None`
  hasTransfer : Bool := true        -- `transfer is not None`
  transferNone : Bool := true       -- `transfer == PARAM_TRANSFER_NONE`
  deriving Repr, DecidableEq, Inhabited

/-- `ast.Callable` -/
structure Sig where
  params : List Param
  ret : Param
  isCallback : Bool := false        -- ast.Callback (a type) rather than a function
  inline : Bool := false            -- `ast.Function.is_inline`
  isSignal : Bool := false          -- ast.Signal (re-analysed by `_introspectable_pass3`)
  deriving Repr, DecidableEq, Inhabited

/-- a callable below a top-level node: method, constructor, static function, virtual method,
    signal, anonymous callback of a field (also those of nested anonymous records) -/
structure Sub where
  name : Str
  skip : Bool
  intro : Bool
  sig : Sig
  isMethod : Bool := false            -- member of `obj.methods` (not a constructor / static / vfunc / signal)
  setProp : Option Str := none        -- `method.set_property`
  getProp : Option Str := none        -- `method.get_property`
  deriving Repr, DecidableEq, Inhabited

/-- `ast.Field` -/
structure Field where
  name : Str
  intro : Bool
  ty : Option Ty              -- `field.type` (None for anonymous nodes)
  anon : Option Nat           -- `field.anonymous_node` when it is a callback: its index in `subs`
  deriving Repr, DecidableEq, Inhabited

/-- `ast.Property` -/
structure Prop' where
  name : Str
  intro : Bool
  ty : Ty
  setter : Option Str := none         -- `prop.setter`
  getter : Option Str := none         -- `prop.getter`
  deriving Repr, DecidableEq, Inhabited

inductive Body where
  | alias (target : Ty)
  | callable (sig : Sig)
  | compound (bare : Bool) (fields : List Field) (props : List Prop') (subs : List Sub)
  | other
  deriving Repr, DecidableEq, Inhabited

structure Top where
  name : Str
  skip : Bool
  intro : Bool
  body : Body
  deriving Repr, DecidableEq, Inhabited

structure NS where
  name : Str                  -- `Namespace.name`
  tops : List Top             -- `Namespace.names.values()`
  deriving Repr, DecidableEq, Inhabited

def Top.subs (t : Top) : List Sub :=
  match t.body with
  | .compound _ _ _ s => s
  | _ => []

def Top.fields (t : Top) : List Field :=
  match t.body with
  | .compound _ f _ _ => f
  | _ => []

def Top.props (t : Top) : List Prop' :=
  match t.body with
  | .compound _ _ p _ => p
  | _ => []

/-- `Namespace.get(name)` -/
def NS.find (ns : NS) (n : Str) : Option Nat := ns.tops.findIdx? (fun t => t.name == n)

/-! ### `_type_is_introspectable` -/

def vaList : Str := "va_list".toList
/-- `(TYPE_LONG_LONG, TYPE_LONG_ULONG, TYPE_LONG_DOUBLE)` -/
def bigTypes : List Str := ["long long".toList, "unsigned long long".toList, "long double".toList]

/-- the fundamental branch: `va_list`, `long long`, `unsigned long long`, `long double` are refused -/
def fundOk (n : Str) : Bool := !(n == vaList) && !(bigTypes.contains n)

/-- the last three lines: `target = lookup_typenode(typeval)`; `target.introspectable and not target.skip` -/
def refOk (ns : NS) (tf : List Bool) (n : Str) : Bool :=
  match ns.find n with
  | none => false
  | some i =>
    match ns.tops[i]? with
    | none => false
    | some t => tf.getD i false && !t.skip

/-- `IntrospectablePass._type_is_introspectable(typeval)` for the current flags `tf` of the
    top-level nodes.  Branch order as in the source: unresolved / TypeUnknown, Varargs (refused
    since commit 1110ea5: a '...' can never be marshalled, annotated (skip) or not), Array|List,
    Map, foreign, fundamental, giname lookup. -/
def tyIntro (ns : NS) (tf : List Bool) : Ty → Bool
  | .unresolved => false
  | .varargs => false
  | .array e => tyIntro ns tf e
  | .list e => tyIntro ns tf e
  | .map k v => tyIntro ns tf k && tyIntro ns tf v
  | .foreignT => true
  | .fund n => fundOk n
  | .ref n => refOk ns tf n
  | .ext intro skip _ => intro && !skip

/-! ### `_introspectable_param_analysis` -/

def gLibDestroyNotify : Str := "GLib.DestroyNotify".toList
def gioAsyncReady : Str := "Gio.AsyncReadyCallback".toList

/-- `target.gi_name in ('GLib.DestroyNotify', 'Gio.AsyncReadyCallback')` for a node of this namespace -/
def exemptName (ns : NS) (n : Str) : Bool :=
  let gi := ns.name ++ ['.'] ++ n
  gi == gLibDestroyNotify || gi == gioAsyncReady

/-- `resolve_aliases(node)` for a node of this namespace (by index); `fuel` bounds the `while`
    loop (the real loop does not terminate on cyclic aliases, which C typedefs cannot form). -/
def resolveKind (ns : NS) : Nat → Nat → TKind
  | 0, _ => .other
  | fuel + 1, i =>
    match ns.tops[i]? with
    | none => .other
    | some t =>
      match t.body with
      | .alias (.ref m) =>
        match ns.find m with
        | some j => resolveKind ns fuel j
        | none => .other
      | .alias (.ext _ _ tk) => tk
      | .alias _ => .other
      | .callable sig => if sig.isCallback then .callback (exemptName ns t.name) else .other
      | .compound bare _ _ _ => if bare then .bareCompound else .other
      | .other => .other

/-- `lookup_typenode(node.type)` then `resolve_aliases` -/
def targetKind (ns : NS) : Ty → TKind
  | .ref n =>
    match ns.find n with
    | some i => resolveKind ns (ns.tops.length + 1) i
    | none => .other
  | .ext _ _ tk => tk
  | _ => .other

/-- `isinstance(node.type, (List, Array)) and node.type.element_type == TYPE_ANY` -/
def missingElementType : Ty → Bool
  | .array (.fund n) => n == "gpointer".toList
  | .list (.fund n) => n == "gpointer".toList
  | _ => false

/-- does `_introspectable_param_analysis(parent, node)` set `parent.introspectable = False`? -/
def paramBad (ns : NS) (isRet : Bool) (p : Param) : Bool :=
  if p.skip then false
  else if p.ty == .unresolved then true
  else if p.ty == .varargs then true
  else if missingElementType p.ty then true
  else
    match targetKind ns p.ty with
    | .callback exempt =>
      if isRet then true
      else if !exempt && !p.hasScope then true
      else !p.hasTransfer
    | .bareCompound =>
      if isRet then !p.transferNone else !p.hasTransfer
    | .other => !p.hasTransfer

/-- the loop over `obj.parameters` and `obj.retval` in `_analyze_node` -/
def sigBad (ns : NS) (s : Sig) : Bool :=
  s.params.any (paramBad ns false) || paramBad ns true s.ret

/-- `_introspectable_callable_analysis` on one callable: does it set `introspectable = False`? -/
def callBad (ns : NS) (tf : List Bool) (s : Sig) : Bool :=
  s.params.any (fun p => !tyIntro ns tf p.ty) || !tyIntro ns tf s.ret.ty || s.inline

/-! ### `_propagate_callable_skips` (walk 2): the only place where `skip` changes -/

/-- `_propagate_parameter_skip`: is the node the type points at (top-level type only) skipped? -/
def targetSkipped (ns : NS) : Ty → Bool
  | .ref n =>
    match ns.find n with
    | some i => match ns.tops[i]? with
      | some t => t.skip
      | none => false
    | none => false
  | .ext _ skip _ => skip
  | _ => false

def sigTargetsSkipped (ns : NS) (s : Sig) : Bool :=
  s.params.any (fun p => targetSkipped ns p.ty) || targetSkipped ns s.ret.ty

def propagateSub (ns : NS) (s : Sub) : Sub :=
  if sigTargetsSkipped ns s.sig then { s with skip := true } else s

/-- visit of top-level node `i` and of its children (the callback never prunes) -/
def propagateStep (ns : NS) (i : Nat) : NS :=
  match ns.tops[i]? with
  | none => ns
  | some t =>
    match t.body with
    | .callable sig =>
      if sigTargetsSkipped ns sig then { ns with tops := ns.tops.set i { t with skip := true } } else ns
    | .compound b f p subs =>
      { ns with tops := ns.tops.set i { t with body := .compound b f p (subs.map (propagateSub ns)) } }
    | _ => ns

def propagateSkips (ns : NS) : NS :=
  (List.range ns.tops.length).foldl propagateStep ns

/-! ### the mutable flags -/

structure St where
  tf : List Bool                 -- `introspectable` of the top-level nodes
  sf : List (List Bool)          -- ... of their nested callables
  ff : List (List Bool)          -- ... of their fields
  pf : List (List Bool)          -- ... of their properties
  deriving Repr, DecidableEq, Inhabited

def initSt (ns : NS) : St :=
  { tf := ns.tops.map (·.intro)
    sf := ns.tops.map (fun t => t.subs.map (·.intro))
    ff := ns.tops.map (fun t => t.fields.map (·.intro))
    pf := ns.tops.map (fun t => t.props.map (·.intro)) }

/-- clear flag `j` of row `i` -/
def clear2 (m : List (List Bool)) (i j : Nat) : List (List Bool) :=
  m.set i ((m.getD i []).set j false)

/-- `_introspectable_alias_analysis` at top-level node `i` -/
def aliasStep (ns : NS) (s : St) (i : Nat) : St :=
  match ns.tops[i]? with
  | none => s
  | some t =>
    match t.body with
    | .alias tgt => if tyIntro ns s.tf tgt then s else { s with tf := s.tf.set i false }
    | _ => s

def aliasWalk (ns : NS) (s : St) : St :=
  (List.range ns.tops.length).foldl (aliasStep ns) s

/-- visit of one child: pruned when skipped, cleared when `bad` (children do not read each
    other's flags, so a row is updated entry by entry) -/
def subKeep (bad : Sub → Bool) (sub : Sub) (b : Bool) : Bool :=
  if sub.skip then b else if bad sub then false else b

/-- the field loop of `_analyze_node`: `if field.type: if not _type_is_introspectable(field.type)` -/
def fieldKeepAnalyze (ns : NS) (tf : List Bool) (f : Field) (b : Bool) : Bool :=
  match f.ty with
  | some ty => if tyIntro ns tf ty then b else false
  | none => b

/-- `field.anonymous_node.skip` for the anonymous callback `j` of the nested callables `subs` -/
def subSkipped (subs : List Sub) (j : Nat) : Bool :=
  match subs[j]? with
  | some sub => sub.skip
  | none => false

/-- the field loop of `_introspectable_pass3`; `row` = flags of the nested callables `subs`.
    Anonymous callback: `not anonymous_node.introspectable or anonymous_node.skip` (the `skip`
    half since commit efccda4: `_propagate_callable_skips` may have marked the callback). -/
def fieldKeepPass3 (ns : NS) (tf : List Bool) (subs : List Sub) (row : List Bool) (f : Field) (b : Bool) : Bool :=
  match f.anon with
  | some j => if !row.getD j false || subSkipped subs j then false else b
  | none =>
    match f.ty with
    | some ty => if tyIntro ns tf ty then b else false
    | none => b

/-- apply a per-entry decision to a row of flags (entries beyond `xs` are left alone) -/
def rowMap {α : Type} (xs : List α) (keep : α → Bool → Bool) (row : List Bool) : List Bool :=
  row.mapIdx (fun k b =>
    match xs[k]? with
    | some x => keep x b
    | none => b)

/-- `_analyze_node` at top-level node `i` and, unless it is skipped, at its children -/
def analyzeStep (ns : NS) (s : St) (i : Nat) : St :=
  match ns.tops[i]? with
  | none => s
  | some t =>
    if t.skip then s
    else
      match t.body with
      | .callable sig => if sigBad ns sig then { s with tf := s.tf.set i false } else s
      | .compound _ fields _ subs =>
        { s with
          ff := s.ff.set i (rowMap fields (fieldKeepAnalyze ns s.tf) (s.ff.getD i []))
          sf := s.sf.set i (rowMap subs (subKeep fun sub => sigBad ns sub.sig) (s.sf.getD i [])) }
      | _ => s

def analyzeWalk (ns : NS) (s : St) : St :=
  (List.range ns.tops.length).foldl (analyzeStep ns) s

/-- `_introspectable_callable_analysis` at top-level node `i` and, unless it is skipped, at its
    children (the Signal/emitter branch changes no flag and is left out) -/
def callStep (ns : NS) (s : St) (i : Nat) : St :=
  match ns.tops[i]? with
  | none => s
  | some t =>
    if t.skip then s
    else
      match t.body with
      | .callable sig => if callBad ns s.tf sig then { s with tf := s.tf.set i false } else s
      | .compound _ _ _ subs =>
        { s with sf := s.sf.set i (rowMap subs (subKeep fun sub => callBad ns s.tf sub.sig) (s.sf.getD i [])) }
      | _ => s

def callWalk (ns : NS) (s : St) : St :=
  (List.range ns.tops.length).foldl (callStep ns) s

/-- body of the `while True:` loop -/
def round (ns : NS) (s : St) : St := callWalk ns (aliasWalk ns s)

def cnt (l : List Bool) : Nat := l.count true

/-- `_count_introspectable`: every walked node whose flag is set (top-level nodes, nested
    callables, Property nodes of classes — the latter are constant during the loop) -/
def count (s : St) : Nat := cnt s.tf + (s.sf.map cnt).sum + (s.pf.map cnt).sum

/-- the `while True:` loop with explicit fuel; `none` = fuel exhausted.  Also returns the number
    of rounds executed. -/
def loop (ns : NS) : Nat → St → Option (St × Nat)
  | 0, _ => none
  | fuel + 1, s =>
    let s' := round ns s
    if count s' == count s then some (s', 1)
    else (loop ns fuel s').map (fun r => (r.1, r.2 + 1))

/-- `_introspectable_property_analysis` (flags only) -/
def propStep (ns : NS) (s : St) (i : Nat) : St :=
  match ns.tops[i]? with
  | none => s
  | some t =>
    if t.skip then s
    else
      { s with pf := s.pf.set i (rowMap t.props (fun p b => if tyIntro ns s.tf p.ty then b else false)
                                   (s.pf.getD i [])) }

def propWalk (ns : NS) (s : St) : St :=
  (List.range ns.tops.length).foldl (propStep ns) s

/-! ### `_introspectable_property_analysis`: the accessor names -/

/-- first loop, one property: `if not _type_is_introspectable(prop.type): prop.introspectable =
    False; prop.setter = None; prop.getter = None` -/
def propAfter (ns : NS) (tf : List Bool) (p : Prop') : Prop' :=
  if tyIntro ns tf p.ty then p else { p with intro := false, setter := none, getter := none }

/-- `for prop in obj.properties: if prop.name == x and not prop.introspectable: x = None; break` -/
def clearAcc (ps : List Prop') : Option Str → Option Str
  | none => none
  | some n => if ps.any (fun p => p.name == n && !p.intro) then none else some n

/-- second loop, one member of `obj.methods` -/
def methodAfter (ps : List Prop') (m : Sub) : Sub :=
  if m.isMethod then { m with setProp := clearAcc ps m.setProp, getProp := clearAcc ps m.getProp } else m

/-- `_introspectable_property_analysis` at top-level node `t` (a node without properties is left
    as it is: `clearAcc [] x = x`): its properties and nested callables afterwards -/
def accessorsAfter (ns : NS) (tf : List Bool) (t : Top) : List Prop' × List Sub :=
  if t.skip then (t.props, t.subs)
  else
    let ps := t.props.map (propAfter ns tf)
    (ps, t.subs.map (methodAfter ps))

/-- `_introspectable_pass3`: fields (anonymous callback: follow its flag and its skip; else the
    type), then the signals once more through `_introspectable_callable_analysis` -/
def pass3Step (ns : NS) (s : St) (i : Nat) : St :=
  match ns.tops[i]? with
  | none => s
  | some t =>
    if t.skip then s
    else
      match t.body with
      | .compound _ fields _ subs =>
        { s with
          ff := s.ff.set i (rowMap fields (fieldKeepPass3 ns s.tf subs (s.sf.getD i [])) (s.ff.getD i []))
          sf := s.sf.set i (rowMap subs (subKeep fun sub => sub.sig.isSignal && callBad ns s.tf sub.sig) (s.sf.getD i [])) }
      | _ => s

def pass3Walk (ns : NS) (s : St) : St :=
  (List.range ns.tops.length).foldl (pass3Step ns) s

/-- `IntrospectablePass.validate()`.  Returns the namespace after walk 2 (skips propagated), the
    final flags and the number of loop rounds; `none` only if the loop ran out of the fuel
    `count + 1` (theorem `C05_fixpoint_terminates`: never). -/
def validate (ns : NS) : Option (NS × St × Nat) :=
  let s0 := aliasWalk ns (initSt ns)
  let ns1 := propagateSkips ns
  let s1 := analyzeWalk ns1 s0
  match loop ns1 (count s1 + 1) s1 with
  | none => none
  | some (s2, rounds) =>
    let s3 := propWalk ns1 s2
    some (ns1, pass3Walk ns1 s3, rounds)

/-- the pass order BEFORE commit 51936cf: alias analysis once, callable analysis exactly twice -/
def validateOld (ns : NS) : NS × St :=
  let s0 := aliasWalk ns (initSt ns)
  let ns1 := propagateSkips ns
  let s1 := analyzeWalk ns1 s0
  let s2 := callWalk ns1 (callWalk ns1 s1)
  let s3 := propWalk ns1 s2
  (ns1, pass3Walk ns1 s3)

/-! ### the reference-closure clause, executable (used by the driver and by `decide` witnesses) -/

/-- the leaves of a type tree -/
def leaves : Ty → List Ty
  | .array e => leaves e
  | .list e => leaves e
  | .map k v => leaves k ++ leaves v
  | t => [t]

/-- a leaf is acceptable: foreign, an allowed fundamental, or a node that is (still)
    introspectable and not skipped; never `unresolved`, never `varargs` -/
def leafOk (ns : NS) (tf : List Bool) : Ty → Bool
  | .unresolved => false
  | .foreignT => true
  | .fund n => fundOk n
  | .varargs => false
  | .ref n => refOk ns tf n
  | .ext intro skip _ => intro && !skip
  | _ => true

def tyClosed (ns : NS) (tf : List Bool) (t : Ty) : Bool := (leaves t).all (leafOk ns tf)

def sigClosed (ns : NS) (tf : List Bool) (s : Sig) : Bool :=
  s.params.all (fun p => tyClosed ns tf p.ty) && tyClosed ns tf s.ret.ty

/-- every alias / callable / field / property that is still introspectable (and visited: not
    skipped, parent not skipped) only refers to acceptable leaves -/
def closedB (ns : NS) (s : St) : Bool :=
  (List.range ns.tops.length).all fun i =>
    match ns.tops[i]? with
    | none => true
    | some t =>
      match t.body with
      | .alias tgt => !s.tf.getD i false || tyClosed ns s.tf tgt
      | .callable sig => !s.tf.getD i false || t.skip || sigClosed ns s.tf sig
      | .compound _ fields props subs =>
        t.skip ||
        ((List.range subs.length).all fun j =>
          match subs[j]? with
          | some sub => !(s.sf.getD i []).getD j false || sub.skip || sigClosed ns s.tf sub.sig
          | none => true) &&
        ((List.range fields.length).all fun k =>
          match fields[k]? with
          | some f =>
            !(s.ff.getD i []).getD k false ||
              (match f.anon with
               | some j => (s.sf.getD i []).getD j false && !subSkipped subs j
               | none => match f.ty with
                 | some ty => tyClosed ns s.tf ty
                 | none => true)
          | none => true) &&
        ((List.range props.length).all fun k =>
          match props[k]? with
          | some p => !(s.pf.getD i []).getD k false || tyClosed ns s.tf p.ty
          | none => true)
      | .other => true

/-! ### girwriter.py: closure / destroy / length indices -/

inductive WErr where
  | valueError        -- `get_parameter_index` / `get_field_index`: "Unknown argument/field"
  | assertion         -- `assert False, "parent not a callable or compound"`
  deriving Repr, DecidableEq

/-- `Callable.get_parameter_index(name)` / `Compound.get_field_index(name)`: position of the first
    entry whose (possibly missing) name equals `name`, else ValueError.  `names` are the
    `parameters` WITHOUT the instance parameter / the `fields`. -/
def getIndex (names : List (Option Str)) (name : Str) : Except WErr Nat :=
  match names.findIdx? (fun a => a == some name) with
  | some i => .ok i
  | none => .error .valueError

inductive WParent where
  | callable (paramNames : List (Option Str))
  | compound (fieldNames : List (Option Str))
  | otherNode               -- a Class/Interface (for fields), `None` (signal return values, nested types)
  deriving Repr, DecidableEq

/-- an optional name turned into an optional index (`if x_name is not None: idx = get_..._index`) -/
def optIndex (names : List (Option Str)) : Option Str → Except WErr (Option Nat)
  | none => .ok none
  | some n =>
    match getIndex names n with
    | .ok i => .ok (some i)
    | .error e => .error e

/-- `_write_type`: the `length` attribute of an array -/
def writeLength (parent : WParent) (lengthName : Option Str) : Except WErr (Option Nat) :=
  match parent with
  | .callable names => optIndex names lengthName
  | .compound names => optIndex names lengthName
  | .otherNode =>
    match lengthName with
    | none => .ok none
    | some _ => .error .assertion

structure WParam where
  closureName : Option Str
  destroyName : Option Str
  lengthName : Option Str        -- `type.length_param_name` when the type is an Array
  deriving Repr, DecidableEq

/-- the indices `_write_parameter(parent, parameter)` writes: (closure, destroy, length) -/
def writeParam (paramNames : List (Option Str)) (p : WParam) :
    Except WErr (Option Nat × Option Nat × Option Nat) :=
  match optIndex paramNames p.closureName with
  | .error e => .error e
  | .ok c =>
    match optIndex paramNames p.destroyName with
    | .error e => .error e
    | .ok d =>
      match writeLength (.callable paramNames) p.lengthName with
      | .error e => .error e
      | .ok l => .ok (c, d, l)

end GIVerif.Introspectable
