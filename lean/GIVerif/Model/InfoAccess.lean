/-
  C09 model: the accessor side of libgirepository — how the public API finds things inside a
  typelib.  One Lean definition per C function (named in the comment), same arithmetic, same
  branch order.  Field positions and sizeof() values come from the generated layout table
  `GIVerif.Gen.TypelibLayout` (measured by a C probe against /repo's gitypelib-internal.h);
  the `header->*_blob_size` values are read from the typelib header exactly as the C code does.

  Three layers:
   1. pure offset arithmetic (`Sizes`, `ifacePad`, `fieldLoop`, `object*Offset`, ...) — the
      subject of the `C09_sections` theorems;
   2. the specification: sections laid out one after another (`Sec`, `layoutPos`, ...);
   3. the byte-level reader and the canonical dump (`dumpTypelib`) that the harness compares,
      line by line, with cdrivers/c09_walk.c run on the real library.  The dump calls the
      layer-1 functions, so the functions the theorems speak about are the ones compared.

  No Mathlib, no Lemmas: this file links into the compiled driver gidriver_c09.
-/
import GIVerif.Gen.TypelibLayout
import GIVerif.Gen.InfoSwitch

namespace GIVerif.InfoAccess
open GIVerif

/-! ## 0. the generated layout table -/

/-- sizeof(struct) from the table (0 when the struct is unknown) -/
def sizeOf (s : String) : Nat :=
  match Gen.blobSizes.find? (fun e => e.1 == s) with
  | some e => e.2.2
  | none => 0

/-- (first bit, width) of a scalar / bit-field member -/
def fld (s m : String) : Nat × Nat :=
  match Gen.blobFields.find? (fun e => e.1 == s && e.2.1 == m) with
  | some e => e.2.2
  | none => (0, 0)

/-- byte offset of a member that is itself a blob struct (G_STRUCT_OFFSET) -/
def nestedOff (s m : String) : Nat :=
  match Gen.blobNested.find? (fun e => e.1 == s && e.2.1 == m) with
  | some e => e.2.2.1
  | none => 0

/-- byte offset of an array member -/
def arrayOff (s m : String) : Nat :=
  match Gen.blobArrays.find? (fun e => e.1 == s && e.2.1 == m) with
  | some e => e.2.2.1
  | none => 0

/-- value of an enumerator -/
def enumVal (e n : String) : Nat :=
  match Gen.typelibEnums.find? (fun x => x.1 == e && x.2.1 == n) with
  | some x => x.2.2
  | none => 0

/-- G_STRUCT_OFFSET of a scalar member (its first bit / 8) -/
def memberOff (s m : String) : Nat := (fld s m).1 / 8

/-! ## 1. offset arithmetic of the accessors -/

/-- the `header->*_blob_size` values the accessors multiply with -/
structure Sizes where
  entry : Nat
  function : Nat
  callback : Nat
  signal : Nat
  vfunc : Nat
  arg : Nat
  property : Nat
  field : Nat
  value : Nat
  attrib : Nat
  constant : Nat
  signature : Nat
  enum_ : Nat
  struct_ : Nat
  object : Nat
  interface : Nat
  union_ : Nat
  deriving Repr, DecidableEq

/-- what g-ir-compiler writes into the header: the sizeof() of each blob (girmodule.c) -/
def tableSizes : Sizes where
  entry := sizeOf "DirEntry"
  function := sizeOf "FunctionBlob"
  callback := sizeOf "CallbackBlob"
  signal := sizeOf "SignalBlob"
  vfunc := sizeOf "VFuncBlob"
  arg := sizeOf "ArgBlob"
  property := sizeOf "PropertyBlob"
  field := sizeOf "FieldBlob"
  value := sizeOf "ValueBlob"
  attrib := sizeOf "AttributeBlob"
  constant := sizeOf "ConstantBlob"
  signature := sizeOf "SignatureBlob"
  enum_ := sizeOf "EnumBlob"
  struct_ := sizeOf "StructBlob"
  object := sizeOf "ObjectBlob"
  interface := sizeOf "InterfaceBlob"
  union_ := sizeOf "UnionBlob"

/-- `(blob->n_interfaces + blob->n_interfaces % 2) * 2` — giobjectinfo.c / giinterfaceinfo.c -/
def ifacePad (n : Nat) : Nat := (n + n % 2) * 2

/-- the loop of `g_object_info_get_field_offset` / `g_struct_get_field_offset`:
    `for (i = 0; i < n; i++) { offset += field_blob_size; if (field_blob->has_embedded_type) offset += callback_blob_size; }`
    `hasEmb off` is the `has_embedded_type` bit of the FieldBlob at `off`. -/
def fieldLoop (hasEmb : Nat → Bool) (fsz cbsz : Nat) : Nat → Nat → Nat
  | off, 0 => off
  | off, n + 1 => fieldLoop hasEmb fsz cbsz (off + fsz + (if hasEmb off then cbsz else 0)) n

/-- the counts read from an ObjectBlob -/
structure ObjCounts where
  nInterfaces : Nat
  nFields : Nat
  nFieldCallbacks : Nat
  nProperties : Nat
  nMethods : Nat
  nSignals : Nat
  nVfuncs : Nat
  nConstants : Nat
  deriving Repr, DecidableEq

/-- `&blob->interfaces[n]` in g_object_info_get_interface -/
def objectInterfaceSlot (base n : Nat) : Nat := base + arrayOff "ObjectBlob" "interfaces" + 2 * n

/-- g_object_info_get_field_offset -/
def objectFieldOffset (S : Sizes) (hasEmb : Nat → Bool) (base : Nat) (c : ObjCounts) (n : Nat) : Nat :=
  fieldLoop hasEmb S.field S.callback (base + S.object + ifacePad c.nInterfaces) n

/-- g_object_info_get_property -/
def objectPropertyOffset (S : Sizes) (base : Nat) (c : ObjCounts) (n : Nat) : Nat :=
  base + S.object + ifacePad c.nInterfaces + c.nFields * S.field + c.nFieldCallbacks * S.callback
    + n * S.property

/-- g_object_info_get_method (and the start used by g_object_info_find_method) -/
def objectMethodOffset (S : Sizes) (base : Nat) (c : ObjCounts) (n : Nat) : Nat :=
  base + S.object + ifacePad c.nInterfaces + c.nFields * S.field + c.nFieldCallbacks * S.callback
    + c.nProperties * S.property + n * S.function

/-- object_get_signal_offset -/
def objectSignalOffset (S : Sizes) (base : Nat) (c : ObjCounts) (n : Nat) : Nat :=
  base + S.object + ifacePad c.nInterfaces + c.nFields * S.field + c.nFieldCallbacks * S.callback
    + c.nProperties * S.property + c.nMethods * S.function + n * S.signal

/-- g_object_info_get_vfunc (and g_object_info_find_vfunc) -/
def objectVfuncOffset (S : Sizes) (base : Nat) (c : ObjCounts) (n : Nat) : Nat :=
  base + S.object + ifacePad c.nInterfaces + c.nFields * S.field + c.nFieldCallbacks * S.callback
    + c.nProperties * S.property + c.nMethods * S.function + c.nSignals * S.signal + n * S.vfunc

/-- g_object_info_get_constant -/
def objectConstantOffset (S : Sizes) (base : Nat) (c : ObjCounts) (n : Nat) : Nat :=
  base + S.object + ifacePad c.nInterfaces + c.nFields * S.field + c.nFieldCallbacks * S.callback
    + c.nProperties * S.property + c.nMethods * S.function + c.nSignals * S.signal
    + c.nVfuncs * S.vfunc + n * S.constant

/-- the counts read from an InterfaceBlob -/
structure IfaceCounts where
  nPrerequisites : Nat
  nProperties : Nat
  nMethods : Nat
  nSignals : Nat
  nVfuncs : Nat
  nConstants : Nat
  deriving Repr, DecidableEq

/-- `&blob->prerequisites[n]` in g_interface_info_get_prerequisite -/
def ifacePrerequisiteSlot (base n : Nat) : Nat := base + arrayOff "InterfaceBlob" "prerequisites" + 2 * n

/-- g_interface_info_get_property -/
def ifacePropertyOffset (S : Sizes) (base : Nat) (c : IfaceCounts) (n : Nat) : Nat :=
  base + S.interface + ifacePad c.nPrerequisites + n * S.property

/-- g_interface_info_get_method / g_interface_info_find_method -/
def ifaceMethodOffset (S : Sizes) (base : Nat) (c : IfaceCounts) (n : Nat) : Nat :=
  base + S.interface + ifacePad c.nPrerequisites + c.nProperties * S.property + n * S.function

/-- g_interface_info_get_signal -/
def ifaceSignalOffset (S : Sizes) (base : Nat) (c : IfaceCounts) (n : Nat) : Nat :=
  base + S.interface + ifacePad c.nPrerequisites + c.nProperties * S.property
    + c.nMethods * S.function + n * S.signal

/-- g_interface_info_get_vfunc / g_interface_info_find_vfunc -/
def ifaceVfuncOffset (S : Sizes) (base : Nat) (c : IfaceCounts) (n : Nat) : Nat :=
  base + S.interface + ifacePad c.nPrerequisites + c.nProperties * S.property
    + c.nMethods * S.function + c.nSignals * S.signal + n * S.vfunc

/-- g_interface_info_get_constant -/
def ifaceConstantOffset (S : Sizes) (base : Nat) (c : IfaceCounts) (n : Nat) : Nat :=
  base + S.interface + ifacePad c.nPrerequisites + c.nProperties * S.property
    + c.nMethods * S.function + c.nSignals * S.signal + c.nVfuncs * S.vfunc + n * S.constant

/-- g_struct_get_field_offset -/
def structFieldOffset (S : Sizes) (hasEmb : Nat → Bool) (base n : Nat) : Nat :=
  fieldLoop hasEmb S.field S.callback (base + S.struct_) n

/-- g_struct_info_get_method: `g_struct_get_field_offset (info, blob->n_fields) + n * function_blob_size` -/
def structMethodOffset (S : Sizes) (hasEmb : Nat → Bool) (base nFields n : Nat) : Nat :=
  structFieldOffset S hasEmb base nFields + n * S.function

/-- g_union_info_get_field: no embedded-callback loop in the C code -/
def unionFieldOffset (S : Sizes) (base n : Nat) : Nat := base + S.union_ + n * S.field

/-- g_union_info_get_method / g_union_info_find_method -/
def unionMethodOffset (S : Sizes) (base nFields n : Nat) : Nat :=
  base + S.union_ + nFields * S.field + n * S.function

/-- g_enum_info_get_value -/
def enumValueOffset (S : Sizes) (base n : Nat) : Nat := base + S.enum_ + n * S.value

/-- g_enum_info_get_method -/
def enumMethodOffset (S : Sizes) (base nValues n : Nat) : Nat :=
  base + S.enum_ + nValues * S.value + n * S.function

/-- g_callable_info_get_arg: `offset + signature_blob_size + n * arg_blob_size` -/
def argOffset (S : Sizes) (sig n : Nat) : Nat := sig + S.signature + n * S.arg

/-- g_irepository_get_info → g_typelib_get_dir_entry (typelib, index + 1):
    `header->directory + (index - 1) * header->entry_blob_size` with the 1-based index -/
def dirEntryOffset (S : Sizes) (directory index1 : Nat) : Nat := directory + (index1 - 1) * S.entry

/-- g_type_info_get_param_type: `offset + sizeof (ParamTypeBlob) + sizeof (SimpleTypeBlob) * n` -/
def paramTypeOffset (off n : Nat) : Nat := off + sizeOf "ParamTypeBlob" + sizeOf "SimpleTypeBlob" * n

/-! ## 2. specification: sections laid out one after another -/

/-- one section of a container blob -/
inductive Sec where
  /-- the fixed-size container blob itself -/
  | blob (size : Nat)
  /-- `n` 2-byte directory indices, padded to a multiple of 4 bytes when `n` is odd -/
  | refs (n : Nat)
  /-- FieldBlobs, the i-th followed by an embedded CallbackBlob iff `embedded[i]` -/
  | fields (embedded : List Bool)
  /-- `n` blobs of `elem` bytes each -/
  | fixed (elem n : Nat)
  deriving Repr

/-- bytes occupied by a run of fields -/
def fieldsSize (S : Sizes) : List Bool → Nat
  | [] => 0
  | b :: bs => S.field + (if b then S.callback else 0) + fieldsSize S bs

def Sec.size (S : Sizes) : Sec → Nat
  | .blob n => n
  | .refs n => 2 * n + (if n % 2 = 1 then 2 else 0)
  | .fields fs => fieldsSize S fs
  | .fixed e n => n * e

/-- start of the i-th member relative to the start of its section -/
def Sec.member (S : Sizes) : Sec → Nat → Nat
  | .blob _, _ => 0
  | .refs _, i => 2 * i
  | .fields fs, i => fieldsSize S (fs.take i)
  | .fixed e _, i => i * e

def secsSize (S : Sizes) : List Sec → Nat
  | [] => 0
  | s :: ss => s.size S + secsSize S ss

/-- absolute position of the i-th member of section number k of a container at `base` -/
def layoutPos (S : Sizes) (base : Nat) (secs : List Sec) (k i : Nat) : Nat :=
  base + secsSize S (secs.take k) + (match secs[k]? with | some s => s.member S i | none => 0)

/-- ObjectBlob: interfaces, fields(+field callbacks), properties, methods, signals, vfuncs, constants -/
def objectLayout (S : Sizes) (nIf : Nat) (fs : List Bool) (nP nM nS nV nC : Nat) : List Sec :=
  [.blob S.object, .refs nIf, .fields fs, .fixed S.property nP, .fixed S.function nM,
   .fixed S.signal nS, .fixed S.vfunc nV, .fixed S.constant nC]

/-- InterfaceBlob: prerequisites, properties, methods, signals, vfuncs, constants -/
def ifaceLayout (S : Sizes) (nPre nP nM nS nV nC : Nat) : List Sec :=
  [.blob S.interface, .refs nPre, .fixed S.property nP, .fixed S.function nM,
   .fixed S.signal nS, .fixed S.vfunc nV, .fixed S.constant nC]

/-- StructBlob: fields (with embedded callbacks), methods -/
def structLayout (S : Sizes) (fs : List Bool) (nM : Nat) : List Sec :=
  [.blob S.struct_, .fields fs, .fixed S.function nM]

/-- UnionBlob: fields, methods -/
def unionLayout (S : Sizes) (fs : List Bool) (nM : Nat) : List Sec :=
  [.blob S.union_, .fields fs, .fixed S.function nM]

/-- EnumBlob: values, methods -/
def enumLayout (S : Sizes) (nV nM : Nat) : List Sec :=
  [.blob S.enum_, .fixed S.value nV, .fixed S.function nM]

/-- SignatureBlob followed by its ArgBlobs -/
def signatureLayout (S : Sizes) (nArgs : Nat) : List Sec :=
  [.blob S.signature, .fixed S.arg nArgs]

/-- the typelib really contains the field run `fs` starting at `start`: the `has_embedded_type`
    bit found at the position of the i-th field is `fs[i]` -/
def FieldsAt (hasEmb : Nat → Bool) (S : Sizes) (start : Nat) (fs : List Bool) : Prop :=
  ∀ i, (h : i < fs.length) → hasEmb (start + fieldsSize S (fs.take i)) = fs[i]

/-! ## 1b. attribute lookup (gibaseinfo.c) -/

/-- the walk-back loop of `_attribute_blob_find_first`:
    `previous = res - 1; while (previous >= first && previous->offset == blob_offset) { res = previous; ... }` -/
def walkBack (offs : Nat → Nat) (key : Nat) : Nat → Nat
  | 0 => 0
  | r + 1 => if offs r = key then walkBack offs key r else r + 1

/-- `_attribute_blob_find_first` given the element `bsearch` returned (none = NULL) -/
def findFirst (offs : Nat → Nat) (key : Nat) (bs : Option Nat) : Option Nat :=
  bs.map (walkBack offs key)

/-- what `bsearch (&blob, first, n, size, cmp_attribute)` may return: ANY index whose key compares
    equal, or NULL only when there is none (bsearch on a sorted table) -/
def BsearchOk (offs : Nat → Nat) (n key : Nat) : Option Nat → Prop
  | some i => i < n ∧ offs i = key
  | none => ∀ i, i < n → offs i ≠ key

/-- the table is sorted by node offset (girmodule.c sorts `nodes_with_attributes`) -/
def SortedTable (offs : Nat → Nat) (n : Nat) : Prop := ∀ i j, i ≤ j → j < n → offs i ≤ offs j

/-- glibc's bsearch on the keys (the executable stand-in used by the dump) -/
def bsearch (offs : Nat → Nat) (key : Nat) (l u : Nat) : Option Nat :=
  if h : l < u then
    let idx := (l + u) / 2
    if key < offs idx then bsearch offs key l idx
    else if offs idx < key then bsearch offs key (idx + 1) u
    else some idx
  else none
termination_by u - l
decreasing_by all_goals omega

/-- `g_base_info_iterate_attributes` from position `next`: yields `next, next+1, ...` while
    `next < n` and `offs next = key`  (`fuel` bounds the loop by the table size) -/
def iterFrom (offs : Nat → Nat) (n key : Nat) : Nat → Nat → List Nat
  | 0, _ => []
  | fuel + 1, next => if next < n ∧ offs next = key then next :: iterFrom offs n key fuel (next + 1) else []

/-- all attribute indices a node yields: find first, then iterate -/
def iterAttributes (offs : Nat → Nat) (n key : Nat) (bs : Option Nat) : List Nat :=
  match findFirst offs key bs with
  | none => []
  | some first => iterFrom offs n key n first

/-! ## 1c. type decoding (gitypeinfo.c, `_g_type_info_new`) -/

def pow2 (k : Nat) : Nat := 2 ^ k

/-- extract a bit-field from a little-endian word -/
def wordBits (w : Nat) (fw : Nat × Nat) : Nat := w / pow2 fw.1 % pow2 fw.2

/-- `type->flags.reserved == 0 && type->flags.reserved2 == 0` on the 32-bit SimpleTypeBlob word -/
def typeIsSimple (w : Nat) : Bool :=
  wordBits w (fld "SimpleTypeBlobFlags" "reserved") == 0 && wordBits w (fld "SimpleTypeBlobFlags" "reserved2") == 0

/-- `type->flags.tag` -/
def simpleTag (w : Nat) : Nat := wordBits w (fld "SimpleTypeBlobFlags" "tag")

/-- `type->flags.pointer` -/
def simplePointer (w : Nat) : Nat := wordBits w (fld "SimpleTypeBlobFlags" "pointer")

/-- the word the compiler writes for a basic type -/
def encodeSimple (tag pointer : Nat) : Nat :=
  tag * pow2 (fld "SimpleTypeBlobFlags" "tag").1 + pointer * pow2 (fld "SimpleTypeBlobFlags" "pointer").1

/-- `_g_type_info_new`: the offset the GITypeInfo gets — the SimpleTypeBlob itself, or the blob it points to -/
def typeInfoOffset (off w : Nat) : Nat := if typeIsSimple w then off else w

/-! ## 1d. g_base_info_is_deprecated (gibaseinfo.c) -/

/-- the case group of the `switch (rinfo->type)` of g_base_info_is_deprecated that an info of this
    GIInfoType reaches: the group holding a label whose enumerator has that value, else the group of
    the `default` label.  The groups come from `Gen.deprecatedSwitch`, regenerated from gibaseinfo.c. -/
def deprecatedGroup (kind : Nat) : Option (List String × String × String) :=
  let isKind (l : String) : Bool :=
    Gen.typelibEnums.any (fun x => x.1 == "GIInfoType" && x.2.1 == l && x.2.2 == kind)
  match Gen.deprecatedSwitch.find? (fun g => g.1.any isKind) with
  | some g => some g
  | none => Gen.deprecatedSwitch.find? (fun g => g.1.contains "default")

/-- g_base_info_is_deprecated: which bit (if any) is read for an info of this GIInfoType —
    `((Blob *) &typelib->data[offset])->member` of the case group reached; a group that only leaves
    the switch (and a type with no group at all) ends in `return FALSE`. -/
def deprecatedField (kind : Nat) : Option (Nat × Nat) :=
  match deprecatedGroup kind with
  | some g => if g.2.1 == "" then none else some (fld g.2.1 g.2.2)
  | none => none

/-- where the format stores a deprecation bit for an info of this kind (none: the blob has no such bit) -/
def storedDeprecatedField (kind : Nat) : Option (Nat × Nat) :=
  let blobOf : List (String × String) :=
    [("GI_INFO_TYPE_FUNCTION", "FunctionBlob"), ("GI_INFO_TYPE_CALLBACK", "CallbackBlob"),
     ("GI_INFO_TYPE_STRUCT", "StructBlob"), ("GI_INFO_TYPE_BOXED", "StructBlob"),
     ("GI_INFO_TYPE_ENUM", "EnumBlob"), ("GI_INFO_TYPE_FLAGS", "EnumBlob"),
     ("GI_INFO_TYPE_OBJECT", "ObjectBlob"), ("GI_INFO_TYPE_INTERFACE", "InterfaceBlob"),
     ("GI_INFO_TYPE_CONSTANT", "ConstantBlob"), ("GI_INFO_TYPE_UNION", "UnionBlob"),
     ("GI_INFO_TYPE_VALUE", "ValueBlob"), ("GI_INFO_TYPE_SIGNAL", "SignalBlob"),
     ("GI_INFO_TYPE_PROPERTY", "PropertyBlob"), ("GI_INFO_TYPE_VFUNC", "VFuncBlob"),
     ("GI_INFO_TYPE_FIELD", "FieldBlob"), ("GI_INFO_TYPE_ARG", "ArgBlob")]
  match blobOf.find? (fun e => enumVal "GIInfoType" e.1 == kind) with
  | some e => if (fld e.2 "deprecated").2 == 0 then none else some (fld e.2 "deprecated")
  | none => none

/-! ## 3. byte-level reader and canonical dump -/

abbrev Bytes := ByteArray

def u8 (t : Bytes) (i : Nat) : Nat := (t.get! i).toNat

/-- little-endian unsigned integer of `k` bytes at `off` (bytes past the end read as 0) -/
def leN (t : Bytes) (off : Nat) : Nat → Nat
  | 0 => 0
  | k + 1 => u8 t off + 256 * leN t (off + 1) k

def u16 (t : Bytes) (off : Nat) : Nat := leN t off 2
def u32 (t : Bytes) (off : Nat) : Nat := leN t off 4

/-- a scalar / bit-field member of the struct at `off`, position from the layout table -/
def getF (t : Bytes) (off : Nat) (fw : Nat × Nat) : Nat :=
  leN t (off + fw.1 / 8) 8 / pow2 (fw.1 % 8) % pow2 fw.2

def toSigned (bits v : Nat) : Int :=
  if v < pow2 (bits - 1) then (v : Int) else (v : Int) - (pow2 bits : Int)

/-- NUL-terminated string at `off` (g_typelib_get_string) -/
def cstrAux (t : Bytes) : Nat → Nat → List Char → List Char
  | 0, _, acc => acc.reverse
  | fuel + 1, off, acc =>
    if off < t.size then
      let b := u8 t off
      if b == 0 then acc.reverse else cstrAux t fuel (off + 1) (Char.ofNat b :: acc)
    else acc.reverse

def cstr (t : Bytes) (off : Nat) : String := String.ofList (cstrAux t t.size off [])

/-- `blob->x ? g_typelib_get_string (...) : NULL` -/
def optStr (t : Bytes) (off : Nat) : String := if off == 0 then "(null)" else cstr t off

def b2s (b : Bool) : String := if b then "1" else "0"
def n2b (n : Nat) : String := if n != 0 then "1" else "0"

/-- Header fields -/
def hdr (t : Bytes) (m : String) : Nat := getF t 0 (fld "Header" m)

/-- the sizes as the C code reads them: from the typelib header -/
def hdrSizes (t : Bytes) : Sizes where
  entry := hdr t "entry_blob_size"
  function := hdr t "function_blob_size"
  callback := hdr t "callback_blob_size"
  signal := hdr t "signal_blob_size"
  vfunc := hdr t "vfunc_blob_size"
  arg := hdr t "arg_blob_size"
  property := hdr t "property_blob_size"
  field := hdr t "field_blob_size"
  value := hdr t "value_blob_size"
  attrib := hdr t "attribute_blob_size"
  constant := hdr t "constant_blob_size"
  signature := hdr t "signature_blob_size"
  enum_ := hdr t "enum_blob_size"
  struct_ := hdr t "struct_blob_size"
  object := hdr t "object_blob_size"
  interface := hdr t "interface_blob_size"
  union_ := hdr t "union_blob_size"

/-- everything the dump needs about the typelib, read once -/
structure Ctx where
  t : Bytes
  S : Sizes
  ns : String
  directory : Nat
  nEntries : Nat
  nLocal : Nat
  attrs : Nat
  nAttrs : Nat

def mkCtx (t : Bytes) : Ctx where
  t := t
  S := hdrSizes t
  ns := cstr t (hdr t "namespace")
  directory := hdr t "directory"
  nEntries := hdr t "n_entries"
  nLocal := hdr t "n_local_entries"
  attrs := hdr t "attributes"
  nAttrs := hdr t "n_attributes"

def K (n : String) : Nat := enumVal "GIInfoType" n
def TAG (n : String) : Nat := enumVal "GITypeTag" n

/-- `has_embedded_type` of the FieldBlob at `off` -/
def hasEmbAt (c : Ctx) (off : Nat) : Bool := getF c.t off (fld "FieldBlob" "has_embedded_type") != 0

/-- offset key of the i-th AttributeBlob -/
def attrKey (c : Ctx) (i : Nat) : Nat := getF c.t (c.attrs + i * c.S.attrib) (fld "AttributeBlob" "offset")

/-- g_base_info_get_name: which blob member holds the name for this GIInfoType -/
def nameField (kind : Nat) : Nat × Nat :=
  if kind == K "GI_INFO_TYPE_VALUE" then fld "ValueBlob" "name"
  else if kind == K "GI_INFO_TYPE_SIGNAL" then fld "SignalBlob" "name"
  else if kind == K "GI_INFO_TYPE_PROPERTY" then fld "PropertyBlob" "name"
  else if kind == K "GI_INFO_TYPE_VFUNC" then fld "VFuncBlob" "name"
  else if kind == K "GI_INFO_TYPE_FIELD" then fld "FieldBlob" "name"
  else if kind == K "GI_INFO_TYPE_ARG" then fld "ArgBlob" "name"
  else fld "CommonBlob" "name"

def infoName (c : Ctx) (kind off : Nat) : String := cstr c.t (getF c.t off (nameField kind))

/-- g_base_info_is_deprecated -/
def isDeprecated (c : Ctx) (kind off : Nat) : Bool :=
  match deprecatedField kind with
  | some fw => getF c.t off fw != 0
  | none => false

/-- `_g_info_from_entry (repository, typelib, index)` reduced to what the dump prints:
    (qualified name, kind or none for an entry of another namespace, blob offset) -/
def fromEntry (c : Ctx) (index : Nat) : String × Option Nat × Nat :=
  let e := dirEntryOffset c.S c.directory index
  let blobType := getF c.t e (fld "DirEntry" "blob_type")
  let isLocal := getF c.t e (fld "DirEntry" "local")
  let nameOff := getF c.t e (fld "DirEntry" "name")
  let off := getF c.t e (fld "DirEntry" "offset")
  if isLocal != 0 then (c.ns ++ "." ++ infoName c blobType off, some blobType, off)
  else (cstr c.t off ++ "." ++ cstr c.t nameOff, none, 0)

/-- `blob->x ? _g_info_from_entry (...) : NULL` printed as a qualified name -/
def optEntryName (c : Ctx) (index : Nat) : String :=
  if index == 0 then "(null)" else (fromEntry c index).1

abbrev Out := Array String

/-- attributes by iteration, by name, and a miss — mirrors dump_attrs of the walker over
    g_base_info_iterate_attributes / g_base_info_get_attribute.  `tagw` is "attr" or "retattr". -/
def dumpAttrsKey (c : Ctx) (path tagw : String) (key : Nat) (out : Out) : Out :=
  let offs := attrKey c
  let idxs := iterAttributes offs c.nAttrs key (bsearch offs key 0 c.nAttrs)
  let pairs := idxs.map (fun i =>
    let a := c.attrs + i * c.S.attrib
    (cstr c.t (getF c.t a (fld "AttributeBlob" "name")), cstr c.t (getF c.t a (fld "AttributeBlob" "value"))))
  let out := (pairs.zipIdx).foldl (fun o (p, k) => o.push s!"{path} {tagw}.{k} {p.1}={p.2}") out
  -- g_base_info_get_attribute: the first iterated attribute with that name
  let out := (pairs.zipIdx).foldl (fun o (p, k) =>
    let v := match pairs.find? (fun q => q.1 == p.1) with | some q => q.2 | none => "(null)"
    o.push s!"{path} {tagw}get.{k} {p.1}={v}") out
  let miss := match pairs.find? (fun q => q.1 == "c09:no-such-attribute") with | some q => q.2 | none => "(null)"
  out.push s!"{path} {tagw}get.missing={miss}"

/-- dump of a (non-embedded) GITypeInfo created by `_g_type_info_new (container, typelib, off)` -/
def dumpType (c : Ctx) : Nat → String → Nat → Out → Out
  | 0, path, _, out => out.push s!"{path} type-nesting-too-deep"
  | fuel + 1, path, off, out =>
    let w := u32 c.t off
    let o := typeInfoOffset off w                      -- _g_type_info_new
    let w' := u32 c.t o
    let simple := typeIsSimple w'
    -- g_type_info_get_tag / g_type_info_is_pointer
    let tag := if simple then simpleTag w' else getF c.t o (fld "InterfaceTypeBlob" "tag")
    let ptr := if simple then simplePointer w' else getF c.t o (fld "InterfaceTypeBlob" "pointer")
    let out := out.push s!"{path} type tag={tag} pointer={ptr}"
    if tag == TAG "GI_TYPE_TAG_ARRAY" then
      -- the array accessors return their defaults when the blob is a simple type
      let isArr := !simple && getF c.t o (fld "ArrayTypeBlob" "tag") == TAG "GI_TYPE_TAG_ARRAY"
      let arrayType : Int := if simple then -1 else (getF c.t o (fld "ArrayTypeBlob" "array_type") : Int)
      let length : Int := if isArr && getF c.t o (fld "ArrayTypeBlob" "has_length") != 0
        then (getF c.t (o + nestedOff "ArrayTypeBlob" "dimensions") (fld "ArrayTypeDimension" "length") : Int) else -1
      let fixed : Int := if isArr && getF c.t o (fld "ArrayTypeBlob" "has_size") != 0
        then (getF c.t (o + nestedOff "ArrayTypeBlob" "dimensions") (fld "ArrayTypeDimension" "size") : Int) else -1
      let zt := isArr && getF c.t o (fld "ArrayTypeBlob" "zero_terminated") != 0
      let out := out.push s!"{path} array array_type={arrayType} length={length} fixed_size={fixed} zero_terminated={b2s zt}"
      dumpType c fuel s!"{path}.p0" (paramTypeOffset o 0) out
    else if tag == TAG "GI_TYPE_TAG_GLIST" || tag == TAG "GI_TYPE_TAG_GSLIST" then
      dumpType c fuel s!"{path}.p0" (paramTypeOffset o 0) out
    else if tag == TAG "GI_TYPE_TAG_GHASH" then
      let out := dumpType c fuel s!"{path}.p0" (paramTypeOffset o 0) out
      dumpType c fuel s!"{path}.p1" (paramTypeOffset o 1) out
    else if tag == TAG "GI_TYPE_TAG_INTERFACE" then
      -- g_type_info_get_interface: `_g_info_from_entry (..., blob->interface)` when the blob is complex
      if simple then out.push s!"{path} iface=(null)"
      else
        let (qn, kind, _) := fromEntry c (getF c.t o (fld "InterfaceTypeBlob" "interface"))
        match kind with
        | some k => out.push s!"{path} iface={qn} ikind={k} embedded=0"
        | none => out.push s!"{path} iface={qn} ikind=x embedded=0"
    else out

def typeFuel : Nat := 12

/-- signature_offset (gicallableinfo.c): which member holds the SignatureBlob offset -/
def signatureField (kind : Nat) : Nat × Nat :=
  if kind == K "GI_INFO_TYPE_FUNCTION" then fld "FunctionBlob" "signature"
  else if kind == K "GI_INFO_TYPE_VFUNC" then fld "VFuncBlob" "signature"
  else if kind == K "GI_INFO_TYPE_CALLBACK" then fld "CallbackBlob" "signature"
  else fld "SignalBlob" "signature"

def signatureOffset (c : Ctx) (kind off : Nat) : Nat := u32 c.t (off + (signatureField kind).1 / 8)

/-- GITransfer from the two ownership bits -/
def transfer (everything container : Nat) : Nat := if everything != 0 then 2 else if container != 0 then 1 else 0

/-- gicallableinfo.c + giarginfo.c for one callable -/
def dumpCallable (c : Ctx) (path : String) (kind off : Nat) (out : Out) : Out :=
  let sig := signatureOffset c kind off
  let sb (m : String) := getF c.t sig (fld "SignatureBlob" m)
  -- g_callable_info_can_throw_gerror
  let throws :=
    if sb "throws" != 0 then true
    else if kind == K "GI_INFO_TYPE_FUNCTION" then getF c.t off (fld "FunctionBlob" "throws") != 0
    else if kind == K "GI_INFO_TYPE_VFUNC" then getF c.t off (fld "VFuncBlob" "throws") != 0
    else false
  -- g_callable_info_is_method
  let isMethod :=
    if kind == K "GI_INFO_TYPE_FUNCTION" then
      getF c.t off (fld "FunctionBlob" "constructor") == 0 && getF c.t off (fld "FunctionBlob" "is_static") == 0
    else if kind == K "GI_INFO_TYPE_CALLBACK" then false
    else true
  let nArgs := sb "n_arguments"
  let out := out.push (s!"{path} callable throws={b2s throws} is_method={b2s isMethod} may_return_null={n2b (sb "may_return_null")} "
    ++ s!"skip_return={n2b (sb "skip_return")} caller_owns={transfer (sb "caller_owns_return_value") (sb "caller_owns_return_container")} "
    ++ s!"instance_transfer={transfer (sb "instance_transfer_ownership") 0} n_args={nArgs}")
  let out := dumpType c typeFuel s!"{path}.ret" sig out
  let out := dumpAttrsKey c path "retattr" sig out
  (List.range nArgs).foldl (fun out j =>
    let a := argOffset c.S sig j
    let ab (m : String) := getF c.t a (fld "ArgBlob" m)
    let dir := if ab "in" != 0 && ab "out" != 0 then 2 else if ab "out" != 0 then 1 else 0
    let p := s!"{path}.a{j}"
    let out := out.push (s!"{p} arg name={cstr c.t (ab "name")} direction={dir} retval={n2b (ab "return_value")} "
      ++ s!"caller_allocates={n2b (ab "caller_allocates")} optional={n2b (ab "optional")} nullable={n2b (ab "nullable")} "
      ++ s!"skip={n2b (ab "skip")} transfer={transfer (ab "transfer_ownership") (ab "transfer_container_ownership")} "
      ++ s!"scope={ab "scope"} closure={toSigned 8 (ab "closure")} destroy={toSigned 8 (ab "destroy")}")
    let out := dumpAttrsKey c p "attr" a out
    dumpType c typeFuel s!"{p}.t" (a + nestedOff "ArgBlob" "arg_type") out) out

/-- property index → container's property offset (g_function_info_get_property) -/
inductive Container where
  | object (base : Nat) (cnt : ObjCounts)
  | iface (base : Nat) (cnt : IfaceCounts)
  | other

def Container.propertyOffset (c : Ctx) : Container → Nat → Option Nat
  | .object b cnt, n => some (objectPropertyOffset c.S b cnt n)
  | .iface b cnt, n => some (ifacePropertyOffset c.S b cnt n)
  | .other, _ => none

def Container.methodOffset (c : Ctx) : Container → Nat → Option Nat
  | .object b cnt, n => some (objectMethodOffset c.S b cnt n)
  | .iface b cnt, n => some (ifaceMethodOffset c.S b cnt n)
  | .other, _ => none

/-- gifunctioninfo.c -/
def dumpFunction (c : Ctx) (path : String) (cont : Container) (off : Nat) (out : Out) : Out :=
  let kind := K "GI_INFO_TYPE_FUNCTION"
  let fb (m : String) := getF c.t off (fld "FunctionBlob" m)
  let isMethod := fb "constructor" == 0 && fb "is_static" == 0
  let flags := (if isMethod then 1 else 0) + (if fb "constructor" != 0 then 2 else 0) + (if fb "getter" != 0 then 4 else 0)
    + (if fb "setter" != 0 then 8 else 0) + (if fb "wraps_vfunc" != 0 then 16 else 0) + (if fb "throws" != 0 then 32 else 0)
  let out := out.push (s!"{path} function name={infoName c kind off} deprecated={b2s (isDeprecated c kind off)} "
    ++ s!"symbol={cstr c.t (fb "symbol")} flags={flags}")
  let out :=
    if fb "getter" != 0 || fb "setter" != 0 then
      match cont.propertyOffset c (fb "index") with
      | some p => out.push s!"{path} accessor_of={infoName c (K "GI_INFO_TYPE_PROPERTY") p}"
      | none => out.push s!"{path} accessor_of=(null)"
    else out
  let out := dumpAttrsKey c path "attr" off out
  dumpCallable c path kind off out

/-- gifieldinfo.c -/
def dumpField (c : Ctx) (path : String) (off : Nat) (out : Out) : Out :=
  let fb (m : String) := getF c.t off (fld "FieldBlob" m)
  let flags := (if fb "readable" != 0 then 1 else 0) + (if fb "writable" != 0 then 2 else 0)
  let out := out.push s!"{path} field name={cstr c.t (fb "name")} flags={flags} size={fb "bits"} offset={fb "struct_offset"}"
  let out := dumpAttrsKey c path "attr" off out
  if fb "has_embedded_type" != 0 then
    -- g_field_info_get_type: GITypeInfo at `offset + field_blob_size`, type_is_embedded = TRUE
    let e := off + c.S.field
    let w := u32 c.t e
    -- g_type_info_get_tag: GI_TYPE_TAG_INTERFACE; g_type_info_is_pointer reads the blob as a SimpleTypeBlob
    let ptr := if typeIsSimple w then simplePointer w else getF c.t e (fld "InterfaceTypeBlob" "pointer")
    let out := out.push s!"{path}.t type tag={TAG "GI_TYPE_TAG_INTERFACE"} pointer={ptr}"
    -- g_type_info_get_interface: switch (common->blob_type) case BLOB_TYPE_CALLBACK
    let bt := getF c.t e (fld "CommonBlob" "blob_type")
    if bt == enumVal "GTypelibBlobType" "BLOB_TYPE_CALLBACK" then
      let kind := K "GI_INFO_TYPE_CALLBACK"
      let out := out.push s!"{path}.t iface={c.ns}.{infoName c kind e} ikind={kind} embedded=1"
      let p := s!"{path}.t.cb"
      let out := out.push s!"{p} callback name={infoName c kind e} deprecated={b2s (isDeprecated c kind e)}"
      let out := dumpAttrsKey c p "attr" e out
      dumpCallable c p kind e out
    else out.push s!"{path}.t embedded-blob-is-not-a-callback"
  else
    dumpType c typeFuel s!"{path}.t" (off + nestedOff "FieldBlob" "type") out

/-- giconstantinfo.c -/
def dumpConstant (c : Ctx) (path : String) (off : Nat) (out : Out) : Out :=
  let kind := K "GI_INFO_TYPE_CONSTANT"
  let cb (m : String) := getF c.t off (fld "ConstantBlob" m)
  -- g_constant_info_get_type: `rinfo->offset + 8`
  let toff := off + 8
  let w := u32 c.t toff
  let o := typeInfoOffset toff w
  let w' := u32 c.t o
  let tag := if typeIsSimple w' then simpleTag w' else getF c.t o (fld "InterfaceTypeBlob" "tag")
  let d := cb "offset"
  -- g_constant_info_get_value: only for simple types
  let simple := typeIsSimple w
  let isPtr := simple && simplePointer w != 0
  let vtag := simpleTag w
  let value : String :=
    if !simple then
      (if tag == TAG "GI_TYPE_TAG_UTF8" || tag == TAG "GI_TYPE_TAG_FILENAME" then "(null)"
       else if tag == TAG "GI_TYPE_TAG_FLOAT" then "f32:0" else if tag == TAG "GI_TYPE_TAG_DOUBLE" then "f64:0"
       else if tag ≤ TAG "GI_TYPE_TAG_UINT64" && tag ≥ TAG "GI_TYPE_TAG_BOOLEAN" then "0" else "?")
    else if isPtr then
      (if tag == TAG "GI_TYPE_TAG_UTF8" || tag == TAG "GI_TYPE_TAG_FILENAME" then cstr c.t d else "?")
    else if vtag == TAG "GI_TYPE_TAG_BOOLEAN" then n2b (leN c.t d 4)
    else if vtag == TAG "GI_TYPE_TAG_INT8" then toString (toSigned 8 (leN c.t d 1))
    else if vtag == TAG "GI_TYPE_TAG_UINT8" then toString (leN c.t d 1)
    else if vtag == TAG "GI_TYPE_TAG_INT16" then toString (toSigned 16 (leN c.t d 2))
    else if vtag == TAG "GI_TYPE_TAG_UINT16" then toString (leN c.t d 2)
    else if vtag == TAG "GI_TYPE_TAG_INT32" then toString (toSigned 32 (leN c.t d 4))
    else if vtag == TAG "GI_TYPE_TAG_UINT32" then toString (leN c.t d 4)
    else if vtag == TAG "GI_TYPE_TAG_INT64" then toString (toSigned 64 (leN c.t d 8))
    else if vtag == TAG "GI_TYPE_TAG_UINT64" then toString (leN c.t d 8)
    else if vtag == TAG "GI_TYPE_TAG_FLOAT" then s!"f32:{leN c.t d 4}"
    else if vtag == TAG "GI_TYPE_TAG_DOUBLE" then s!"f64:{leN c.t d 8}"
    else "?"
  let out := out.push (s!"{path} constant name={infoName c kind off} deprecated={b2s (isDeprecated c kind off)} "
    ++ s!"size={cb "size"} value={value}")
  let out := dumpAttrsKey c path "attr" off out
  dumpType c typeFuel s!"{path}.t" toff out

/-- gipropertyinfo.c -/
def dumpProperty (c : Ctx) (path : String) (cont : Container) (off : Nat) (out : Out) : Out :=
  let kind := K "GI_INFO_TYPE_PROPERTY"
  let pb (m : String) := getF c.t off (fld "PropertyBlob" m)
  let flags := (if pb "readable" != 0 then 1 else 0) + (if pb "writable" != 0 then 2 else 0)
    + (if pb "construct" != 0 then 4 else 0) + (if pb "construct_only" != 0 then 8 else 0)
  let sentinel := pow2 (fld "PropertyBlob" "setter").2 - 1           -- ACCESSOR_SENTINEL 0x3ff
  let fname (o : Option Nat) : String := match o with
    | some m => infoName c (K "GI_INFO_TYPE_FUNCTION") m
    | none => "(null)"
  let setter :=
    if pb "writable" == 0 || pb "construct_only" != 0 then "(null)"
    else if pb "setter" == sentinel then "(null)" else fname (cont.methodOffset c (pb "setter"))
  let getter :=
    if pb "readable" == 0 then "(null)"
    else if pb "getter" == sentinel then "(null)" else fname (cont.methodOffset c (pb "getter"))
  let out := out.push (s!"{path} property name={cstr c.t (pb "name")} deprecated={b2s (isDeprecated c kind off)} flags={flags} "
    ++ s!"transfer={transfer (pb "transfer_ownership") (pb "transfer_container_ownership")} setter={setter} getter={getter}")
  let out := dumpAttrsKey c path "attr" off out
  dumpType c typeFuel s!"{path}.t" (off + nestedOff "PropertyBlob" "type") out

/-- gisignalinfo.c -/
def dumpSignal (c : Ctx) (path : String) (off : Nat) (out : Out) : Out :=
  let kind := K "GI_INFO_TYPE_SIGNAL"
  let sb (m : String) := getF c.t off (fld "SignalBlob" m)
  let flags := (if sb "run_first" != 0 then 1 else 0) + (if sb "run_last" != 0 then 2 else 0)
    + (if sb "run_cleanup" != 0 then 4 else 0) + (if sb "no_recurse" != 0 then 8 else 0)
    + (if sb "detailed" != 0 then 16 else 0) + (if sb "action" != 0 then 32 else 0) + (if sb "no_hooks" != 0 then 64 else 0)
  let cc := if sb "has_class_closure" != 0 then "(unmodelled)" else "(null)"
  let out := out.push (s!"{path} signal name={cstr c.t (sb "name")} deprecated={b2s (isDeprecated c kind off)} flags={flags} "
    ++ s!"true_stops_emit={n2b (sb "true_stops_emit")} class_closure={cc}")
  let out := dumpAttrsKey c path "attr" off out
  dumpCallable c path kind off out

/-- givfuncinfo.c -/
def dumpVfunc (c : Ctx) (path : String) (cont : Container) (off : Nat) (out : Out) : Out :=
  let kind := K "GI_INFO_TYPE_VFUNC"
  let vb (m : String) := getF c.t off (fld "VFuncBlob" m)
  let flags := (if vb "must_chain_up" != 0 then 1 else 0) + (if vb "must_be_implemented" != 0 then 2 else 0)
    + (if vb "must_not_be_implemented" != 0 then 4 else 0) + (if vb "throws" != 0 then 8 else 0)
  -- g_vfunc_info_get_invoker: 1023 = no invoker
  let invoker :=
    if vb "invoker" == 1023 then "(null)"
    else match cont.methodOffset c (vb "invoker") with
      | some m => infoName c (K "GI_INFO_TYPE_FUNCTION") m
      | none => "(unmodelled)"
  let sig := if vb "class_closure" != 0 then "(unmodelled)" else "(null)"
  let out := out.push (s!"{path} vfunc name={cstr c.t (vb "name")} deprecated={b2s (isDeprecated c kind off)} flags={flags} "
    ++ s!"offset={vb "struct_offset"} invoker={invoker} signal={sig}")
  let out := dumpAttrsKey c path "attr" off out
  dumpCallable c path kind off out

/-- the linear scans `_g_base_info_find_method`, `find_signal`, `_g_base_info_find_vfunc`,
    `g_struct_info_find_field`: index of the first member with that name -/
def findIndex (names : List String) (name : String) : Int :=
  match names.findIdx? (· == name) with
  | some i => (i : Int)
  | none => -1

def registeredName (c : Ctx) (off : Nat) : String := optStr c.t (getF c.t off (fld "RegisteredTypeBlob" "gtype_name"))
def registeredInit (c : Ctx) (off : Nat) : String := optStr c.t (getF c.t off (fld "RegisteredTypeBlob" "gtype_init"))

/-- members `j < n` of one section, with their path suffix; `after` adds the find line -/
def forMembers (n : Nat) (out : Out) (f : Nat → Out → Out) : Out :=
  (List.range n).foldl (fun o j => f j o) out

/-- g_struct_info_get_copy_function / g_struct_info_get_free_function:
    `g_return_val_if_fail (GI_IS_STRUCT_INFO (info), NULL)`, where GI_IS_STRUCT_INFO admits
    GI_INFO_TYPE_STRUCT and GI_INFO_TYPE_BOXED (gistructinfo.h, pinned by `Gen.isStructInfoKinds`);
    then `blob->x ? g_typelib_get_string (...) : NULL`. -/
def structFuncName (c : Ctx) (kind strOff : Nat) : String :=
  if Gen.isStructInfoKinds.any (fun l => enumVal "GIInfoType" l == kind) then optStr c.t strOff else "(null)"

/-- gistructinfo.c (`kind`: GI_INFO_TYPE_STRUCT or GI_INFO_TYPE_BOXED, both are StructBlobs) -/
def dumpStruct (c : Ctx) (path : String) (kind off : Nat) (out : Out) : Out :=
  let sb (m : String) := getF c.t off (fld "StructBlob" m)
  let nf := sb "n_fields"
  let nm := sb "n_methods"
  let out := out.push (s!"{path} struct n_fields={nf} n_methods={nm} size={sb "size"} alignment={sb "alignment"} "
    ++ s!"foreign={n2b (sb "foreign")} gtype_struct={n2b (sb "is_gtype_struct")} type_name={registeredName c off} "
    ++ s!"type_init={registeredInit c off} copy={structFuncName c kind (sb "copy_func")} free={structFuncName c kind (sb "free_func")}")
  let out := dumpAttrsKey c path "attr" off out
  let fOff (j : Nat) := structFieldOffset c.S (hasEmbAt c) off j
  let fNames := (List.range nf).map (fun j => infoName c (K "GI_INFO_TYPE_FIELD") (fOff j))
  let out := forMembers nf out (fun j o =>
    let o := dumpField c s!"{path}.f{j}" (fOff j) o
    o.push s!"{path}.f{j} find={findIndex fNames (fNames.getD j "")}")
  let mOff (j : Nat) := structMethodOffset c.S (hasEmbAt c) off nf j
  let mNames := (List.range nm).map (fun j => infoName c (K "GI_INFO_TYPE_FUNCTION") (mOff j))
  forMembers nm out (fun j o =>
    let o := dumpFunction c s!"{path}.m{j}" .other (mOff j) o
    o.push s!"{path}.m{j} find={findIndex mNames (mNames.getD j "")}")

/-- giunioninfo.c -/
def dumpUnion (c : Ctx) (path : String) (off : Nat) (out : Out) : Out :=
  let ub (m : String) := getF c.t off (fld "UnionBlob" m)
  let nf := ub "n_fields"
  let nm := ub "n_functions"
  let out := out.push (s!"{path} union n_fields={nf} n_methods={nm} discriminated={n2b (ub "discriminated")} size={ub "size"} "
    ++ s!"alignment={ub "alignment"} type_name={registeredName c off} type_init={registeredInit c off} "
    ++ s!"copy={optStr c.t (ub "copy_func")} free={optStr c.t (ub "free_func")}")
  let out := dumpAttrsKey c path "attr" off out
  let out := forMembers nf out (fun j o => dumpField c s!"{path}.f{j}" (unionFieldOffset c.S off j) o)
  let mOff (j : Nat) := unionMethodOffset c.S off nf j
  let mNames := (List.range nm).map (fun j => infoName c (K "GI_INFO_TYPE_FUNCTION") (mOff j))
  forMembers nm out (fun j o =>
    let o := dumpFunction c s!"{path}.m{j}" .other (mOff j) o
    o.push s!"{path}.m{j} find={findIndex mNames (mNames.getD j "")}")

/-- gienuminfo.c -/
def dumpEnum (c : Ctx) (path : String) (off : Nat) (out : Out) : Out :=
  let eb (m : String) := getF c.t off (fld "EnumBlob" m)
  let nv := eb "n_values"
  let nm := eb "n_methods"
  let out := out.push (s!"{path} enum n_values={nv} n_methods={nm} storage={eb "storage_type"} "
    ++ s!"error_domain={optStr c.t (eb "error_domain")} type_name={registeredName c off} type_init={registeredInit c off}")
  let out := dumpAttrsKey c path "attr" off out
  let out := forMembers nv out (fun j o =>
    let v := enumValueOffset c.S off j
    let kind := K "GI_INFO_TYPE_VALUE"
    let raw := getF c.t v (fld "ValueBlob" "value")
    -- g_value_info_get_value
    let value : Int := if getF c.t v (fld "ValueBlob" "unsigned_value") != 0 then (raw : Int) else toSigned 32 raw
    let o := o.push s!"{path}.v{j} value name={infoName c kind v} deprecated={b2s (isDeprecated c kind v)} value={value}"
    dumpAttrsKey c s!"{path}.v{j}" "attr" v o)
  forMembers nm out (fun j o => dumpFunction c s!"{path}.m{j}" .other (enumMethodOffset c.S off nv j) o)

def objCounts (c : Ctx) (off : Nat) : ObjCounts :=
  let ob (m : String) := getF c.t off (fld "ObjectBlob" m)
  { nInterfaces := ob "n_interfaces", nFields := ob "n_fields", nFieldCallbacks := ob "n_field_callbacks",
    nProperties := ob "n_properties", nMethods := ob "n_methods", nSignals := ob "n_signals",
    nVfuncs := ob "n_vfuncs", nConstants := ob "n_constants" }

/-- giobjectinfo.c -/
def dumpObject (c : Ctx) (path : String) (off : Nat) (out : Out) : Out :=
  let ob (m : String) := getF c.t off (fld "ObjectBlob" m)
  let cnt := objCounts c off
  let cont := Container.object off cnt
  let out := out.push (s!"{path} object abstract={n2b (ob "abstract")} final={n2b (ob "final_")} fundamental={n2b (ob "fundamental")} "
    ++ s!"type_name={cstr c.t (ob "gtype_name")} type_init={cstr c.t (ob "gtype_init")} parent={optEntryName c (ob "parent")} "
    ++ s!"class_struct={optEntryName c (ob "gtype_struct")} ref={optStr c.t (ob "ref_func")} unref={optStr c.t (ob "unref_func")} "
    ++ s!"set_value={optStr c.t (ob "set_value_func")} get_value={optStr c.t (ob "get_value_func")}")
  let out := out.push (s!"{path} counts n_interfaces={cnt.nInterfaces} n_fields={cnt.nFields} n_properties={cnt.nProperties} "
    ++ s!"n_methods={cnt.nMethods} n_signals={cnt.nSignals} n_vfuncs={cnt.nVfuncs} n_constants={cnt.nConstants}")
  let out := dumpAttrsKey c path "attr" off out
  let out := forMembers cnt.nInterfaces out (fun j o =>
    o.push s!"{path} implements.{j}={(fromEntry c (u16 c.t (objectInterfaceSlot off j))).1}")
  let out := forMembers cnt.nFields out (fun j o =>
    dumpField c s!"{path}.f{j}" (objectFieldOffset c.S (hasEmbAt c) off cnt j) o)
  let out := forMembers cnt.nProperties out (fun j o =>
    dumpProperty c s!"{path}.p{j}" cont (objectPropertyOffset c.S off cnt j) o)
  let mNames := (List.range cnt.nMethods).map (fun j => infoName c (K "GI_INFO_TYPE_FUNCTION") (objectMethodOffset c.S off cnt j))
  let out := forMembers cnt.nMethods out (fun j o =>
    let o := dumpFunction c s!"{path}.m{j}" cont (objectMethodOffset c.S off cnt j) o
    o.push s!"{path}.m{j} find={findIndex mNames (mNames.getD j "")}")
  let sNames := (List.range cnt.nSignals).map (fun j => infoName c (K "GI_INFO_TYPE_SIGNAL") (objectSignalOffset c.S off cnt j))
  let out := forMembers cnt.nSignals out (fun j o =>
    let o := dumpSignal c s!"{path}.s{j}" (objectSignalOffset c.S off cnt j) o
    o.push s!"{path}.s{j} find={findIndex sNames (sNames.getD j "")}")
  let vNames := (List.range cnt.nVfuncs).map (fun j => infoName c (K "GI_INFO_TYPE_VFUNC") (objectVfuncOffset c.S off cnt j))
  let out := forMembers cnt.nVfuncs out (fun j o =>
    let o := dumpVfunc c s!"{path}.v{j}" cont (objectVfuncOffset c.S off cnt j) o
    o.push s!"{path}.v{j} find={findIndex vNames (vNames.getD j "")}")
  forMembers cnt.nConstants out (fun j o =>
    dumpConstant c s!"{path}.c{j}" (objectConstantOffset c.S off cnt j) o)

def ifaceCounts (c : Ctx) (off : Nat) : IfaceCounts :=
  let ib (m : String) := getF c.t off (fld "InterfaceBlob" m)
  { nPrerequisites := ib "n_prerequisites", nProperties := ib "n_properties", nMethods := ib "n_methods",
    nSignals := ib "n_signals", nVfuncs := ib "n_vfuncs", nConstants := ib "n_constants" }

/-- giinterfaceinfo.c -/
def dumpInterface (c : Ctx) (path : String) (off : Nat) (out : Out) : Out :=
  let ib (m : String) := getF c.t off (fld "InterfaceBlob" m)
  let cnt := ifaceCounts c off
  let cont := Container.iface off cnt
  let out := out.push (s!"{path} interface type_name={registeredName c off} type_init={registeredInit c off} "
    ++ s!"iface_struct={optEntryName c (ib "gtype_struct")}")
  let out := out.push (s!"{path} counts n_prerequisites={cnt.nPrerequisites} n_properties={cnt.nProperties} "
    ++ s!"n_methods={cnt.nMethods} n_signals={cnt.nSignals} n_vfuncs={cnt.nVfuncs} n_constants={cnt.nConstants}")
  let out := dumpAttrsKey c path "attr" off out
  let out := forMembers cnt.nPrerequisites out (fun j o =>
    o.push s!"{path} prerequisite.{j}={(fromEntry c (u16 c.t (ifacePrerequisiteSlot off j))).1}")
  let out := forMembers cnt.nProperties out (fun j o =>
    dumpProperty c s!"{path}.p{j}" cont (ifacePropertyOffset c.S off cnt j) o)
  let mNames := (List.range cnt.nMethods).map (fun j => infoName c (K "GI_INFO_TYPE_FUNCTION") (ifaceMethodOffset c.S off cnt j))
  let out := forMembers cnt.nMethods out (fun j o =>
    let o := dumpFunction c s!"{path}.m{j}" cont (ifaceMethodOffset c.S off cnt j) o
    o.push s!"{path}.m{j} find={findIndex mNames (mNames.getD j "")}")
  let sNames := (List.range cnt.nSignals).map (fun j => infoName c (K "GI_INFO_TYPE_SIGNAL") (ifaceSignalOffset c.S off cnt j))
  let out := forMembers cnt.nSignals out (fun j o =>
    let o := dumpSignal c s!"{path}.s{j}" (ifaceSignalOffset c.S off cnt j) o
    o.push s!"{path}.s{j} find={findIndex sNames (sNames.getD j "")}")
  let vNames := (List.range cnt.nVfuncs).map (fun j => infoName c (K "GI_INFO_TYPE_VFUNC") (ifaceVfuncOffset c.S off cnt j))
  let out := forMembers cnt.nVfuncs out (fun j o =>
    let o := dumpVfunc c s!"{path}.v{j}" cont (ifaceVfuncOffset c.S off cnt j) o
    o.push s!"{path}.v{j} find={findIndex vNames (vNames.getD j "")}")
  forMembers cnt.nConstants out (fun j o =>
    dumpConstant c s!"{path}.c{j}" (ifaceConstantOffset c.S off cnt j) o)

/-- g_irepository_get_n_infos / g_irepository_get_info and the per-kind dump of the walker's main() -/
def dumpTypelib (t : Bytes) : Out :=
  let c := mkCtx t
  let out : Out := #[]
  let out := out.push (s!"ns name={c.ns} n_infos={c.nLocal} version={cstr t (hdr t "nsversion")} "
    ++ s!"shared_library={optStr t (hdr t "shared_library")} c_prefix={optStr t (hdr t "c_prefix")}")
  let entry (i : Nat) : Nat × Nat :=
    let e := dirEntryOffset c.S c.directory (i + 1)
    (getF t e (fld "DirEntry" "blob_type"), getF t e (fld "DirEntry" "offset"))
  let names := (List.range c.nLocal).map (fun i => infoName c (entry i).1 (entry i).2)
  forMembers c.nLocal out (fun i o =>
    let (kind, off) := entry i
    let path := s!"e{i}"
    let o := o.push s!"{path} entry kind={kind} name={infoName c kind off} deprecated={b2s (isDeprecated c kind off)}"
    -- g_irepository_find_by_name: the first directory entry with that name must be this one
    let o := o.push s!"{path} find_by_name={if findIndex names (names.getD i "") == (i : Int) then 1 else 0}"
    if kind == K "GI_INFO_TYPE_FUNCTION" then dumpFunction c path .other off o
    else if kind == K "GI_INFO_TYPE_CALLBACK" then
      dumpCallable c path kind off (dumpAttrsKey c path "attr" off o)
    else if kind == K "GI_INFO_TYPE_STRUCT" || kind == K "GI_INFO_TYPE_BOXED" then dumpStruct c path kind off o
    else if kind == K "GI_INFO_TYPE_UNION" then dumpUnion c path off o
    else if kind == K "GI_INFO_TYPE_ENUM" || kind == K "GI_INFO_TYPE_FLAGS" then dumpEnum c path off o
    else if kind == K "GI_INFO_TYPE_OBJECT" then dumpObject c path off o
    else if kind == K "GI_INFO_TYPE_INTERFACE" then dumpInterface c path off o
    else if kind == K "GI_INFO_TYPE_CONSTANT" then dumpConstant c path off o
    else o.push s!"{path} unknown-kind")

/-! ### per-typelib checks of the theorems' hypotheses (reported to the harness) -/

def allBelow (n : Nat) (p : Nat → Bool) : Bool := (List.range n).all p

/-- the embedded flags of the `n` fields found by walking from `start` -/
def embeddedFlags (c : Ctx) : Nat → Nat → List Bool
  | 0, _ => []
  | n + 1, off =>
    let b := hasEmbAt c off
    b :: embeddedFlags c n (off + c.S.field + (if b then c.S.callback else 0))

structure Hyps where
  sizesMatchTable : Bool
  attrsSorted : Bool
  unionFieldsPlain : Bool
  fieldCallbacksCounted : Bool
  blobsAligned : Bool
  noDiscriminatedUnion : Bool
  nBoxed : Nat
  deprecatedUnions : Nat
  nObjects : Nat
  nOddInterfaceObjects : Nat
  nEmbeddedFields : Nat
  nAttributes : Nat

def checkHyps (t : Bytes) : Hyps :=
  let c := mkCtx t
  let entry (i : Nat) : Nat × Nat :=
    let e := dirEntryOffset c.S c.directory (i + 1)
    (getF t e (fld "DirEntry" "blob_type"), getF t e (fld "DirEntry" "offset"))
  let es := (List.range c.nLocal).map entry
  let unions := es.filter (fun e => e.1 == K "GI_INFO_TYPE_UNION")
  let objects := es.filter (fun e => e.1 == K "GI_INFO_TYPE_OBJECT")
  let structs := es.filter (fun e => e.1 == K "GI_INFO_TYPE_STRUCT" || e.1 == K "GI_INFO_TYPE_BOXED")
  let objFlags (e : Nat × Nat) : List Bool :=
    let cnt := objCounts c e.2
    embeddedFlags c cnt.nFields (e.2 + c.S.object + ifacePad cnt.nInterfaces)
  { sizesMatchTable := decide (c.S = tableSizes)
    attrsSorted := allBelow (c.nAttrs - 1) (fun i => attrKey c i ≤ attrKey c (i + 1))
    unionFieldsPlain := unions.all (fun e =>
      allBelow (getF t e.2 (fld "UnionBlob" "n_fields")) (fun j => !hasEmbAt c (unionFieldOffset c.S e.2 j)))
    fieldCallbacksCounted := objects.all (fun e => (objFlags e).count true == (objCounts c e.2).nFieldCallbacks)
    blobsAligned := es.all (fun e => e.2 % 4 == 0)
    noDiscriminatedUnion := unions.all (fun e => getF t e.2 (fld "UnionBlob" "discriminated") == 0)
    nBoxed := (es.filter (fun e => e.1 == K "GI_INFO_TYPE_BOXED")).length
    deprecatedUnions := (unions.filter (fun e => getF t e.2 (fld "UnionBlob" "deprecated") != 0)).length
    nObjects := objects.length
    nOddInterfaceObjects := (objects.filter (fun e => (objCounts c e.2).nInterfaces % 2 == 1)).length
    nEmbeddedFields := (objects.map (fun e => (objFlags e).count true)).sum
      + (structs.map (fun e => (embeddedFlags c (getF t e.2 (fld "StructBlob" "n_fields")) (e.2 + c.S.struct_)).count true)).sum
    nAttributes := c.nAttrs }

end GIVerif.InfoAccess
