/-
  Python `str` semantics used by the models, on `List Char`.
  No Mathlib imports: this file is linked into the compiled driver.

  Tables that depend on the CPython build (which code points are whitespace,
  which are line boundaries) are NOT written here: they are generated on every
  run by translators/gen_pyclasses.py into GIVerif/Gen/PyClasses.lean.
-/
import GIVerif.Gen.PyClasses

namespace GIVerif.Py

abbrev Str := List Char

/-- `str.isspace()` for one character; table generated from running CPython. -/
def isSpace (c : Char) : Bool := Gen.pyWhitespace.contains c.toNat

/-- Characters at which `str.splitlines()` breaks (`\r\n` handled in `splitLines`). -/
def isLineBreak (c : Char) : Bool := Gen.pyLineBreaks.contains c.toNat

/-- Generic "split on runs of separator characters, dropping empty fields":
    `str.split()` with no argument when `sep = isSpace`. -/
def splitOnRuns (sep : Char → Bool) : Str → Str → List Str
  | [], [] => []
  | [], acc => [acc.reverse]
  | c :: cs, acc =>
    if sep c then
      (if acc.isEmpty then splitOnRuns sep cs [] else acc.reverse :: splitOnRuns sep cs [])
    else splitOnRuns sep cs (c :: acc)

/-- `s.split()` -/
def splitWs (s : Str) : List Str := splitOnRuns isSpace s []

/-- `s.splitlines()` (keepends = False). -/
def splitLinesAux : Str → Str → List Str
  | [], [] => []
  | [], acc => [acc.reverse]
  | '\r' :: '\n' :: cs, acc => acc.reverse :: splitLinesAux cs []
  | c :: cs, acc =>
    if isLineBreak c then acc.reverse :: splitLinesAux cs []
    else splitLinesAux cs (c :: acc)

def splitLines (s : Str) : List Str := splitLinesAux s []

/-- `s.endswith(t)` -/
def endsWith (s t : Str) : Bool := t.reverse.isPrefixOf s.reverse

/-- `s.startswith(t)` -/
def startsWith (s t : Str) : Bool := t.isPrefixOf s

/-- `posixpath.basename(p)`: everything after the last `/`. -/
def basename (s : Str) : Str := (s.reverse.takeWhile (· ≠ '/')).reverse

/-- `sep.join(parts)` -/
def join (sep : Str) : List Str → Str
  | [] => []
  | [x] => x
  | x :: xs => x ++ sep ++ join sep xs

/-- Split on every occurrence of a single separator character, keeping empty
    fields: `s.split(c)`. -/
def splitChar (sep : Char) : Str → Str → List Str
  | [], acc => [acc.reverse]
  | c :: cs, acc => if c = sep then acc.reverse :: splitChar sep cs [] else splitChar sep cs (c :: acc)

def isAsciiUpper (c : Char) : Bool := 'A' ≤ c && c ≤ 'Z'
def isAsciiLower (c : Char) : Bool := 'a' ≤ c && c ≤ 'z'
def isAsciiDigit (c : Char) : Bool := '0' ≤ c && c ≤ '9'
def isAsciiAlnum (c : Char) : Bool := isAsciiUpper c || isAsciiLower c || isAsciiDigit c

end GIVerif.Py
