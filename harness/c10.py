"""C10 — Well-formed GTK-Doc comment blocks are parsed exactly.

Proof: lean/GIVerif/Props/C10.lean over lean/GIVerif/Model/AnnParse/*.lean: round trip of the
annotation tokenizer against the project's own writer, continuation over several lines
(all well-formed annotation lists); line-ending and asterisk/indentation independence; and, for
the block grammar fragment of Spec/BlockGrammar.lean, parse(render L b) = b for every layout L,
layout independence and parse(write(parse s)) = parse s over the model of the block state
machine (`parseBlock`) and of the writer (`writeBlock`).
Tie: translators gen_pyclasses/gen_annvocab/gen_anncase (vocabulary, regex shapes, CPython
tables, literals) + correspondence of (1) the tokenizer / option parsers / annotation writer,
(2) every line matcher and (3) the whole block parser and block writer (block tree with '' vs
None, positions, indentation; every diagnostic; written text) with the real code.
Independently of the model, oracles written from the statement run on the real
GtkDocCommentBlockParser / GtkDocCommentBlockWriter for the FULL grammar: every layout of every
generated block model parses to exactly the model, all layouts agree,
parse(write(parse(s))) == parse(s).
"""
import json
import os
import re

from core import Counter
import anncommon as ac

HERE = os.path.dirname(os.path.dirname(os.path.abspath(__file__)))


def load_corpus():
    out = []
    cpath = os.path.join(HERE, 'corpus', 'C10')
    if os.path.isdir(cpath):
        for fn in sorted(os.listdir(cpath)):
            if fn.endswith('.json'):
                with open(os.path.join(cpath, fn)) as f:
                    out.extend(json.load(f))
    return out


# ---------------------------------------------------------------- statement oracles (real code)
def comment_token(written):
    """The writer emits source LINES (each ended by a newline); the parser takes the comment
    TOKEN as the C lexer delivers it, which ends with the closing `*/`, not with the line
    break after it.  Dropping that final line break is all that happens between the two."""
    return written[:-1] if written.endswith('\n') else written


def check_model(ctx, impl, cnt, m, layouts):
    """the real parser must recover exactly the model from every layout, all layouts must
    agree, and writing + re-parsing must give the same block"""
    exp = ac.expected_block(m)
    results = []
    for lay in layouts:
        text = ac.render_block(m, lay)
        b, ind, recs, exc = ac.parse_real(impl, text)
        cnt.hit('block:layout')
        if exc is not None:
            ctx.report_failure('raise:' + json.dumps(text), 'parse_comment_block raised %r on a well-formed block:\n%s'
                               % (exc, text), {'kind': 'model', 'model': m, 'layout': lay, 'text': text})
            return 'raised'
        for r in recs:
            k = ac.kind_of(r['text'])
            cnt.hit('block:diag:' + ('validate' if k in ac.VALIDATE_KINDS else k))
        if b != exp:
            diff = [k for k in exp if b is None or b.get(k) != exp[k]]
            ctx.report_failure('model:' + json.dumps([m, lay], sort_keys=True),
                               'the parser does not recover the block model from this layout (differs in %s): got %r, '
                               'required %r, text:\n%s' % (diff, b, exp, text),
                               {'kind': 'model', 'model': m, 'layout': lay, 'text': text, 'got': b, 'required': exp})
            return 'mismatch'
        results.append((text, b))
        # the writer: parse(write(parse(s))) == parse(s)
        blk = impl.parser.parse_comment_block(text, 'f.c', 1)
        impl.take()
        try:
            written = comment_token(impl.writer.write(blk))
            b2, _i, _r, exc2 = ac.parse_real(impl, written)
        except Exception as e:  # noqa
            written, b2, exc2 = None, None, e
        cnt.hit('block:write-parse')
        if exc2 is not None or b2 != b:
            ctx.report_failure('write:' + json.dumps(text),
                               'parse(write(parse(s))) differs from parse(s): written=%r reparsed=%r (exception %r), '
                               'parsed=%r' % (written, b2, exc2, b),
                               {'kind': 'text', 'text': text, 'written': written, 'reparsed': b2, 'parsed': b})
            return 'write-mismatch'
    if any(r[1] != results[0][1] for r in results):
        ctx.report_failure('layouts:' + json.dumps(m, sort_keys=True), 'layouts of one model parse differently',
                           {'kind': 'model', 'model': m, 'layouts': layouts})
        return 'layouts-differ'
    return 'ok'


_AMBIG_VERSION = re.compile(r'^\s*[0-9.:]')
_AMBIG_STABILITY = re.compile(r'^\s*(stable|unstable|private|internal|:)', re.I)


def ambiguous_value(b):
    """A value-carrying tag WITHOUT value whose description starts like a value (it stood on a
    continuation line) has no rendering of its own: on one line it reads as the block with
    that value.  Such a parse result is not the model of any documented layout."""
    for name, _anns, value, desc in b['tags']:
        if value is None and desc:
            if name in ('since', 'deprecated') and _AMBIG_VERSION.match(desc):
                return True
            if name == 'stability' and _AMBIG_STABILITY.match(desc):
                return True
    return False


def nameless_annotation(b):
    """parentheses holding only white space are read as an annotation whose name is the empty string (and
    reported as "unknown annotation: "); the grammar has no annotation without a name, so such a block is
    outside the quantifier of the write/parse clause (the writer's `()` is rejected by the tokenizer)"""
    parts = [b['annotations']] + [p[1] for p in b['params']] + [t[1] for t in b['tags']]
    return any(a[0] == '' for anns in parts for a in anns)


def check_text_fixpoint(ctx, impl, cnt, text, origin):
    """for arbitrary repo-provided comment text: no exception, and the writer round trip"""
    b, ind, recs, exc = ac.parse_real(impl, text)
    if exc is not None:
        ctx.report_failure('raise:' + json.dumps(text), 'parse_comment_block raised %r on %s' % (exc, origin),
                           {'kind': 'text', 'text': text})
        return 'raised'
    if b is None:
        return 'not-a-block'
    bad = [r for r in recs if ac.kind_of(r['text']) not in ac.VALIDATE_KINDS]
    if bad:
        return 'outside'        # input not in the current grammar (the parser said so)
    if ambiguous_value(b) or nameless_annotation(b):
        return 'outside'
    blk = impl.parser.parse_comment_block(text, 'f.c', 1)
    impl.take()
    written = comment_token(impl.writer.write(blk))
    b2, _i, _r, exc2 = ac.parse_real(impl, written)
    if exc2 is not None or b2 != b:
        ctx.report_failure('write:' + json.dumps(text),
                           'parse(write(parse(s))) differs from parse(s) for %s: written=%r reparsed=%r parsed=%r'
                           % (origin, written, b2, b), {'kind': 'text', 'text': text, 'written': written})
        return 'write-mismatch'
    return 'ok'


def run(ctx):
    cnt = Counter()
    ac.install_pending(ctx)
    ctx.prove(['gen_pyclasses', 'gen_annvocab', 'gen_anncase'], ['GIVerif.Props.C10'], 'GIVerif.Props.C10')
    ctx.log('proofs checked')
    impl = ac.Impl()
    voc = ac.vocab(impl.ap)
    rng = ctx.rng
    corpus = load_corpus()
    samples = []

    # ---- layer 1: tokenizer / option parsers / writer, model vs real
    l1 = [c['case'] for c in corpus if c.get('kind') == 'field']
    while len(l1) < ctx.n(4000, 120000):
        l1.append(ac.gen_l1_case(rng, voc, malformed=0.1))
    ser = [c['anns'] for c in corpus if c.get('kind') == 'serialize']
    while len(ser) < ctx.n(1500, 40000):
        ser.append(ac.gen_wf_anns(rng, voc))
    nd1 = ac.check_layer1(ctx, impl, cnt, 'c10', l1, ser)
    samples.append({'layer': 1, 'case': l1[-1]})
    # round trip on the REAL code (the statement of C10_ann_roundtrip, checked on the implementation)
    rt = 0
    if not [b for b in ctx.broken if 'no longer exists' in b or 'has changed' in b]:
        for a in ser:
            text = impl.serialize(a)
            r = impl.parse_annotations(text + rng.choice(['', ': text', ':', ' x']), rng.randint(0, 4), None, True)
            rt += 1
            want = [[n, o] for n, o in a]
            if not r.get('ok') or r['anns'] != want or r['end'] != len(text) or r['diags']:
                ctx.report_failure('ann-roundtrip:' + json.dumps(a),
                                   'tokenizer does not read back what the writer emits: anns=%r text=%r result=%r'
                                   % (a, text, r), {'kind': 'anns', 'anns': a, 'text': text, 'result': r})
    cnt.hit('L1:roundtrip-on-impl', rt)
    ctx.log('layer 1 done')

    # ---- layer 2: line matchers vs CPython re with the repo's compiled patterns
    tests = ac.load_pattern_tests()
    cnt.hit('L2:test_patterns-inputs', len(tests))
    lcases = [(c['pattern'], c['line']) for c in corpus if c.get('kind') == 'line']
    lcases += list(tests)
    for n, t in tests:
        muts = sorted(ac.one_char_mutants(t))
        if ctx.quick():
            muts = rng.sample(muts, min(len(muts), 25))
        lcases.extend((n, x) for x in muts)
    for _ in range(ctx.n(1200, 30000)):
        l = ac.gen_line(rng)
        lcases.extend((n, l) for n in ac.PATTERN_NAMES)
    nd2, nl2 = ac.check_matchers(ctx, impl, cnt, 'c10', lcases)
    samples.append({'layer': 2, 'pattern': lcases[-1][0], 'line': lcases[-1][1]})
    ctx.log('layer 2 done')

    # ---- block level: statement oracles on the real parser and writer
    verdicts = Counter()
    nmodels = ctx.n(700, 25000)
    block_texts = []            # every text of the block level also goes through the block MODEL (layer 3)
    for c in corpus:
        if c.get('kind') == 'model':
            v = check_model(ctx, impl, cnt, c['model'], c['layouts'])
            verdicts.hit(v)
            block_texts.extend((ac.render_block(c['model'], lay), 1) for lay in c['layouts'])
    last = None
    for i in range(nmodels):
        m = ac.gen_block_model(rng, impl, voc)
        layouts = [ac.gen_layout(rng) for _ in range(3 if ctx.quick() or i >= 200 else 12)]
        block_texts.extend((ac.render_block(m, lay), rng.choice([1, 1, 12, 345])) for lay in layouts[:3])
        v = check_model(ctx, impl, cnt, m, layouts)
        verdicts.hit(v)
        cnt.case(['b', m], nontrivial=bool(m['params'] or m['tags'] or m['annotations'] or m['description']))
        last = (m, layouts[0])
    if last:
        samples.append({'layer': 'block', 'model': last[0], 'layout': last[1], 'text': ac.render_block(*last)})
    # comment blocks shipped with the repo's own parser tests
    xml = ac.load_xml_inputs()
    for x in xml:
        v = check_text_fixpoint(ctx, impl, cnt, x['input'], 'tests/scanner/annotationparser/%s' % x['file'])
        verdicts.hit('xml:' + v)
        cnt.case(['x', x['input']])
    for c in corpus:
        if c.get('kind') == 'text':
            verdicts.hit('corpus:' + check_text_fixpoint(ctx, impl, cnt, c['text'], 'corpus'))

    ctx.log('block-level oracles done')
    # ---- layer 3: the block state machine and the block writer, model vs real
    block_texts.extend((x['input'], 1) for x in xml)
    block_texts.extend((c['text'], c.get('lineno', 1)) for c in corpus if c.get('kind') == 'text')
    for t, ln in list(block_texts[:ctx.n(300, 5000)]):
        # the written form of a parsed block is an input of its own (what write->parse reads)
        w = ac.real_block_case(impl, t, ln).get('written')
        if isinstance(w, str):
            block_texts.append((comment_token(w), ln))
    nd3, nb3 = ac.check_blocks(ctx, impl, cnt, 'c10', block_texts)
    ctx.log('layer 3 done')

    dist = dict(cnt.counts)
    dist.update({'verdict:' + k: v for k, v in verdicts.counts.items()})
    ctx.coverage.update({
        'evaluations': len(l1) + len(ser) + nl2 + cnt.counts.get('block:layout', 0) + len(xml) + nb3,
        'distinct_nontrivial': cnt.n_distinct(),
        'rule': 'seeded generators. Layer 1: annotation fields built from the full annotation vocabulary, option lists '
                'and unknown names, then 0-3 grammar-aware mutations; non-trivial = contains a parenthesis. Layer 2: '
                'the inputs of tests/scanner/annotationparser/test_patterns.py, their one-character mutants and '
                'generated lines, every pattern on every line; non-trivial = non-blank line. Block level: block models '
                '(all identifier forms, parameters, multi-paragraph descriptions, tags with values) rendered in 3-12 '
                'layouts each (indentation before the asterisks, LF/CRLF/CR, annotations split over lines, optional '
                'identifier colon, blank line before tags, trailing white space); non-trivial = the model has '
                'annotations, parameters, tags or a description. Distinct by content hash.',
        'samples': samples,
        'distribution': dist,
        'corpus_cases': len(corpus),
        'xml_test_inputs': len(xml),
        'correspondence_disagreements': {'layer1': nd1, 'layer2': nd2, 'layer3': nd3},
        'layers': {'1 tokenizer/options/writer of annotations': 'modelled, proved (C10_ann_roundtrip incl. empty option '
                   'values, C10_ann_continuation), corresponded',
                   '2 line matchers': 'modelled, shape-pinned (C10_pattern_shapes), corresponded; C10_asterisk_strip, '
                   'C10_indent_lines',
                   '3 block state machine / layouts / block writer': 'modelled (parseBlock, writeBlock), corresponded on '
                   'every block-level text; proved for the grammar fragment of Spec/BlockGrammar.lean '
                   '(C10_line_endings, C10_parse_render_partial, C10_layout_indep_partial, C10_write_parse_partial; '
                   'former violations as C10_write_parse_regressions); the full grammar is validated on the real code '
                   'by the statement oracles'},
        'exhaustive': False,
    })
    ctx.assumptions.extend([
        'block-level statements (layout independence, parse/render, write/parse) are PROVED for the grammar fragment of '
        'Spec/BlockGrammar.lean (symbol identifier, parameters with one-line descriptions, one description paragraph, '
        'Returns:) and VALIDATED on the real parser for the full grammar (other identifier forms, multi-line '
        'descriptions, Since/Deprecated/Stability, continuation lines inside a block)',
        'validate() is not part of the block model (it only logs; its diagnostics are left out of the layer-3 comparison)',
        'str.capitalize() is modelled for first characters that can reach it from the parser (Gen.titleDomain)',
        "well-formedness (Spec/AnnGrammar.lean): lower-case annotation names that are tokens, not 'in-out'/'attribute'; "
        'list options without "="; dict options key or key=value (value possibly empty) with distinct keys; distinct '
        'annotation names',
        'white space after the asterisk belongs to the description text (GTK-Doc keeps it), so it is part of the block '
        'model, not of the layout; "" and None descriptions/values are identified',
        'str.lower() is modelled character-wise from the CPython table: names containing U+03A3 (final-sigma rule) are '
        'outside the model',
        'write/parse: the final line break the writer puts after the closing token is not part of the comment token '
        'handed back to the parser (as with the C lexer)',
        'lines never contain \\n or \\r inside the matchers (they come from split("\\n") after LINE_BREAK_RE)',
    ])


def replay(ctx, rep):
    ac.install_pending(ctx)
    impl = ac.Impl()
    r = rep['replay']
    cnt = Counter()
    if r['kind'] == 'model':
        lays = r.get('layouts') or [r['layout']]
        print('verdict:', check_model(ctx, impl, cnt, r['model'], lays))
    elif r['kind'] == 'text':
        print('verdict:', check_text_fixpoint(ctx, impl, cnt, r['text'], 'replay'))
    elif r['kind'] == 'anns':
        text = impl.serialize(r['anns'])
        print(text, impl.parse_annotations(text, 0, None, True))
    for v in ctx.violations:
        print(v['what'][:1000])
    return 1 if ctx.violations or ctx.known_hits else 0
