"""Run /repo's real scanner pipeline in-process without the compiled C lexer.

The C lexer/parser (scannerlexer.l, scannerparser.y, sourcescanner.c) cannot be built
in this sandbox; everything downstream of it can.  This module builds the objects the
lexer would deliver ("raw symbols": plain attribute bags wrapped by the real
giscanner.sourcescanner.SourceSymbol) from a small JSON description of C declarations,
and then runs the real

  GtkDocCommentBlockParser -> Transformer.parse -> [GDumpParser] -> MainTransformer
  -> IntrospectablePass -> GIRWriter

exactly as giscanner/scannermain.py:scanner_main does.

Declaration JSON (all keys beyond those shown are optional):
  type T  := {"k":"void"} | {"k":"basic","n":"unsigned int"} | {"k":"typedef","n":"FooBar"}
           | {"k":"struct"|"union"|"enum","n":"_Tag"|null, "fields":[F...], "members":[M...], "bitfield":bool}
           | {"k":"ptr","to":T} | {"k":"array","of":T,"n":int|null}
           | {"k":"func","ret":T,"params":[P...]}          each with "q": qualifier bits (const=2, volatile=8)
  param P := {"name":str|null,"type":T} | {"ellipsis":true}
  field F := {"name":str,"type":T,"bits":int?,"private":bool?}
  member M:= {"name":str,"value":int,"private":bool?}
  decl D  := {"d":"function","name":..,"ret":T,"params":[P],"inline":bool}
           | {"d":"typedef","name":..,"type":T}
           | {"d":"struct"|"union","name":"_Tag","fields":[F]}
           | {"d":"enum","name":tag|null,"members":[M],"bitfield":bool}
           | {"d":"const","name":..,"int":n|"string":s|"double":x|"bool":b,"type":T?}
           | {"d":"macro","name":..,"params":[names]}
    each with "file" (default "<ns>.h") and "line".
"""
import io
import os
import sys
import types

_HERE = os.path.dirname(os.path.abspath(__file__))
sys.path.insert(0, os.path.join(os.path.dirname(_HERE), 'translators'))
from common import install_stub_lexer, REPO  # noqa

Q_CONST = 2
Q_VOLATILE = 8

_mods = None


def mods():
    """Import the real giscanner modules (once)."""
    global _mods
    if _mods is None:
        install_stub_lexer()
        from giscanner import (ast, message, transformer, maintransformer, introspectablepass, girwriter,
                               girparser, gdumpparser, annotationparser, sourcescanner, xmlwriter, utils)
        _mods = types.SimpleNamespace(ast=ast, message=message, transformer=transformer,
                                      maintransformer=maintransformer, introspectablepass=introspectablepass,
                                      girwriter=girwriter, girparser=girparser, gdumpparser=gdumpparser,
                                      annotationparser=annotationparser, sourcescanner=sourcescanner,
                                      xmlwriter=xmlwriter, utils=utils)
    return _mods


class RawType(object):
    __slots__ = ('type', 'base_type', 'name', 'type_qualifier', 'child_list', 'is_bitfield',
                 'function_specifier', 'storage_class_specifier')

    def __init__(self, type, name=None, base_type=None, q=0, child_list=(), is_bitfield=False, fs=0):
        self.type = type
        self.name = name
        self.base_type = base_type
        self.type_qualifier = q
        self.child_list = list(child_list)
        self.is_bitfield = is_bitfield
        self.function_specifier = fs
        self.storage_class_specifier = 0


class RawSymbol(object):
    __slots__ = ('type', 'ident', 'base_type', 'const_int', 'const_int_is_unsigned', 'const_string',
                 'const_double', 'const_boolean', 'source_filename', 'line', 'private')

    def __init__(self, type, ident, base_type=None, source_filename=None, line=None, private=False,
                 const_int=None, const_string=None, const_double=None, const_boolean=None):
        self.type = type
        self.ident = ident
        self.base_type = base_type
        self.const_int = const_int
        self.const_int_is_unsigned = False
        self.const_string = const_string
        self.const_double = const_double
        self.const_boolean = const_boolean
        self.source_filename = source_filename
        self.line = line
        self.private = private


def build_type(t, ctx):
    ss = mods().sourcescanner
    k = t['k']
    q = t.get('q', 0)
    if k == 'void':
        return RawType(ss.CTYPE_VOID, q=q)
    if k == 'basic':
        return RawType(ss.CTYPE_BASIC_TYPE, name=t['n'], q=q)
    if k == 'typedef':
        return RawType(ss.CTYPE_TYPEDEF, name=t['n'], q=q)
    if k in ('struct', 'union'):
        kids = [build_field(f, ctx) for f in t.get('fields', [])]
        return RawType(ss.CTYPE_STRUCT if k == 'struct' else ss.CTYPE_UNION, name=t.get('n'), q=q,
                       child_list=kids)
    if k == 'enum':
        kids = [RawSymbol(ss.CSYMBOL_TYPE_OBJECT, m['name'], const_int=m['value'],
                          private=m.get('private', False), source_filename=ctx['file'], line=ctx['line'])
                for m in t.get('members', [])]
        return RawType(ss.CTYPE_ENUM, name=t.get('n'), q=q, child_list=kids,
                       is_bitfield=t.get('bitfield', False))
    if k == 'ptr':
        return RawType(ss.CTYPE_POINTER, base_type=build_type(t['to'], ctx), q=q)
    if k == 'array':
        kids = []
        if t.get('n') is not None:
            kids = [RawSymbol(ss.CSYMBOL_TYPE_CONST, None, const_int=t['n'])]
        return RawType(ss.CTYPE_ARRAY, base_type=build_type(t['of'], ctx), q=q, child_list=kids)
    if k == 'func':
        kids = [build_param(p, ctx) for p in t.get('params', [])]
        fs = ss.FUNCTION_INLINE if t.get('inline') else 0
        ret = build_type(t['ret'], ctx)
        # scannerparser.y puts the function specifier on the declaration specifiers, i.e. on the RETURN type, which is
        # where Transformer._create_function reads it (symbol.base_type.base_type.function_specifier); it is kept on
        # the function type as well
        ret.function_specifier |= fs
        return RawType(ss.CTYPE_FUNCTION, base_type=ret, q=q, child_list=kids, fs=fs)
    raise ValueError('unknown type kind %r' % (k, ))


def build_param(p, ctx):
    ss = mods().sourcescanner
    if p.get('ellipsis'):
        return RawSymbol(ss.CSYMBOL_TYPE_ELLIPSIS, None, source_filename=ctx['file'], line=ctx['line'])
    return RawSymbol(ss.CSYMBOL_TYPE_INVALID, p.get('name'), base_type=build_type(p['type'], ctx),
                     source_filename=ctx['file'], line=ctx['line'])


def build_field(f, ctx):
    ss = mods().sourcescanner
    return RawSymbol(ss.CSYMBOL_TYPE_MEMBER, f.get('name'), base_type=build_type(f['type'], ctx),
                     const_int=f.get('bits'), private=f.get('private', False),
                     source_filename=ctx['file'], line=f.get('line', ctx['line']))


def build_symbol(d, default_file):
    """JSON declaration -> real SourceSymbol wrapping a raw symbol."""
    ss = mods().sourcescanner
    ctx = {'file': d.get('file', default_file), 'line': d.get('line', 1)}
    kind = d['d']
    if kind == 'function':
        ty = build_type({'k': 'func', 'ret': d['ret'], 'params': d.get('params', []),
                         'inline': d.get('inline', False)}, ctx)
        raw = RawSymbol(ss.CSYMBOL_TYPE_FUNCTION, d['name'], base_type=ty)
    elif kind == 'typedef':
        raw = RawSymbol(ss.CSYMBOL_TYPE_TYPEDEF, d['name'], base_type=build_type(d['type'], ctx))
    elif kind in ('struct', 'union'):
        ty = build_type({'k': kind, 'n': d['name'], 'fields': d.get('fields', [])}, ctx)
        raw = RawSymbol(ss.CSYMBOL_TYPE_STRUCT if kind == 'struct' else ss.CSYMBOL_TYPE_UNION,
                        d['name'], base_type=ty)
    elif kind == 'enum':
        ty = build_type({'k': 'enum', 'n': d.get('name'), 'members': d.get('members', []),
                         'bitfield': d.get('bitfield', False)}, ctx)
        raw = RawSymbol(ss.CSYMBOL_TYPE_ENUM, d.get('name'), base_type=ty)
    elif kind == 'const':
        bt = build_type(d['type'], ctx) if d.get('type') else None
        raw = RawSymbol(ss.CSYMBOL_TYPE_CONST, d['name'], base_type=bt,
                        const_int=d.get('int'), const_string=d.get('string'),
                        const_double=d.get('double'), const_boolean=d.get('bool'))
    elif kind == 'macro':
        kids = [RawSymbol(ss.CSYMBOL_TYPE_INVALID, n, source_filename=ctx['file'], line=ctx['line'])
                for n in d.get('params', [])]
        ty = RawType(ss.CTYPE_FUNCTION, child_list=kids)
        raw = RawSymbol(ss.CSYMBOL_TYPE_FUNCTION_MACRO, d['name'], base_type=ty)
    elif kind == 'object':
        raw = RawSymbol(ss.CSYMBOL_TYPE_OBJECT, d['name'], base_type=build_type(d['type'], ctx))
    else:
        raise ValueError('unknown decl kind %r' % (kind, ))
    raw.source_filename = ctx['file']
    raw.line = ctx['line']
    raw.private = d.get('private', False)
    return ss.SourceSymbol(None, raw)


class RecordingLogger(object):
    """Stands in for message.MessageLogger: same interface, records every diagnostic."""

    def __init__(self, real_cls, namespace):
        self._real = real_cls(namespace=namespace, output=io.StringIO())
        self._real.enable_warnings(True)
        self.records = []

    def __getattr__(self, name):
        return getattr(self._real, name)

    def log(self, log_type, text, positions=None, prefix=None, marker_pos=None, marker_line=None):
        pos = positions
        if isinstance(pos, set):
            pos = sorted(pos, key=lambda p: (p.filename or '', p.line or 0, p.column or 0))
        elif pos is not None and not isinstance(pos, (list, tuple)):
            pos = [pos]
        self.records.append({'level': log_type, 'text': text,
                             'positions': [(p.filename, p.line, p.column) for p in (pos or [])],
                             'prefix': prefix, 'marker_pos': marker_pos, 'marker_line': marker_line})
        try:
            return self._real.log(log_type, text, positions, prefix, marker_pos, marker_line)
        except SystemExit:
            raise

    def log_node(self, log_type, node, text, context=None, positions=None):
        # re-implemented through the real method, but bound to self.log for recording
        return type(self._real).log_node(self, log_type, node, text, context=context, positions=positions)

    def log_symbol(self, log_type, symbol, text):
        return type(self._real).log_symbol(self, log_type, symbol, text)


def install_logger(namespace=None):
    m = mods()
    lg = RecordingLogger(m.message.MessageLogger, namespace)
    m.message.MessageLogger._instance = lg
    return lg


def scan(cfg):
    """Run the pipeline.  cfg keys: namespace, version, id_prefixes, sym_prefixes, decls,
    comments [(text, filename, line)], includes [gir file paths], include_paths [dirs],
    dump (xml string or None), accept_unprefixed, shared_libraries, c_includes, packages,
    sources_top_dirs, stop_after ('transformer'|'main'|None).
    Returns dict(gir=str|None, warnings=[records], transformer=..., namespace=..., blocks=...)."""
    m = mods()
    ast = m.ast
    ns_name = cfg.get('namespace', 'Foo')
    namespace = ast.Namespace(ns_name, cfg.get('version', '1.0'),
                              identifier_prefixes=cfg.get('id_prefixes'),
                              symbol_prefixes=cfg.get('sym_prefixes'))
    logger = install_logger(namespace)
    tr = m.transformer.Transformer(namespace, accept_unprefixed=cfg.get('accept_unprefixed', False))
    tr.set_include_paths(cfg.get('include_paths', []))
    if cfg.get('use_cache') is not True:
        tr.disable_cache()
    for inc in cfg.get('includes', []):
        tr.register_include_uninstalled(inc)
    default_file = cfg.get('default_file', '/src/%s.h' % ns_name.lower())
    symbols = [build_symbol(d, default_file) for d in cfg.get('decls', [])]
    cbp = m.annotationparser.GtkDocCommentBlockParser()
    blocks = cbp.parse_comment_blocks([tuple(c) for c in cfg.get('comments', [])])
    tr.parse(symbols)
    out = {'transformer': tr, 'namespace': namespace, 'blocks': blocks, 'logger': logger, 'gir': None}
    if cfg.get('stop_after') == 'transformer':
        out['warnings'] = logger.records
        return out
    if cfg.get('dump') is not None:
        from xml.etree.ElementTree import parse as et_parse
        gdp = m.gdumpparser.GDumpParser(tr)
        gdp.init_parse()
        dump_xml = cfg['dump']

        def _fake_exec(self=gdp):
            return et_parse(io.StringIO(dump_xml))
        gdp._execute_binary_get_tree = _fake_exec
        gdp.parse()
        out['gdump'] = gdp
    namespace.shared_libraries = cfg.get('shared_libraries', [])
    main = m.maintransformer.MainTransformer(tr, blocks)
    main.transform()
    if cfg.get('stop_after') == 'main':
        out['warnings'] = logger.records
        return out
    final = m.introspectablepass.IntrospectablePass(tr, blocks)
    final.validate()
    namespace.c_includes = cfg.get('c_includes', [])
    namespace.exported_packages = cfg.get('packages', [])
    writer = m.girwriter.GIRWriter(namespace, cfg.get('sources_top_dirs', ['/src']))
    out['gir'] = writer.get_encoded_xml().decode('utf-8')
    out['warnings'] = logger.records
    return out


# ---- convenience constructors for generators --------------------------------
def T(name, q=0):
    """basic or typedef'd type by C spelling: lower-case C keywords are basic, the rest typedefs"""
    basic = {'int', 'char', 'short', 'long', 'float', 'double', 'unsigned', 'signed', '_Bool', 'bool',
             'unsigned int', 'unsigned char', 'unsigned short', 'unsigned long', 'long long',
             'unsigned long long', 'signed char', 'long double', 'size_t', 'ssize_t'}
    if name == 'void':
        return {'k': 'void', 'q': q}
    if name in basic:
        return {'k': 'basic', 'n': name, 'q': q}
    return {'k': 'typedef', 'n': name, 'q': q}


def P(t, depth=1, q=0):
    for _ in range(depth):
        t = {'k': 'ptr', 'to': t, 'q': q}
    return t


def gir_tree(gir_text):
    from xml.etree import ElementTree as ET
    return ET.fromstring(gir_text.encode('utf-8'))


NS = {'core': 'http://www.gtk.org/introspection/core/1.0',
      'c': 'http://www.gtk.org/introspection/c/1.0',
      'glib': 'http://www.gtk.org/introspection/glib/1.0'}


def q(tag):
    """'c:type' -> '{uri}type' for ElementTree attribute / tag lookups"""
    if ':' in tag:
        p, n = tag.split(':', 1)
        return '{%s}%s' % (NS[p], n)
    return '{%s}%s' % (NS['core'], tag)
