"""C18 — The dependency-GIR cache never serves stale or torn data.

Proof: lean/GIVerif/Props/C18.lean over the step model lean/GIVerif/Model/Cache.lean
(one atomic step per system call of giscanner/cachestore.py and of the call site
Transformer._parse_include, any number of processes).

Tie: (1) translators/gen_cache.py re-reads the six functions of cachestore.py (text shape, the two
mtime comparisons, swallowed errnos, fstat-vs-stat, where the temporary file is made, how it is
published and stamped) and the call site on every run; (2) a controlled-schedule executor runs the
REAL CacheStore.store / load / CacheStore() in worker threads whose system calls (inside the
giscanner.cachestore namespace only) block until the scheduler grants them, on a real scratch
directory with mtimes taken from a logical clock; a store is driven as the call site drives it
(stat of the source at spawn, read of the source as a step of its own, store(filename, parse, mtime));
every schedule is also run by the Lean step function (driver op c18.run) and the system-call
traces, per-operation outcomes, load results and final directory contents (entry, stamp, temporary
files lying in the cache directory) are compared;
(3) an oracle written from the property statement is evaluated on the real results;
(4) harness/c18_replays.py replays the former findings on REAL file systems (TMPDIR on tmpfs, cache on
disk: a genuine EXDEV) through Transformer._parse_include, with no scheduler: they must all pass.

Inputs: corpus; directed schedule families whose step counts are MEASURED on the real code (late publish of an
old parse by a held-back store + a second store + a loader; a version check stopped after each of its system
calls followed by a second scanner of the new version) so that they keep aiming at the same windows when an
operation gains or loses a system call; interleavings enumerated by the model; uniformly sampled merges; random
schedules.  Source histories: modification stamped with the current time (with / without a clock tick) and
replacement by a file that carries a given, typically older, mtime.

Only the public surface of giscanner.cachestore is used (CacheStore(), .store, .load); the
scanner version is steered through sys.argv[0]'s mtime (an input of the version hash).
"""
import errno
import inspect
import itertools
import json
import os
import pickle as real_pickle
import shutil as real_shutil
import subprocess
import sys
import tempfile as real_tempfile
import threading
import time
import builtins

from core import REPO, VERIF, Counter, HarnessError

BASE = 1000000000          # logical clock 0 as an epoch time
SRC_NAME = 'Dep-1.0.gir'
PATCHED = ('os', 'shutil', 'tempfile', 'pickle')
TMP_PREFIX = 'g-ir-scanner-cache-'
VTMP_PREFIX = 'g-ir-scanner-cache-version-'

# The one class of histories on which the code (and any scheme that recognises the source by its mtime)
# violates the statement; recorded in known_findings.json.
PENDING_FINDINGS = [
    {'key': 'C18_fresh:two-source-versions-with-one-mtime-and-a-read-in-between',
     'what': 'a cache entry is recognised as the parse of the current source by the source\'s mtime: when the source '
             'gets a new version that carries the SAME mtime as the version a scanner has just stat\'ed and parsed '
             '(rewritten within one timestamp granule, or replaced by a file carrying that very mtime), the entry made '
             'from the old version carries "the mtime the source has now" and every later load returns the parse of '
             'the old version (Lean: C18_fresh_counterexample; C18_fresh_partial holds under histDistinctMtimes)'},
]
KEY_SAME = PENDING_FINDINGS[0]['key']


class Parse(object):
    """stands for the pickled GIRParser: which source version it is the parse of, which
    scanner version produced it, which operation stored it"""

    def __init__(self, data, sver, op):
        self.data = data
        self.sver = sver
        self.op = op
        self.pad = 'x' * 400

    def ident(self):
        return (self.data, self.sver, self.op)


class Abandon(BaseException):
    """raised inside an abandoned (crashed) worker when the harness finally unwinds it"""


# ------------------------------------------------------------------------------------------
# proxies living in the giscanner.cachestore namespace
# ------------------------------------------------------------------------------------------
def cur():
    return getattr(threading.current_thread(), 'worker', None)


class FileProxy(object):
    """what os.fdopen returns inside cachestore: write and close are scheduled steps"""

    def __init__(self, real, ex):
        self._real = real
        self._ex = ex

    def raw_write(self, data):
        self._real.write(data)
        self._real.flush()
        self._ex.stamp_fd(self._real.fileno())

    def write(self, data):
        w = cur()
        if w is not None:
            w.park('write')
        self.raw_write(data)

    def fileno(self):
        return self._real.fileno()

    def close(self):
        w = cur()
        if w is not None and not self._real.closed and not w.abandon:
            w.park('close')
        self._real.close()

    def __enter__(self):
        return self

    def __exit__(self, et, ev, tb):
        if et is not None and issubclass(et, Abandon):
            self._real.close()
            return False
        try:
            self.close()
        except Abandon:
            self._real.close()
            raise
        return False

    def __getattr__(self, name):
        return getattr(self._real, name)


class OsProxy(object):
    def __init__(self, ex):
        self._ex = ex

    def __getattr__(self, name):
        return getattr(os, name)

    def stat(self, path, *a, **k):
        w = cur()
        ex = self._ex
        if w is not None and path == ex.entry_path:
            w.park('stat_entry')
            r = os.stat(path, *a, **k)
            w.seen['entry_mtime'] = int(r.st_mtime) - BASE
            return r
        if w is not None and path == ex.src_path:
            w.park('stat_src')
            r = os.stat(path, *a, **k)
            w.seen['src_mtime'] = int(r.st_mtime) - BASE
            return r
        return os.stat(path, *a, **k)

    def fstat(self, fd):
        w = cur()
        if w is not None:
            w.park('fstat')
        r = os.fstat(fd)
        if w is not None:
            w.seen['entry_mtime'] = int(r.st_mtime) - BASE
        return r

    def unlink(self, path, *a, **k):
        w = cur()
        if w is not None:
            w.park('unlink')
        return os.unlink(path, *a, **k)

    remove = unlink

    def listdir(self, path='.'):
        w = cur()
        if w is not None:
            w.park('listdir')
        return sorted(os.listdir(path))

    def rename(self, a, b, *x, **k):
        w = cur()
        if w is not None:
            w.park('rename')
        return os.rename(a, b, *x, **k)

    replace = rename

    def utime(self, path, *a, **k):
        w = cur()
        if w is not None:
            w.park('utime')
        return os.utime(path, *a, **k)

    def fdopen(self, fd, *a, **k):
        real = os.fdopen(fd, *a, **k)
        if cur() is None:
            return real
        return FileProxy(real, self._ex)


class ShutilProxy(object):
    """shutil.move is how the version stamp is put in place (its temporary file is in TMPDIR, assumed on the
    same device as the cache directory: one rename)"""

    def __init__(self, ex):
        self._ex = ex

    def __getattr__(self, name):
        return getattr(real_shutil, name)

    def move(self, src, dst, *a, **k):
        w = cur()
        if w is not None:
            w.park('rename')
        return real_shutil.move(src, dst, *a, **k)


class TempfileProxy(object):
    def __init__(self, ex):
        self._ex = ex

    def __getattr__(self, name):
        return getattr(real_tempfile, name)

    def mkstemp(self, *a, **k):
        w = cur()
        if w is None:
            return real_tempfile.mkstemp(*a, **k)
        w.park('mkstemp')
        d = k.get('dir') if len(a) < 3 else a[2]
        if d is not None and os.path.abspath(d) == self._ex.cachedir:
            # in the cache directory: names in creation order, so that the sorted listing of a purge is the
            # order the model assumes (entry, then temporary files as created); still unique and O_EXCL
            prefix = k.get('prefix') if len(a) < 2 else a[1]
            self._ex.tmp_counter += 1
            name = os.path.join(self._ex.cachedir, '%s%06d' % (prefix or 'tmp', self._ex.tmp_counter))
            fd = os.open(name, os.O_RDWR | os.O_CREAT | os.O_EXCL, 0o600)
        else:
            if d is None:
                k['dir'] = self._ex.tmpdir
            fd, name = real_tempfile.mkstemp(*a, **k)
        self._ex.stamp_fd(fd)
        return fd, name


class PickleProxy(object):
    def __init__(self, ex):
        self._ex = ex

    def __getattr__(self, name):
        return getattr(real_pickle, name)

    def dump(self, obj, f, *a, **k):
        w = cur()
        if w is None or not isinstance(f, FileProxy):
            return real_pickle.dump(obj, f, *a, **k)
        b = real_pickle.dumps(obj, *a, **k)
        self._ex.registry.append((b, obj.ident() if isinstance(obj, Parse) else None))
        half = len(b) // 2
        w.park('write')
        f.raw_write(b[:half])
        w.park('write')
        f.raw_write(b[half:])
        w.dump_done = w.steps[-1][0]

    def load(self, f, *a, **k):
        w = cur()
        if w is not None:
            w.park('read')
            try:
                w.seen['read_mtime'] = int(os.fstat(f.fileno()).st_mtime) - BASE
            except Exception:
                pass
        return real_pickle.load(f, *a, **k)


def make_open(ex):
    def open_proxy(path, mode='r', *a, **k):
        w = cur()
        if w is None:
            return builtins.open(path, mode, *a, **k)
        if 'w' in mode or 'a' in mode or '+' in mode or 'x' in mode:
            w.park('open_w')
            f = builtins.open(path, mode, *a, **k)
            ex.stamp_fd(f.fileno())
            return FileProxy(f, ex)
        if path == ex.entry_path:
            w.park('open_entry')
        elif path == ex.stamp_path:
            w.park('read_stamp')
        return builtins.open(path, mode, *a, **k)
    return open_proxy


# ------------------------------------------------------------------------------------------
# the controlled-schedule executor
# ------------------------------------------------------------------------------------------
POOL = []


class PoolThread(threading.Thread):
    """worker threads are reused across schedules (starting a thread costs two wake-ups)"""

    def __init__(self):
        threading.Thread.__init__(self, daemon=True)
        self.wake = threading.Lock()
        self.wake.acquire()
        self.worker = None

    def run(self):
        while True:
            self.wake.acquire()
            w = self.worker
            try:
                w.run()
            finally:
                self.worker = None
                POOL.append(self)
                w.exited.release()


class Worker(object):
    """One operation of the real code.  The schedule is advanced by whichever thread currently
    holds the baton (Executor.advance): a worker that reaches its next system call processes the
    following events itself and only blocks when the turn goes to somebody else, so consecutive
    steps of one process cost no thread switch at all."""

    def __init__(self, ex, pid, kind, sver, fn):
        self.ex = ex
        self.exited = threading.Lock()
        self.exited.acquire()
        self.pid = pid
        self.kind = kind
        self.sver = sver
        self.fn = fn
        self.go = threading.Lock()          # raw lock used as a binary semaphore
        self.go.acquire()
        self.label = None
        self.finished = False
        self.crashed = False
        self.abandon = False
        self.result = None
        self.exc = None
        self.seen = {}
        self.first_step = None      # index of the event of its first system call
        self.last_step = None
        self.v_start = None
        self.v_end = None
        self.steps = []             # (event index, label)
        self.spawn_index = None
        self.parse = None
        self.dump_done = None       # event index of the write that completed the temp file
        self.v_spawn = None         # source version current when the operation was spawned (store: stat'ed)

    def start(self):
        if POOL:
            t = POOL.pop()
        else:
            t = PoolThread()
            t.start()
        t.worker = self
        t.wake.release()

    def run(self):
        try:
            self.result = self.fn()
        except Abandon:
            pass
        except BaseException as e:  # noqa
            self.exc = e
        finally:
            self.finished = True
            if not self.abandon:
                try:
                    self.ex.advance(self)
                except Abandon:
                    pass

    def park(self, label):
        if self.abandon:
            raise Abandon()
        self.label = label
        self.ex.advance(self)


class Executor(object):
    def __init__(self, ctx, cachestore):
        self.ctx = ctx
        self.cs_mod = cachestore
        root = os.path.join(ctx.scratch, 'c18')
        self.xdg = os.path.join(root, 'xdg')
        self.cachedir = os.path.join(self.xdg, 'g-ir-scanner')
        self.tmpdir = os.path.join(root, 'tmp')
        self.srcdir = os.path.join(root, 'src')
        self.argvdir = os.path.join(root, 'argv')
        for d in (self.cachedir, self.tmpdir, self.srcdir, self.argvdir):
            os.makedirs(d, exist_ok=True)
        self.src_path = os.path.join(self.srcdir, SRC_NAME)
        import hashlib
        self.entry_path = os.path.join(self.cachedir, hashlib.sha1(self.src_path.encode('utf-8')).hexdigest())
        self.stamp_path = os.path.join(self.cachedir, '.cache-version')
        self.clock = 0
        self.ver = 0
        self.registry = []
        self.saved = {}
        self.stamp_texts = {}
        self.stores = {}
        self.unpatched = []
        self.tmp_counter = 0
        try:
            params = list(inspect.signature(cachestore.CacheStore.store).parameters)
            self.store_takes_mtime = len(params) >= 4
            self.store_takes_ns = self.store_takes_mtime and params[3].endswith('_ns')
        except (TypeError, ValueError):
            self.store_takes_mtime = self.store_takes_ns = False
        os.environ.pop('GI_SCANNER_DISABLE_CACHE', None)
        os.environ['XDG_CACHE_HOME'] = self.xdg
        self.saved_argv0 = sys.argv[0]

    # ---- patching ---------------------------------------------------------------------
    def install(self):
        m = self.cs_mod
        prox = {'os': OsProxy(self), 'shutil': ShutilProxy(self), 'tempfile': TempfileProxy(self),
                'pickle': PickleProxy(self)}
        for name in PATCHED:
            if not hasattr(m, name):
                self.unpatched.append(name)
                continue
            self.saved[name] = getattr(m, name)
            setattr(m, name, prox[name])
        self.saved['open'] = m.__dict__.get('open', None)
        m.open = make_open(self)

    def uninstall(self):
        m = self.cs_mod
        for name in PATCHED:
            if name in self.saved:
                setattr(m, name, self.saved[name])
        if self.saved.get('open') is None:
            if 'open' in m.__dict__:
                del m.open
        else:
            m.open = self.saved['open']
        sys.argv[0] = self.saved_argv0

    # ---- helpers ----------------------------------------------------------------------
    def sweep(self):
        """whatever the code under test created or wrote through a path the proxies do not stamp gets
        its mtime from the logical clock as well"""
        for d in (self.cachedir, self.tmpdir):
            for fn in os.listdir(d):
                p = os.path.join(d, fn)
                try:
                    if os.stat(p).st_mtime > BASE + 100000000:
                        os.utime(p, (BASE + self.clock, BASE + self.clock))
                except OSError:
                    pass

    def stamp_fd(self, fd):
        os.utime(fd, (BASE + self.clock, BASE + self.clock))

    def set_argv0(self, sver):
        p = os.path.join(self.argvdir, 'scanner-%d' % sver)
        if not os.path.exists(p):
            with open(p, 'w') as f:
                f.write('#')
            os.utime(p, (BASE + sver, BASE + sver))
        sys.argv[0] = p

    def clean_dirs(self):
        for d in (self.cachedir, self.tmpdir):
            for fn in os.listdir(d):
                os.unlink(os.path.join(d, fn))

    def stamp_text(self, sver):
        """the .cache-version content a scanner of version `sver` writes, obtained through the
        public constructor on an empty cache directory"""
        if sver not in self.stamp_texts:
            self.clean_dirs()
            self.set_argv0(sver)
            self.cs_mod.CacheStore()
            try:
                with open(self.stamp_path) as f:
                    self.stamp_texts[sver] = f.read()
            except OSError:
                self.ctx.broken.append('correspondence c18.run: CacheStore() on an empty cache directory no longer '
                                       'writes .cache-version')
                self.stamp_texts[sver] = 'no-stamp-%d' % sver
            self.clean_dirs()
        return self.stamp_texts[sver]

    def store_obj(self, sver):
        """one CacheStore instance per scanner version, built by the public constructor"""
        if sver not in self.stores:
            self.clean_dirs()
            self.set_argv0(sver)
            self.stores[sver] = self.cs_mod.CacheStore()
            self.clean_dirs()
        return self.stores[sver]

    def write_source(self):
        # overwritten in place without truncation (truncate-and-rewrite makes ext4 flush synchronously)
        mode = 'r+' if os.path.exists(self.src_path) else 'w'
        with open(self.src_path, mode) as f:
            f.write('%08d\n' % self.ver)
        os.utime(self.src_path, (BASE + self.src_mtimes[self.ver], BASE + self.src_mtimes[self.ver]))

    def read_source(self):
        with open(self.src_path) as f:
            return int(f.read())

    # ---- one schedule -----------------------------------------------------------------
    def execute(self, init, evs):
        """Runs the schedule on the real code; returns the observation in the driver's shape
        plus harness-side bookkeeping for the statement oracle."""
        svers = sorted(set([e[3] for e in evs if e[0] == 'spawn'] +
                           ([init['stamp']] if init.get('stamp') is not None else []) +
                           ([init['entry'][1]] if init.get('entry') else [])))
        for sv in svers:
            self.stamp_text(sv)
            self.store_obj(sv)
        self.clean_dirs()
        self.tmp_counter = 0
        self.registry = []
        self.clock = init['clock']
        self.ver = init['ver']
        self.src_mtimes = {self.ver: init['src_mtime']}
        self.write_source()
        init_bytes = None
        if init.get('entry'):
            d, sv, ln, mt = init['entry']
            b = real_pickle.dumps(Parse(d, sv, -1))
            self.registry.append((b, (d, sv, -1)))
            init_bytes = b if ln >= 2 else (b[:len(b) // 2] if ln == 1 else b'')
            with open(self.entry_path, 'wb') as f:
                f.write(init_bytes)
            os.utime(self.entry_path, (BASE + mt, BASE + mt))
        if init.get('stamp') is not None:
            with open(self.stamp_path, 'w') as f:
                f.write(self.stamp_text(init['stamp']))
        self.workers = workers = {}
        self.trace = []
        self.mods_at = []
        self.mod_version = {}
        self.evs = evs
        self.idx = 0
        self.error = None
        self.done = threading.Lock()
        self.done.acquire()
        try:
            self.advance(None)
            if not self.done.acquire(timeout=60):
                raise HarnessError('schedule did not complete within 60 s (event %d of %d): %s'
                                   % (self.idx, len(evs), json.dumps(evs)))
            if self.error is not None:
                raise self.error
            obs = self.observe(workers, self.trace, init_bytes)
        finally:
            for w in workers.values():
                if not w.finished:
                    w.abandon = True
                    w.go.release()
            for w in workers.values():
                if not w.exited.acquire(timeout=20):
                    raise HarnessError('worker %d did not terminate' % w.pid)
        obs['_workers'] = workers
        obs['_mods_at'] = self.mods_at
        obs['_mod_version'] = dict(self.mod_version)
        obs['_src_mtimes'] = dict(self.src_mtimes)
        return obs

    def advance(self, me):
        """Process events until the turn goes to another thread.  Called by the thread holding the
        baton: the main thread (me=None) at the start, a worker that has just reached its next
        system call (me.label) or has just finished.  Returns when `me` may perform its system
        call."""
        try:
            if me is not None:
                self.sweep()
            handed = self._advance(me)
        except Abandon:
            raise
        except BaseException as e:  # noqa
            self.error = e if isinstance(e, HarnessError) else HarnessError('scheduler: %r' % (e, ))
            self.done.release()
            handed = True
        if handed and me is not None and not me.finished:
            me.go.acquire()
            if me.abandon:
                raise Abandon()

    def _advance(self, me):
        """returns False when `me` itself got the turn, True when the baton went elsewhere"""
        evs = self.evs
        workers = self.workers
        while self.idx < len(evs):
            idx = self.idx
            e = evs[idx]
            self.idx += 1
            kind = e[0]
            if kind == 'spawn':
                self.trace.append('-')
                _, pid, op, sver = e
                if pid in workers:
                    continue
                cs = self.store_obj(sver)
                parse = None
                if op == 'store':
                    # what Transformer._parse_include does: observe the mtime of the source (now, at spawn),
                    # read the source (a scheduled step of its own: 'parse'), call store with both
                    m0 = os.stat(self.src_path)
                    m0 = m0.st_mtime_ns if self.store_takes_ns else m0.st_mtime

                    def fn(cs=cs, m0=m0, sver=sver, pid=pid):
                        w = cur()
                        w.park('parse')
                        w.parse = Parse(self.read_source(), sver, pid)
                        if self.store_takes_mtime:
                            return cs.store(self.src_path, w.parse, m0)
                        return cs.store(self.src_path, w.parse)
                elif op == 'load':
                    fn = (lambda cs=cs: cs.load(self.src_path))
                else:
                    self.set_argv0(sver)
                    fn = (lambda: self.cs_mod.CacheStore() and None)
                w = Worker(self, pid, op, sver, fn)
                w.spawn_index = idx
                w.v_spawn = self.ver
                workers[pid] = w
                w.start()           # it runs to its first system call and takes the schedule from there
                return True
            if kind == 'step':
                w = workers.get(e[1])
                if w is not None and not w.finished and not w.crashed:
                    self.trace.append(w.label)
                    if w.first_step is None:
                        w.first_step = idx
                        w.v_start = self.ver
                    w.last_step = idx
                    w.v_end = self.ver
                    w.steps.append((idx, w.label))
                    if w is me:
                        return False
                    w.go.release()
                    return True
                self.trace.append('-')
            elif kind == 'crash':
                self.trace.append('-')
                w = workers.get(e[1])
                if w is not None and not w.finished and not w.crashed:
                    w.crashed = True
            elif kind == 'modify':
                self.trace.append('-')
                if e[1]:
                    self.clock += 1
                self.ver += 1
                self.src_mtimes[self.ver] = self.clock
                self.write_source()
                self.mods_at.append(idx)
                self.mod_version[idx] = self.ver
            elif kind == 'replace':
                # the source is replaced by a file that carries the mtime e[1] (not the current time)
                self.trace.append('-')
                self.ver += 1
                self.src_mtimes[self.ver] = e[1]
                self.write_source()
                self.mods_at.append(idx)
                self.mod_version[idx] = self.ver
            elif kind == 'tick':
                self.trace.append('-')
                self.clock += 1
            else:
                raise HarnessError('bad event %r' % (e, ))
        self.done.release()
        return True

    def identify(self, b):
        """(len, ident) of a file content: 0 empty, 2 complete pickle, 1 strict prefix"""
        if not b:
            return 0, None
        for full, ident in self.registry:
            if b == full:
                return 2, ident
        for full, ident in self.registry:
            if full.startswith(b):
                return 1, ident
        try:
            o = real_pickle.loads(b)
            return 2, (o.ident() if isinstance(o, Parse) else ('?', ))
        except Exception:
            return 1, ('?', )

    def observe(self, workers, trace, init_bytes):
        procs = []
        for pid in workers:
            w = workers[pid]
            if w.crashed:
                st = {'status': 'crashed'}
            elif not w.finished:
                st = {'status': 'running', 'next': w.label}
            elif w.exc is not None:
                st = {'status': 'raised', 'exc': repr(w.exc)}
            else:
                ret = None
                if w.kind == 'load' and w.result is not None:
                    r = w.result
                    if isinstance(r, Parse):
                        ret = {'data': r.data, 'sver': r.sver, 'op': r.op, 'len': 2,
                               'entry_mtime': w.seen.get('read_mtime'), 'src_mtime': w.seen.get('src_mtime'),
                               'v_start': w.v_start, 'v_end': w.v_end}
                    else:
                        ret = {'foreign': repr(r)}
                st = {'status': 'done', 'ret': ret}
            procs.append([pid, st])
        entry = None
        entry_is_initial = False
        if os.path.exists(self.entry_path):
            with open(self.entry_path, 'rb') as f:
                b = f.read()
            ln, ident = self.identify(b)
            mt = int(os.stat(self.entry_path).st_mtime) - BASE
            entry = [ident[0] if ident else None, ident[1] if ident and len(ident) > 1 else None, ln, mt]
            entry_is_initial = (init_bytes is not None and b == init_bytes)
        stamp = None
        if os.path.exists(self.stamp_path):
            with open(self.stamp_path) as f:
                txt = f.read()
            rev = dict((v, k) for k, v in self.stamp_texts.items())
            stamp = rev.get(txt, 'unknown:' + txt[:20])
        tmps = []
        vtmps = 0
        others = []
        for fn in sorted(os.listdir(self.tmpdir)):
            if fn.startswith(VTMP_PREFIX):
                vtmps += 1
            else:
                others.append('TMPDIR/' + fn)       # the store's temporary file belongs in the cache directory
        for fn in sorted(os.listdir(self.cachedir)):
            path = os.path.join(self.cachedir, fn)
            if path in (self.entry_path, self.stamp_path):
                continue
            if fn.startswith(TMP_PREFIX) and not fn.startswith(VTMP_PREFIX):
                with open(path, 'rb') as f:
                    b = f.read()
                ln, ident = self.identify(b)
                tmps.append(ln)
            else:
                others.append(fn)
        return {'trace': trace, 'procs': procs, 'entry': entry, 'stamp': stamp, 'tmps': sorted(tmps),
                'vtmps': vtmps, 'ver': self.ver, 'clock': self.clock, 'stray_in_cachedir': others,
                '_entry_is_initial': entry_is_initial}


# ------------------------------------------------------------------------------------------
# comparison with the model
# ------------------------------------------------------------------------------------------
def canon_model(m):
    procs = []
    for pid, st in m['procs']:
        st = dict(st)
        if st.get('ret'):
            r = st['ret']
            st['ret'] = {'data': r['data'], 'sver': r['sver'], 'len': r['len'], 'entry_mtime': r['entry_mtime'],
                         'src_mtime': r['src_mtime'], 'v_start': r['v_start'], 'v_end': r['v_end']}
        procs.append([pid, st])
    ent = m['entry']
    if ent is not None and ent[2] == 0:
        ent = [None, None, 0, ent[3]]
    return {'trace': m['trace'], 'procs': sorted(procs), 'entry': ent, 'stamp': m['stamp'],
            'tmps': sorted(t[2] for t in m['tmps']), 'vtmps': m['vtmps'], 'ver': m['ver'], 'clock': m['clock']}


def canon_impl(o):
    procs = []
    for pid, st in o['procs']:
        st = dict(st)
        st.pop('exc', None)
        if st.get('ret'):
            r = dict(st['ret'])
            r.pop('op', None)
            st['ret'] = r
        procs.append([pid, st])
    return {'trace': o['trace'], 'procs': sorted(procs), 'entry': o['entry'], 'stamp': o['stamp'],
            'tmps': o['tmps'], 'vtmps': o['vtmps'], 'ver': o['ver'], 'clock': o['clock']}


# ------------------------------------------------------------------------------------------
# the oracle, written from the property statement (does not look at the model)
# ------------------------------------------------------------------------------------------
def oracle(ctx, cnt, case, obs):
    init, evs = case['init'], case['evs']
    workers = obs['_workers']
    src_mtimes = obs['_src_mtimes']
    mods_at = obs['_mods_at']
    key_case = 'schedule:' + json.dumps([init, evs], sort_keys=True, separators=(',', ':'))
    replay = {'kind': 'schedule', 'init': init, 'evs': evs}
    reported = []
    for pid, w in workers.items():
        # --- nothing may escape
        if w.exc is not None:
            cnt.hit('oracle:raised')
            ctx.report_failure(key_case, '%s of process %d raised %r under schedule %s (init %s)'
                               % (w.kind, pid, w.exc, json.dumps(evs), json.dumps(init)), replay)
            continue
        if w.kind != 'load' or not w.finished or w.crashed:
            continue
        r = w.result
        if r is None:
            cnt.hit('oracle:load-none')
            continue
        # --- a complete parse that somebody stored
        if not isinstance(r, Parse) or not any(ident == r.ident() for _b, ident in obs['_registry']):
            cnt.hit('oracle:foreign')
            ctx.report_failure(key_case, 'load of process %d returned %r which no store wrote (torn / mixed data)'
                               % (pid, r), replay)
            continue
        # --- never older than the source (as of the start of the load)
        read_m = w.seen.get('read_mtime')
        # (the source's mtime is not monotone when a version is installed with a preserved older mtime: the
        # entry must not be older than EVERY version of the source that was current during the load)
        youngest_allowed = min(src_mtimes[v] for v in range(w.v_start, w.v_end + 1))
        if read_m is not None and read_m < youngest_allowed:
            cnt.hit('oracle:older-than-source')
            ctx.report_failure(key_case, 'load of process %d used an entry with mtime %d older than its source '
                               '(mtime >= %d throughout the load); schedule %s init %s'
                               % (pid, read_m, youngest_allowed, json.dumps(evs), json.dumps(init)), replay)
            continue
        # --- scanner version: an entry from before a completed purge by another version
        bad_purge = False
        for qid, c in workers.items():
            if c.kind != 'check' or c.sver == r.sver or c.crashed or not c.finished or c.exc is not None:
                continue
            listed = [i for i, lab in c.steps if lab == 'listdir']
            if not listed or c.last_step is None or c.last_step >= w.first_step:
                continue
            # a purge by version c.sver completed before this load began; did a process of the
            # entry's version store afterwards?  (the statement's carve-out)
            later_store = any(s.kind == 'store' and s.sver == r.sver and any(i > listed[0] for i, _l in s.steps)
                              for s in workers.values())
            if not later_store:
                bad_purge = True
        # --- scanner version: the directory was stamped with the loader's own version before the load began, yet
        #     the load is handed an entry written by another version (which no process of that version stored
        #     after that version check had begun): "a change of scanner version discards all entries"
        for qid, c in workers.items():
            if c.kind != 'check' or c.sver != w.sver or r.sver == w.sver or c.exc is not None or not c.steps:
                continue
            stamped = [i for i, lab in c.steps if lab == 'rename']
            if not stamped or stamped[0] >= w.first_step:
                continue
            later_store = any(s.kind == 'store' and s.sver == r.sver and any(i > c.steps[0][0] for i, _l in s.steps)
                              for s in workers.values())
            if not later_store and not (r.op == -1 and init.get('stamp') == w.sver):
                bad_purge = True
        if bad_purge:
            cnt.hit('oracle:survived-purge')
            ctx.report_failure(key_case, 'load of process %d returned an entry written by scanner version %d '
                               'although a purge by another version had completed (or the directory had been stamped '
                               'with the loader\'s own version) before the load began and no '
                               'process of version %d stored afterwards; schedule %s init %s'
                               % (pid, r.sver, r.sver, json.dumps(evs), json.dumps(init)), replay)
            continue
        # --- the main clause: parse of a version current at some instant of the load
        if w.v_start <= r.data <= w.v_end:
            cnt.hit('oracle:fresh-ok')
            continue
        if r.op == -1 and not init_is_fresh(init):
            # the schedule STARTS from a complete entry that carries the source's current mtime while holding an
            # older parse (hand-written states only): no store of this history produced it, nothing to judge
            cnt.hit('oracle:outside:initial-entry-already-stale')
            continue
        # --- stale.  The one recorded class: two DISTINCT versions of the source carrying the SAME mtime were both
        #     current between the spawn (= stat of the source) of the store that wrote the served entry and the end
        #     of this load.  For an entry that was there initially, the version it was made from counts with the
        #     mtime the entry carries (unless it is the initial version of the source with that very mtime).
        st = workers.get(r.op) if r.op != -1 else None
        stamps = []
        if r.op == -1:
            lo = init['ver']
            e = init.get('entry')
            if e and not (e[0] == init['ver'] and e[3] == init['src_mtime']):
                stamps.append(e[3])
        else:
            lo = st.v_spawn if st is not None and st.v_spawn is not None else w.v_start
        stamps += [src_mtimes[v] for v in range(lo, w.v_end + 1)]
        same_mtime = len(set(stamps)) < len(stamps)
        what = ('load of process %d returned parse(v%d) but the source versions current during the load were '
                'v%d..v%d (mtimes of the versions current since the entry\'s store was spawned: %s); schedule %s init %s'
                % (pid, r.data, w.v_start, w.v_end, stamps, json.dumps(evs), json.dumps(init)))
        if same_mtime:
            cnt.hit('oracle:stale:two-versions-one-mtime')
            ctx.coverage.setdefault('first_replay_per_finding', {}).setdefault(KEY_SAME, replay)
            ctx.report_failure(KEY_SAME, what, replay)
            reported.append(KEY_SAME)
        else:
            cnt.hit('oracle:stale:unclassified')
            ctx.report_failure(key_case, what, replay)
            reported.append(key_case)
    return reported


# ------------------------------------------------------------------------------------------
# generators
# ------------------------------------------------------------------------------------------
INITS = {
    # entry = [parse of version, scanner version, chunks on disk (2 = complete), mtime]
    'empty': {'clock': 10, 'ver': 1, 'src_mtime': 5, 'entry': None, 'stamp': 7},
    'fresh': {'clock': 10, 'ver': 1, 'src_mtime': 5, 'entry': [1, 7, 2, 5], 'stamp': 7},
    'stale': {'clock': 10, 'ver': 1, 'src_mtime': 5, 'entry': [0, 7, 2, 3], 'stamp': 7},
    'torn': {'clock': 10, 'ver': 1, 'src_mtime': 5, 'entry': [1, 7, 1, 5], 'stamp': 7},
    'otherstamp': {'clock': 10, 'ver': 1, 'src_mtime': 5, 'entry': [1, 7, 2, 8], 'stamp': 7},
    'nostamp': {'clock': 10, 'ver': 1, 'src_mtime': 5, 'entry': [1, 7, 2, 5], 'stamp': None},
    'emptyfile': {'clock': 10, 'ver': 1, 'src_mtime': 5, 'entry': [1, 7, 0, 5], 'stamp': 7},
    # the source was last modified in the CURRENT timestamp granule: one more modification without a clock
    # tick gives a second version with the same mtime
    'now-empty': {'clock': 10, 'ver': 1, 'src_mtime': 10, 'entry': None, 'stamp': 7},
    'now-fresh': {'clock': 10, 'ver': 1, 'src_mtime': 10, 'entry': [1, 7, 2, 10], 'stamp': 7},
}


def random_case(rng):
    init = dict(INITS[rng.choice(['empty', 'fresh', 'stale', 'torn', 'otherstamp', 'nostamp', 'emptyfile', 'fresh',
                                  'stale', 'now-empty', 'now-fresh'])])
    if rng.random() < 0.3:
        init['stamp'] = rng.choice([7, 8, None])
    nops = rng.choice([1, 2, 3, 3, 3])
    ops = []
    for pid in range(nops):
        op = rng.choice(['store', 'store', 'load', 'load', 'check'])
        sver = 7 if rng.random() < 0.75 else 8
        ops.append([pid, op, sver])
    pending = list(ops)
    rng.shuffle(pending)
    live = []
    evs = []
    mods = rng.choice([0, 1, 1, 2])
    crashes = 1 if rng.random() < 0.25 else 0
    budget = 60
    steps_left = dict((o[0], 11) for o in ops)
    while (pending or live) and budget > 0:
        budget -= 1
        r = rng.random()
        if pending and (r < 0.25 or not live):
            o = pending.pop()
            evs.append(['spawn', o[0], o[1], o[2]])
            live.append(o[0])
        elif mods and r < 0.33:
            mods -= 1
            if rng.random() < 0.15:
                evs.append(['replace', rng.choice([1, 3, 5, 6, 10, 12])])
            else:
                evs.append(['modify', rng.random() < 0.8])
        elif r < 0.38:
            evs.append(['tick'])
        elif crashes and live and r < 0.42:
            crashes -= 1
            p = rng.choice(live)
            evs.append(['crash', p])
            live.remove(p)
        elif live:
            p = rng.choice(live)
            evs.append(['step', p])
            steps_left[p] -= 1
            if steps_left[p] <= 0:
                live.remove(p)
    # a late load makes the outcome observable
    if rng.random() < 0.7:
        pid = nops
        evs.append(['spawn', pid, 'load', rng.choice([7, 7, 8])])
        evs.extend([['step', pid]] * 5)
    return {'init': init, 'evs': evs}


ENUM_QUICK = [
    # (init name, ops, mods, crashes, tick, cap in the quick tier (None = all))
    ('stale', [[0, 'store', 7], [1, 'load', 7]], 1, 0, True, 700),
    ('empty', [[0, 'store', 7], [1, 'load', 7]], 1, 0, True, 500),
    ('now-empty', [[0, 'store', 7], [1, 'load', 7]], 1, 0, False, 700),
    ('stale', [[0, 'store', 7]], 0, 1, True, None),
    ('fresh', [[0, 'store', 7], [1, 'load', 7]], 1, 0, True, 300),
    ('torn', [[0, 'store', 7], [1, 'load', 7]], 1, 0, True, 400),
    ('stale', [[0, 'store', 7], [1, 'store', 7]], 0, 0, True, 400),
    ('fresh', [[0, 'load', 7], [1, 'check', 8]], 1, 0, True, 400),
    ('fresh', [[0, 'check', 8], [1, 'load', 8]], 0, 1, True, 400),
    ('torn', [[0, 'load', 7], [1, 'load', 7]], 1, 0, True, 300),
    ('stale', [[0, 'store', 7], [1, 'check', 8]], 0, 0, True, 500),
    ('stale', [[0, 'store', 7], [1, 'load', 7]], 0, 1, True, 300),
]

ENUM_THOROUGH = [
    ('stale', [[0, 'store', 7], [1, 'load', 7]], 1, 1, True, None),
    ('empty', [[0, 'store', 7], [1, 'load', 7]], 2, 1, True, None),
    ('now-empty', [[0, 'store', 7], [1, 'load', 7]], 2, 0, False, None),
    ('now-fresh', [[0, 'store', 7], [1, 'load', 7]], 1, 1, False, None),
    ('torn', [[0, 'store', 7], [1, 'load', 7]], 1, 1, True, None),
    ('fresh', [[0, 'store', 7], [1, 'load', 7]], 1, 1, True, None),
    ('otherstamp', [[0, 'store', 7], [1, 'load', 7]], 1, 0, True, None),
    ('emptyfile', [[0, 'store', 7], [1, 'load', 7]], 1, 0, True, None),
    ('stale', [[0, 'store', 7], [1, 'store', 7]], 0, 1, True, None),
    ('nostamp', [[0, 'check', 7], [1, 'check', 8]], 0, 1, True, None),
    ('fresh', [[0, 'load', 8], [1, 'check', 8]], 1, 1, True, None),
    ('stale', [[0, 'store', 7], [1, 'check', 8]], 0, 1, True, None),
    ('stale', [[0, 'store', 7], [1, 'check', 8]], 1, 0, True, None),
]

# scenarios too large to enumerate: uniformly random interleavings of the fixed operations
SAMPLED_THOROUGH = [
    ('stale', [[0, 'store', 7], [1, 'store', 7]], 1, 1),
    ('stale', [[0, 'store', 7], [1, 'load', 7], [2, 'load', 7]], 1, 0),
    ('stale', [[0, 'store', 7], [1, 'store', 7], [2, 'load', 7]], 1, 1),
    ('now-empty', [[0, 'store', 7], [1, 'store', 7], [2, 'load', 7]], 2, 0),
    ('fresh', [[0, 'store', 7], [1, 'load', 7], [2, 'check', 8]], 1, 0),
    ('torn', [[0, 'load', 7], [1, 'load', 7], [2, 'store', 7]], 1, 1),
    ('fresh', [[0, 'store', 8], [1, 'check', 8], [2, 'load', 8]], 1, 1),
    ('stale', [[0, 'store', 7], [1, 'check', 8], [2, 'load', 8]], 0, 1),
    ('nostamp', [[0, 'check', 7], [1, 'check', 8], [2, 'store', 7]], 0, 1),
]

MAXSTEPS = {'store': 11, 'load': 5, 'check': 10}


def sampled_case(rng, name, ops, mods, crashes):
    """a uniformly random merge of the operations' step sequences (spawn of a store = its parse),
    modifications and at most one crash inserted at random positions"""
    seqs = []
    for pid, op, sver in ops:
        seqs.append([['spawn', pid, op, sver]] + [['step', pid]] * MAXSTEPS[op])
    pool = [i for i, q in enumerate(seqs) for _ in q]
    rng.shuffle(pool)
    pos = [0] * len(seqs)
    evs = []
    for i in pool:
        evs.append(seqs[i][pos[i]])
        pos[i] += 1
    for _ in range(mods):
        evs.insert(rng.randint(0, len(evs)), ['replace', rng.choice([1, 3, 5, 6, 10, 12])] if rng.random() < 0.1
                   else ['modify', rng.random() < 0.85])
    if crashes and rng.random() < 0.5:
        pid = rng.choice(ops)[0]
        first = [i for i, e in enumerate(evs) if e[0] == 'spawn' and e[1] == pid][0]
        evs.insert(rng.randint(first + 1, len(evs)), ['crash', pid])
    return {'init': INITS[name], 'evs': with_late_load(evs, ops[-1][2])}


def solo_steps(ex, init, op, sver):
    """the system calls one operation performs when it runs alone from `init` (measured on the real code, so
    that the directed schedules below follow the code when an operation gains or loses a step)"""
    obs = ex.execute(init, [['spawn', 0, op, sver]] + [['step', 0]] * 24)
    return [l for l in obs['trace'] if l != '-']


def directed_cases(ex):
    """Small deterministic families aimed at the windows that uniform sampling hits rarely.

    1. late publish of an old parse (three operations): store A is held back before its last / last two system
       calls; the source is modified; store B completes with the new parse; a loader runs with A's remaining
       calls released before its k-th call, for every k.
    2. change of scanner version: the version check of a new-version scanner is stopped (killed, or merely
       descheduled) after each of its system calls; then a second new-version scanner starts (its own version
       check, then a load)."""
    out = []
    for name in ('empty', 'stale'):
        init = INITS[name]
        n_a = len(solo_steps(ex, init, 'store', 7))
        # (which initial entry a load accepts depends on the freshness test: newer, or equal mtime)
        n_l = max(len(solo_steps(ex, INITS[i], 'load', 7)) for i in ('fresh', 'otherstamp'))
        for held in (1, 2):
            if n_a <= held:
                continue
            for tick in (True, False):
                for k in range(n_l + 1):
                    evs = [['spawn', 0, 'store', 7]] + [['step', 0]] * (n_a - held) + [['modify', tick], ['tick']]
                    evs += [['spawn', 1, 'store', 7]] + [['step', 1]] * (n_a + 2)
                    evs += [['spawn', 2, 'load', 7]] + [['step', 2]] * k + [['step', 0]] * held
                    evs += [['step', 2]] * (n_l + 1 - k)
                    out.append({'init': init, 'evs': with_late_load(evs, 7), 'origin': 'directed:late-publish'})
    for name in ('fresh', 'otherstamp'):
        init = INITS[name]
        n_c = len(solo_steps(ex, init, 'check', 8))
        for j in range(1, n_c + 1):
            for crash in (True, False):
                evs = [['spawn', 0, 'check', 8]] + [['step', 0]] * j + ([['crash', 0]] if crash else [])
                evs += [['spawn', 1, 'check', 8]] + [['step', 1]] * (n_c + 1)
                evs += [['spawn', 2, 'load', 8]] + [['step', 2]] * 6
                if not crash:
                    evs += [['step', 0]] * (n_c + 1 - j)
                out.append({'init': init, 'evs': with_late_load(evs, 8), 'origin': 'directed:version-change'})
    return out


def with_late_load(evs, sver=7):
    """append a sequential load by a fresh process so that what the schedule left behind is observed"""
    pid = 1 + max([e[1] for e in evs if e[0] in ('spawn', 'step', 'crash')] + [0])
    return evs + [['spawn', pid, 'load', sver]] + [['step', pid]] * 5


# ------------------------------------------------------------------------------------------
# "using the cache never changes the emitted GIR"
# ------------------------------------------------------------------------------------------
def gir_cache_equivalence(ctx, ex, cnt):
    """Scan the same declarations against /repo/gir/xft-2.0.gir (which includes xlib-2.0) with the cache
    disabled, cold and warm, through the real (unpatched) pipeline; the three GIRs must be identical and the
    warm run must really have been served from the cache."""
    try:
        import scanpipe
        scanpipe.mods()
        os.environ.pop('GI_SCANNER_DISABLE_CACHE', None)
        girdir = os.path.join(REPO, 'gir')
        inc = os.path.join(girdir, 'xft-2.0.gir')
        if not os.path.exists(inc):
            ctx.notes.append('gir-equivalence: %s missing, not covered' % inc)
            return None
        cfg = {'namespace': 'Foo', 'version': '1.0', 'id_prefixes': ['Foo'], 'sym_prefixes': ['foo'],
               'includes': [inc], 'include_paths': [girdir],
               'decls': [
                   {'d': 'function', 'name': 'foo_draw', 'ret': {'k': 'void'},
                    'params': [{'name': 'dpy', 'type': scanpipe.P(scanpipe.T('Display'))},
                               {'name': 'font', 'type': scanpipe.P(scanpipe.T('XftFont'))},
                               {'name': 'w', 'type': scanpipe.T('Window')}]},
                   {'d': 'struct', 'name': '_FooBox', 'fields': [
                       {'name': 'gc', 'type': scanpipe.T('GC')}, {'name': 'n', 'type': scanpipe.T('int')}]},
                   {'d': 'typedef', 'name': 'FooBox', 'type': {'k': 'struct', 'n': '_FooBox'}}]}
        ex.clean_dirs()
        sys.argv[0] = ex.saved_argv0
        off = scanpipe.scan(dict(cfg, use_cache=False))['gir']
        cold = scanpipe.scan(dict(cfg, use_cache=True))['gir']
        n_entries = len([f for f in os.listdir(ex.cachedir) if not f.startswith('.')])
        loads = []
        real_load = real_pickle.load

        def spy(f, *a, **k):
            r = real_load(f, *a, **k)
            loads.append(type(r).__name__)
            return r
        ex.cs_mod.pickle = type('P', (), {'load': staticmethod(spy), 'dump': staticmethod(real_pickle.dump),
                                         '__getattr__': lambda s, n: getattr(real_pickle, n)})()
        try:
            warm = scanpipe.scan(dict(cfg, use_cache=True))['gir']
        finally:
            ex.cs_mod.pickle = real_pickle
        ok = (off == cold == warm)
        cnt.hit('gir-equivalence:%s' % ('equal' if ok else 'DIFFERENT'))
        res = {'entries_written_cold': n_entries, 'entries_loaded_warm': len(loads), 'bytes': len(off or ''),
               'equal': ok}
        if not ok:
            ctx.report_failure('gir-equivalence:xft-2.0', 'the GIR emitted with a cold / warm / disabled cache '
                               'differs for includes=[gir/xft-2.0.gir]', {'kind': 'gir-equivalence'})
        if n_entries < 2 or len(loads) < 2:
            ctx.notes.append('gir-equivalence: the cache was not exercised (entries=%d, warm loads=%d)'
                             % (n_entries, len(loads)))
        return res
    except (AttributeError, TypeError, ImportError, KeyError) as e:
        ctx.broken.append('correspondence c18.gir-equivalence: scanner pipeline entry points have changed: %r' % (e, ))
        return None
    finally:
        ex.clean_dirs()


# ------------------------------------------------------------------------------------------
# the repaired findings, on real file systems, through the real call site
# ------------------------------------------------------------------------------------------
def regression_replays(ctx, cnt, tags=None):
    """harness/c18_replays.py in a process of its own (it hooks shutil / tempfile / GIRParser): F0-F5 and M1 (several
    source files) must pass without any suppression; R1 is the recorded finding and is expected to reproduce"""
    script = os.path.join(VERIF, 'harness', 'c18_replays.py')
    want = tags or ['F0', 'F1', 'F2', 'F3', 'F4', 'F5', 'M1', 'M2', 'R1']
    try:
        p = subprocess.run([sys.executable, script] + want, stdout=subprocess.PIPE, stderr=subprocess.STDOUT,
                           timeout=300, env=dict(os.environ, GIVERIF_REPO=REPO, PYTHONDONTWRITEBYTECODE='1'))
        out = p.stdout.decode('utf-8', 'replace')
    except subprocess.TimeoutExpired:
        ctx.broken.append('c18_replays.py did not finish within 300 s')
        return {}
    res = {}
    lines = out.splitlines()
    for i, line in enumerate(lines):
        parts = line.split()
        if len(parts) >= 3 and parts[0] in want and parts[1] in ('ok', 'VIOLATED', 'skipped'):
            res[parts[0]] = {'verdict': parts[1], 'key': parts[2],
                             'details': lines[i + 1].strip() if i + 1 < len(lines) else ''}
    for tag in want:
        r = res.get(tag)
        if r is None:
            # the real call site / entry points have changed or the replay crashed: report, keep going
            ctx.broken.append('correspondence c18.replays: replay %s did not run to a verdict: %s' % (tag, out[-600:]))
            continue
        cnt.hit('replay:%s:%s' % (tag, r['verdict']))
        rep = {'kind': 'replay', 'tag': tag}
        if tag == 'F0':
            if r['verdict'] == 'VIOLATED':
                ctx.broken.append('the cache is never hit on an unchanged file (%s): every freshness check is '
                                  'vacuously true' % r['details'])
        elif tag == 'R1':
            if r['verdict'] == 'VIOLATED':
                ctx.report_failure(KEY_SAME, 'real call site, real file system: ' + r['details'], rep)
        elif r['verdict'] == 'VIOLATED':
            ctx.report_failure('replay:%s:%s' % (tag, r['key']),
                               '%s on the real call site and file systems (%s): %s'
                               % ('a load returns the parse of another file' if tag == 'M1'
                                  else 'a repaired finding reproduces', r['key'], r['details']), rep)
        elif r['verdict'] == 'skipped':
            ctx.notes.append('replay %s not covered: %s' % (tag, r['details']))
    return res


# ------------------------------------------------------------------------------------------
# several source files: "a complete parse ... of a version of THAT file"
# ------------------------------------------------------------------------------------------
# The schedules above have one source path (one cache key).  Here several dependency GIRs exist at once, named the
# way a scanner is handed them (--include-uninstalled passes the spelling through unchanged): relative spellings
# that differ only in leading '.' and '/' characters, spellings that are prefixes / suffixes of one another, an
# absolute spelling and the relative spelling that equals it without its leading '/', and several spellings of ONE
# file.  The files may carry the same mtime (install -p, cp -p, tar, SOURCE_DATE_EPOCH).  Operations are sequential
# (each by a scanner process of its own: a new CacheStore()), on the real, unpatched cachestore, in a scratch
# working directory.  What the statement says about load(p): nothing, or the parse of a version of the file that p
# names that was current during the load.  Which spellings share a cache entry is NOT judged (two spellings of one
# file may or may not): only what load returns.
# The working directory may change between the operations of one history (op ['cd', dir]): scanners run from
# different directories share the user's cache, and the same relative spelling then names different files.
MS_CWD = 'a/b/c'
# working directories (relative to the scratch root); 'a/b/c' is the one $ABS / $REL refer to
MS_DIRS = ['a/b/c', 'a/b/d', 'a/b', 'a/b/c/c', 'a/b/c/x']
MS_RELATIVE = ['Dep-1.0.gir', './Dep-1.0.gir', '../Dep-1.0.gir', 'x/Dep-1.0.gir', 'c/Dep-1.0.gir', '../c/Dep-1.0.gir',
               '.Dep-1.0.gir']
MS_NAME = SRC_NAME
# $ABS = the working directory (absolute); $REL = the same string without its leading '/', i.e. a relative spelling
MS_SPELLINGS = [
    'Dep-1.0.gir', './Dep-1.0.gir', '../Dep-1.0.gir', './../Dep-1.0.gir', '../../Dep-1.0.gir', '.././Dep-1.0.gir',
    '.Dep-1.0.gir', '..Dep-1.0.gir', './.Dep-1.0.gir', '../c/Dep-1.0.gir', 'c/Dep-1.0.gir', './c/Dep-1.0.gir',
    'x/Dep-1.0.gir', '.x/Dep-1.0.gir', 'Dep-1.0.gir.orig', 'Dep-1.0', 'p-1.0.gir', 'ep-1.0.gir',
    '$ABS/Dep-1.0.gir', '$REL/Dep-1.0.gir', '$ABS/./Dep-1.0.gir', '//$REL/Dep-1.0.gir', '$ABS/../Dep-1.0.gir',
    '$ABS/x/Dep-1.0.gir', '$REL/x/Dep-1.0.gir',
]
# spellings that a normalisation of the entry name is likely to identify (wrongly or rightly)
MS_GROUPS = [
    ['Dep-1.0.gir', './Dep-1.0.gir', '../Dep-1.0.gir', '../../Dep-1.0.gir', './../Dep-1.0.gir', '.././Dep-1.0.gir'],
    ['Dep-1.0.gir', '.Dep-1.0.gir', '..Dep-1.0.gir', './.Dep-1.0.gir', 'p-1.0.gir', 'ep-1.0.gir'],
    ['Dep-1.0.gir', '../c/Dep-1.0.gir', 'c/Dep-1.0.gir', './c/Dep-1.0.gir', '$ABS/Dep-1.0.gir'],
    ['$ABS/Dep-1.0.gir', '$REL/Dep-1.0.gir', '$ABS/./Dep-1.0.gir', '//$REL/Dep-1.0.gir', 'Dep-1.0.gir'],
    ['x/Dep-1.0.gir', '.x/Dep-1.0.gir', '$ABS/x/Dep-1.0.gir', '$REL/x/Dep-1.0.gir', 'Dep-1.0.gir'],
    ['Dep-1.0.gir', 'Dep-1.0.gir.orig', 'Dep-1.0', '$ABS/../Dep-1.0.gir', '../Dep-1.0.gir'],
]


class MultiSource(object):
    """runs one multi-source case: ops = [['write', spelling, mtime, ns] | ['store', spelling] | ['load', spelling]
    | ['cd', directory relative to the scratch root]]; the case starts in MS_CWD"""

    def __init__(self, ctx, ex):
        self.ctx = ctx
        self.ex = ex
        self.root = os.path.join(ctx.scratch, 'c18', 'ms')
        self.cwd = os.path.join(self.root, MS_CWD)
        self.n = 0

    def spell(self, s):
        return s.replace('$ABS', self.cwd).replace('$REL', self.cwd[1:])

    def reset(self):
        real_shutil.rmtree(self.root, ignore_errors=True)
        os.makedirs(self.cwd)
        self.ex.clean_dirs()
        self.ex.set_argv0(7)
        self.files = {}         # realpath -> {'fid': n, 'ver': current version, 'mtimes': {ver: mtime_ns}}
        self.registry = set()

    def file_of(self, path):
        return self.files.get(os.path.realpath(path))

    def run(self, case):
        """returns the list of judged loads: (index of the op, spelling, verdict, details)"""
        self.n += 1
        cs_mod = self.ex.cs_mod
        out = []
        saved_cwd = os.getcwd()
        self.reset()
        os.chdir(self.cwd)
        try:
            for i, op in enumerate(case['ops']):
                if op[0] == 'cd':
                    d = os.path.join(self.root, op[1])
                    os.makedirs(d, exist_ok=True)
                    os.chdir(d)
                    continue
                path = self.spell(op[1])
                if op[0] == 'write':
                    d = os.path.dirname(path)
                    if d:
                        os.makedirs(d, exist_ok=True)
                    rp = os.path.realpath(path)
                    f = self.files.setdefault(rp, {'fid': len(self.files), 'ver': 0, 'mtimes': {}, 'read': set()})
                    ns = (BASE + op[2]) * 10 ** 9 + op[3]
                    if not (f['ver'] and f['mtimes'][f['ver']] == ns and f['ver'] not in f['read']):
                        # (writing once more, with the same mtime, a version nobody has read is not a new version)
                        f['ver'] += 1
                    f['mtimes'][f['ver']] = ns
                    with open(path, 'w') as fh:
                        fh.write('%d %d\n' % (f['fid'], f['ver']))
                    os.utime(path, ns=(ns, ns))
                    continue
                f = self.file_of(path)
                if f is None:
                    out.append((i, op[1], 'outside:no-such-file', ''))
                    continue
                try:
                    cs = cs_mod.CacheStore()            # one scanner process per operation
                    if op[0] == 'store':
                        # the call site: stat, read, store(spelling as given, parse, mtime)
                        st = os.stat(path)
                        with open(path) as fh:
                            fid, ver = [int(x) for x in fh.read().split()]
                        f['read'].add(ver)
                        data = Parse((fid, ver), 7, i)
                        self.registry.add(data.ident())
                        if self.ex.store_takes_mtime:
                            cs.store(path, data, st.st_mtime_ns if self.ex.store_takes_ns else st.st_mtime)
                        else:
                            cs.store(path, data)
                        continue
                    r = cs.load(path)
                except Exception as e:      # noqa
                    out.append((i, op[1], 'raised', '%s(%r) raised %r' % (op[0], op[1], e)))
                    continue
                if r is None:
                    out.append((i, op[1], 'none', ''))
                elif not isinstance(r, Parse) or r.ident() not in self.registry:
                    out.append((i, op[1], 'foreign', 'load(%r) returned %r which no store wrote' % (op[1], r)))
                elif r.data[0] != f['fid']:
                    other = [p for p, g in self.files.items() if g['fid'] == r.data[0]]
                    out.append((i, op[1], 'other-file',
                                'load(%r) returned the parse stored by operation %d, which is version %d of ANOTHER file '
                                '(%s), not a version of the file %r names (%s); both carry mtime_ns %d'
                                % (op[1], r.op, r.data[1], os.path.relpath(other[0], self.cwd) if other else '?', op[1],
                                   os.path.relpath(os.path.realpath(path), self.cwd), f['mtimes'][f['ver']])))
                elif r.data[1] != f['ver']:
                    ms = list(f['mtimes'].values())
                    out.append((i, op[1], 'stale:one-mtime' if len(set(ms)) < len(ms) else 'stale',
                                'load(%r) returned parse(v%d) of its file whose current version is v%d (mtimes of its '
                                'versions: %s)' % (op[1], r.data[1], f['ver'], ms)))
                else:
                    out.append((i, op[1], 'fresh-ok', ''))
        finally:
            os.chdir(saved_cwd)
        return out


def ms_directed():
    """for every spelling p: all files exist with ONE mtime; store(p); then load of every spelling"""
    cases = []
    setup_ops = [['write', s, 5, 0] for s in MS_SPELLINGS]
    for p in MS_SPELLINGS:
        cases.append({'ops': setup_ops + [['store', p]] + [['load', q] for q in MS_SPELLINGS],
                      'origin': 'directed'})
    # minimal forms: two spellings only (what a shrunk replay looks like)
    for g in MS_GROUPS:
        for p, q in itertools.permutations(g[:4], 2):
            cases.append({'ops': [['write', p, 5, 0], ['write', q, 5, 0], ['store', p], ['load', q], ['load', p]],
                          'origin': 'directed:pair'})
    # one relative spelling, two working directories in which it names two files carrying one mtime: a scanner
    # run in A stores, a scanner run in B loads (and then one in A again)
    for a, b in itertools.permutations(MS_DIRS, 2):
        for p in MS_RELATIVE:
            cases.append({'ops': [['cd', a], ['write', p, 5, 0], ['cd', b], ['write', p, 5, 0], ['cd', a], ['store', p],
                                  ['cd', b], ['load', p], ['store', p], ['load', p], ['cd', a], ['load', p]],
                          'origin': 'directed:two-cwds'})
    return cases


def ms_random(rng):
    g = list(rng.choice(MS_GROUPS))
    if rng.random() < 0.4:
        g += rng.sample(MS_SPELLINGS, 2)
    rng.shuffle(g)
    names = g[:rng.choice([2, 3, 3, 4, 5])]
    pool = rng.choice([[5], [5, 5, 6], [3, 5, 8], [5]])
    nsp = rng.choice([[0], [0], [0, 1, 999999999], [123456789]])
    ops = [['write', s, rng.choice(pool), rng.choice(nsp)] for s in names]
    dirs = [MS_CWD]
    if rng.random() < 0.5:
        # several working directories: every name exists in each of them (absolute spellings: the same file again)
        dirs = [MS_CWD] + rng.sample(MS_DIRS[1:], rng.choice([1, 1, 2]))
        names = [s for s in names if not s.startswith('$REL')] or ['Dep-1.0.gir']
        ops = []
        for d in dirs:
            ops.append(['cd', d])
            ops.extend(['write', s, rng.choice(pool), rng.choice(nsp)] for s in names)
        ops.append(['cd', MS_CWD])
    nxt = 20
    for _ in range(rng.choice([3, 5, 8, 12])):
        r = rng.random()
        s = rng.choice(names)
        if len(dirs) > 1 and rng.random() < 0.5:
            ops.append(['cd', rng.choice(dirs)])
        if r < 0.4:
            ops.append(['store', s])
        elif r < 0.8:
            ops.append(['load', s])
        elif r < 0.9:
            # a new version of one file; its mtime is new for THAT file (strictly increasing), so that the recorded
            # class (two versions of one file with one mtime) is not what is being looked at here
            nxt += 1
            ops.append(['write', s, nxt, rng.choice(nsp)])
        else:
            # ... but it may be the mtime another file already carries: all files are brought to one new mtime
            nxt += 1
            ops.extend(['write', t, nxt, 0] for t in names)
    for d in dirs:
        if len(dirs) > 1:
            ops.append(['cd', d])
        ops.extend(['load', s] for s in names)
    return {'ops': ops, 'origin': 'random' if len(dirs) == 1 else 'random:several-cwds'}


def ms_shrink(ms, case, verdict):
    """drop operations while the same verdict is still produced"""
    ops = list(case['ops'])
    changed = True
    while changed and len(ops) > 2:
        changed = False
        for i in range(len(ops) - 1, -1, -1):
            cand = ops[:i] + ops[i + 1:]
            if any(v == verdict for _i, _s, v, _d in ms.run({'ops': cand})):
                ops = cand
                changed = True
    return {'ops': ops}


MS_BAD = ('raised', 'foreign', 'other-file', 'stale', 'stale:one-mtime')


def ms_judge(ctx, cnt, ms, case, shrink=True, report=True):
    res = ms.run(case)
    bad = [x for x in res if x[2] in MS_BAD]
    for _i, _s, v, _d in res:
        cnt.hit('multi-source:load:' + v)
    if not bad:
        return res
    if not report:
        cnt.hit('multi-source:further-failing-case-not-reported-one-by-one')
        return res
    first = bad[0]
    small = ms_shrink(ms, case, first[2]) if shrink else {'ops': case['ops']}
    again = [x for x in ms.run(small) if x[2] == first[2]]
    details = again[0][3] if again else first[3]
    replay = {'kind': 'multi-source', 'ops': small['ops']}
    if first[2] == 'stale:one-mtime':
        ctx.report_failure(KEY_SAME, 'several source files, real CacheStore: ' + details, replay)
    else:
        key = 'multi-source:' + json.dumps(small['ops'], separators=(',', ':'))
        ctx.report_failure(key, 'several source files, real CacheStore, cwd=<scratch>/%s, ops=%s: %s'
                           % (MS_CWD, json.dumps(small['ops']), details), replay)
    return res


def multi_source(ctx, ex, cnt):
    """every run: the directed family + random operation sequences; returns the coverage record"""
    ms = MultiSource(ctx, ex)
    sys.argv[0] = ex.saved_argv0
    cases = ms_directed() + [ms_random(ctx.rng) for _ in range(ctx.n(300, 6000))]
    reported = 0
    t0 = time.time()
    hits = 0
    shared = set()
    for c in cases:
        cnt.hit('multi-source:' + c['origin'])
        # (the first three failing cases are shrunk and reported with their replay, the others are counted)
        res = ms_judge(ctx, cnt, ms, c, report=reported < 3)
        if any(x[2] in MS_BAD for x in res):
            reported += 1
        hits += sum(1 for x in res if x[2] == 'fresh-ok')
        cnt.case(['multi-source', c['ops']], nontrivial=any(x[2] == 'fresh-ok' for x in res))
    # the entry-name function, through the public surface: which file appears in the cache directory for a store
    # of spelling p by a process whose working directory is d.  The model's assumption (Lean: hinj): a name that
    # distinct ABSOLUTE NORMALISED paths do not share: sha1 of os.path.abspath(p) in d, i.e. of
    # normpath(join(d, p)) ('.', '..', '//' inside a path are normalised away, symlinks are not resolved)
    import hashlib
    names = {}
    mismatch = []
    pairs = [(MS_CWD, p) for p in MS_SPELLINGS] + [(d, p) for d in MS_DIRS[1:] for p in MS_RELATIVE]
    for d, p in pairs:
        ms.run({'ops': [['cd', d], ['write', p, 5, 0], ['store', p]]})
        ent = sorted(f for f in os.listdir(ex.cachedir) if not f.startswith('.'))
        absolute = os.path.normpath(os.path.join(ms.root, d, ms.spell(p)))
        want = hashlib.sha1(absolute.encode('utf-8')).hexdigest()
        names[(d, p)] = (ent, os.path.realpath(absolute))
        if ent != [want]:
            mismatch.append((d, p, ent))
    if mismatch:
        ctx.broken.append('correspondence c18.entry-name: a store of %r from working directory <scratch>/%s leaves %s in '
                          'the cache directory, the model assumes exactly one entry named sha1(os.path.abspath(path)) '
                          '(an injective function of the absolute normalised path); %d of %d (directory, spelling) '
                          'pairs differ' % (mismatch[0][1], mismatch[0][0], mismatch[0][2], len(mismatch), len(pairs)))
    n_same_file_shared = 0
    for x, y in itertools.combinations(pairs, 2):
        if names[x][0] and names[x][0] == names[y][0]:
            if names[x][1] == names[y][1]:
                n_same_file_shared += 1         # two spellings of one file: sharing is right
            else:
                shared.add(('%s:%s' % x, '%s:%s' % y))
    ex.clean_dirs()
    real_shutil.rmtree(ms.root, ignore_errors=True)
    if hits == 0:
        ctx.notes.append('multi-source: no load was served from the cache (the clause is vacuously true)')
    return {'cases': len(cases), 'runs_including_shrinking': ms.n, 'loads_served_from_cache': hits,
            'spellings': len(MS_SPELLINGS), 'working_directories': len(MS_DIRS),
            'spellings_of_one_file_sharing_an_entry': n_same_file_shared,
            'different_files_sharing_an_entry': sorted(shared)[:10],
            'seconds': round(time.time() - t0, 1)}


# ------------------------------------------------------------------------------------------
def load_corpus():
    out = []
    cpath = os.path.join(VERIF, 'corpus', 'C18')
    if os.path.isdir(cpath):
        for fn in sorted(os.listdir(cpath)):
            if fn.endswith('.json'):
                with open(os.path.join(cpath, fn)) as f:
                    for c in json.load(f):
                        c['origin'] = 'corpus:' + fn
                        out.append(c)
    return out


def setup(ctx):
    if REPO not in sys.path:
        sys.path.insert(0, REPO)
    os.environ.pop('GI_SCANNER_DISABLE_CACHE', None)
    from giscanner import cachestore
    return cachestore


def run_cases(ctx, ex, cnt, cases, state, deadline):
    """execute on the real code, run the model, compare, judge; returns how many were run
    (stops at the deadline)"""
    ran = 0
    for k in range(0, len(cases), 250):
        if deadline is not None and time.time() > deadline:
            ctx.notes.append('time budget: %d of %d cases of a batch not run' % (len(cases) - ran, len(cases)))
            break
        chunk = cases[k:k + 250]
        _run_chunk(ctx, ex, cnt, chunk, state)
        ran += len(chunk)
    return ran


def _run_chunk(ctx, ex, cnt, cases, state):
    model = ctx.driver.batch([{'op': 'c18.run', 'init': c['init'], 'evs': c['evs']} for c in cases])
    for c, m in zip(cases, model):
        obs = ex.execute(c['init'], c['evs'])
        obs['_registry'] = list(ex.registry)
        state['n'] += 1
        a, b = canon_impl(obs), canon_model(m)
        labels = [l for l in obs['trace'] if l != '-']
        cnt.case([c['init'], c['evs']], nontrivial=len(labels) >= 3)
        for l in labels:
            cnt.hit('syscall:' + l)
        for _pid, st in a['procs']:
            cnt.hit('outcome:' + st['status'] + (':value' if st.get('ret') else ''))
        cnt.hit('distinct_mtimes:%s' % m['distinct_mtimes'])
        for kind in set(e[0] if e[0] != 'modify' else 'modify:%s' % ('tick' if e[1] else 'same-granule')
                        for e in c['evs'] if e[0] in ('modify', 'replace', 'crash')):
            cnt.hit('case-with:' + kind)
        if a != b:
            state['disagree'] += 1
            if state['disagree'] <= 3:
                diff = [k for k in a if a[k] != b[k]]
                ctx.broken.append('correspondence c18.run differs in %s: init=%s evs=%s impl=%s model=%s'
                                  % (diff, json.dumps(c['init']), json.dumps(c['evs']),
                                     json.dumps(dict((k, a[k]) for k in diff)),
                                     json.dumps(dict((k, b[k]) for k in diff))))
            state['disagreeing'].append(c)
        if obs['stray_in_cachedir']:
            cnt.hit('stray-file-in-cachedir')
        reported = oracle(ctx, cnt, c, obs)
        # the classifier of the recorded class and the hypothesis of C18_fresh_partial must agree: a history routed
        # to the known finding has two versions with one mtime, i.e. violates histDistinctMtimes
        if KEY_SAME in reported and m['distinct_mtimes']:
            ctx.broken.append('the oracle routed a stale load to %s on a history that satisfies histDistinctMtimes: %s'
                              % (KEY_SAME, json.dumps(c)))
        # the model's own verdict must agree with the theorem: a stale value on a history the partial theorem
        # covers would contradict the proof
        for _pid, st in b['procs']:
            r = st.get('ret')
            if r and m['distinct_mtimes'] and not (r['v_start'] <= r['data'] <= r['v_end']) \
                    and init_is_fresh(c['init']):
                ctx.broken.append('model returns a stale parse on a history satisfying the hypotheses of '
                                  'C18_fresh_partial: %s' % json.dumps(c))
        if len(state['samples']) < 4 and len(labels) >= 6:
            state['samples'].append({'init': c['init'], 'evs': c['evs'], 'impl': a})


def init_is_fresh(init):
    """the initial entry is not a complete stale parse that carries the source's current mtime (Lean: InitF)"""
    e = init.get('entry')
    if not e:
        return True
    d, _sv, ln, mt = e
    return not (ln == 2 and mt == init['src_mtime'] and d != init['ver'])


def neighbours(case):
    """shrunk variants of a disagreeing schedule for the failing-input search"""
    evs = case['evs']
    out = []
    for i in range(len(evs)):
        if evs[i][0] != 'spawn':
            out.append({'init': case['init'], 'evs': evs[:i] + evs[i + 1:]})
    for i in range(len(evs) - 1):
        if evs[i][0] != 'spawn' and evs[i + 1][0] != 'spawn':
            out.append({'init': case['init'], 'evs': evs[:i] + [evs[i + 1], evs[i]] + evs[i + 2:]})
    return out[:80]


def run(ctx):
    cnt = Counter()
    for p in PENDING_FINDINGS:
        ctx.known.append(dict(p, status='known', property='C18'))
    ctx.prove(['gen_cache'], ['GIVerif.Props.C18'], 'GIVerif.Props.C18')
    ctx.log('proofs rebuilt and audited: %s' % ('ok' if not ctx.broken else ctx.broken))
    cachestore = setup(ctx)
    if not hasattr(cachestore, 'CacheStore') or not all(hasattr(cachestore.CacheStore, n) for n in ('store', 'load')):
        ctx.broken.append('correspondence c18.run: giscanner.cachestore.CacheStore.store/load no longer exist')
        ctx.coverage.update({'evaluations': 0, 'distinct_nontrivial': 0, 'rule': 'nothing could be run', 'samples': []})
        return
    ex = Executor(ctx, cachestore)
    state = {'n': 0, 'disagree': 0, 'disagreeing': [], 'samples': []}
    # the search budget starts after the proof step (whose duration is mostly waiting for the
    # shared lake lock when other checks run at the same time)
    deadline = time.time() + ctx.n(52, 720)
    gir = None
    ex.install()
    try:
        if ex.unpatched:
            ctx.broken.append('correspondence c18.run: giscanner.cachestore no longer imports %s; its system calls '
                              'cannot be scheduled' % ex.unpatched)
        # ---- corpus first
        corpus = load_corpus()
        run_cases(ctx, ex, cnt, corpus, state, None)
        ctx.log('corpus: %d cases' % len(corpus))
        cnt.hit('corpus', len(corpus))
        # ---- directed schedules (step counts measured on the real code)
        directed = directed_cases(ex)
        run_cases(ctx, ex, cnt, directed, state, None)
        for c in directed:
            cnt.hit(c['origin'])
        # ---- exhaustive interleavings (enumerated by the model, each confirmed on the real code)
        scen = list(ENUM_QUICK) + (list(ENUM_THOROUGH) if ctx.tier == 'thorough' else [])
        exhaustive_done = []
        for name, ops, mods, crashes, tick, cap in scen:
            if time.time() > deadline - ctx.n(12, 200):
                ctx.notes.append('time budget: enumeration stopped before scenario %s %s' % (name, ops))
                break
            init = INITS[name]
            limit = ctx.n(30000, 120000)
            scheds = ctx.driver.call('c18.enum', init=init, ops=ops, mods=mods, crashes=crashes, tick=tick,
                                     limit=limit)
            total = len(scheds)
            complete = total < limit
            if ctx.tier == 'thorough':
                cap = 12000
            if cap is not None and total > cap:
                scheds = ctx.rng.sample(scheds, cap)
                complete = False
            cases = [{'init': init, 'evs': with_late_load(evs, ops[-1][2])} for evs in scheds]
            t1 = time.time()
            ran = run_cases(ctx, ex, cnt, cases, state, deadline)
            exhaustive_done.append({'init': name, 'ops': [o[1] + '@%d' % o[2] for o in ops], 'modifications': mods,
                                    'crashes': crashes, 'tick': tick, 'interleavings': total if total < limit
                                    else '>=%d' % limit, 'executed': ran, 'all': complete and ran == total,
                                    'seconds': round(time.time() - t1, 1)})
        if ctx.tier == 'thorough':
            for name, ops, mods, crashes in SAMPLED_THOROUGH:
                cases = [sampled_case(ctx.rng, name, ops, mods, crashes) for _ in range(6000)]
                ran = run_cases(ctx, ex, cnt, cases, state, deadline - 60)
                cnt.hit('sampled:%s:%s' % (name, '+'.join(o[1] for o in ops)), ran)
        ctx.log('enumerated scenarios done: %d cases so far' % state['n'])
        # ---- random schedules of up to three operations
        n_rand = ctx.n(600, 30000)
        done_rand = run_cases(ctx, ex, cnt, [random_case(ctx.rng) for _ in range(n_rand)], state, deadline)
        cnt.hit('random', done_rand)
        ctx.log('random schedules done: %d cases so far, %d disagreements' % (state['n'], state['disagree']))
        # ---- failing-input search around disagreements
        for c in state['disagreeing'][:4]:
            for nb in neighbours(c):
                obs = ex.execute(nb['init'], nb['evs'])
                obs['_registry'] = list(ex.registry)
                oracle(ctx, cnt, nb, obs)
                cnt.hit('search:neighbour')
    finally:
        ex.uninstall()
    # ---- several source files under spellings that resemble one another (real, unpatched CacheStore)
    multi = multi_source(ctx, ex, cnt)
    ctx.log('multi-source: %s' % multi)
    # ---- the repaired findings and the recorded one on real file systems (subprocess, nothing patched here)
    replays = regression_replays(ctx, cnt)
    ctx.log('replays on real file systems: %s' % dict((k, v['verdict']) for k, v in sorted(replays.items())))
    # ---- cache on/off equivalence of the emitted GIR (real pipeline, nothing patched)
    try:
        gir = gir_cache_equivalence(ctx, ex, cnt)
    finally:
        sys.argv[0] = ex.saved_argv0
    ctx.coverage.update({
        'evaluations': state['n'] + cnt.counts.get('search:neighbour', 0),
        'distinct_nontrivial': cnt.n_distinct(),
        'rule': 'a case = initial cache state (empty / fresh / stale / torn / equal-mtime / unstamped entry) + a '
                'schedule of events (spawn store|load|check with a scanner version, one system call of a process, '
                'crash of a process, source modification with or without a clock tick, replacement of the source by a '
                'file carrying a given (older) mtime, tick). Exhaustive part: all '
                'maximal interleavings enumerated by the model for the listed scenarios, each followed by a '
                'sequential observer load; directed part: two schedule families with step counts measured on the real '
                'code; random part: up to three concurrent operations + a late load. Every case '
                'is executed on the real CacheStore under the controlled scheduler and by the Lean step function, '
                'compared on system-call trace, per-operation outcome, load results (value, mtimes seen, version '
                'interval), final entry / stamp / temp files; the statement oracle judges the real results. '
                'Multi-source part (every run): several dependency GIRs existing at once under spellings that differ '
                'only in leading . and / characters, are prefixes / suffixes of one another, an absolute spelling and '
                'the relative one equal to it without its leading /, several spellings of one file, files carrying '
                'one mtime, and a working directory that changes between operations (one relative spelling naming '
                'two files from two directories); sequential cd / write / store / load on the real unpatched '
                'CacheStore in scratch working directories; load(p) must return nothing or the parse of the current '
                'version of the file p names in the working directory of the load. Entry name = '
                'sha1(os.path.abspath(path)) is checked through the public surface (c18.entry-name). '
                'non-trivial = at least three system calls were executed; distinct by content hash.',
        'samples': state['samples'],
        'distribution': cnt.counts,
        'exhaustive_scenarios': exhaustive_done,
        'exhaustive': False,
        'traces_validated_against_impl': state['n'] - state['disagree'],
        'disagreements': state['disagree'],
        'gir_cache_equivalence': gir,
        'replays_on_real_file_systems': replays,
        'multi_source': multi,
        'notes': ctx.notes,
        'pending_findings': [p['key'] for p in PENDING_FINDINGS],
    })
    ctx.assumptions.extend([
        'POSIX file-system semantics: rename is atomic, an open file survives unlink/rename, stat returns the mtime '
        'last set (exercised on the real scratch file system by the executor, not proved)',
        'the temporary file of a store is created in the cache directory (checked: a temporary file found in TMPDIR is '
        'reported as a stray file and disagrees with the model) under a name that does not collide with an earlier '
        'one; the executor makes these names increase with creation so that a purge lists them in creation order',
        'the temporary file of the version stamp is created in TMPDIR, assumed on the same file system as the cache '
        'directory (shutil.move = one rename); a stamp copied across devices is not explored (it can only cause '
        'additional purges)',
        'the call site is driven as Transformer._parse_include drives it: os.stat of the source at spawn, the read of '
        'the source as one atomic step, store(filename, parse, mtime); the real call site is exercised by '
        'harness/c18_replays.py and by the cold/warm GIR equivalence run',
        'one system call = one atomic step; pickle.load is one step (a reader is never interleaved inside a read); '
        'pickle.dump is two write steps',
        'pickle: a complete serialisation unpickles, a strict prefix never does (checked on every torn file the '
        'executor produces)',
        'the source file exists throughout; its mtime is either the time of its last modification (event modify) or '
        'a time the new file carries with it (event replace, e.g. an installed file with its build time preserved)',
        'mtimes are set from a logical clock with os.utime; real timestamp granularity enters only through the '
        'modify-without-tick event; the mtime comparison is exact (whole seconds of the logical clock, no float '
        'rounding: the code compares st_mtime_ns)',
        'ENOSPC / EACCES branches of store (mkstemp, dump, utime/replace) and _check_cache_version are not exercised',
        'the scanner version is steered through the mtime of sys.argv[0] (an input of _get_versionhash)',
    ])


def replay(ctx, rep):
    for p in PENDING_FINDINGS:
        ctx.known.append(dict(p, status='known', property='C18'))
    r = rep.get('replay') or {}
    if r.get('kind') == 'replay':
        cnt = Counter()
        res = regression_replays(ctx, cnt, [r['tag']])
        print(json.dumps(res, indent=1))
        for h in ctx.known_hits:
            print('KNOWN-FINDING: property=C18 %s [%s]' % (h['what'], h['key']))
        for v in ctx.violations:
            print('VIOLATION property=C18 %s' % v['what'])
        return 1 if ctx.violations else 0
    if r.get('kind') == 'multi-source':
        cachestore = setup(ctx)
        ex = Executor(ctx, cachestore)
        cnt = Counter()
        try:
            res = ms_judge(ctx, cnt, MultiSource(ctx, ex), {'ops': r['ops']}, shrink=False)
        finally:
            sys.argv[0] = ex.saved_argv0
        print(json.dumps(res, indent=1))
        for h in ctx.known_hits:
            print('KNOWN-FINDING: property=C18 %s [%s]' % (h['what'], h['key']))
        for v in ctx.violations:
            print('VIOLATION property=C18 %s' % v['what'])
        return 1 if ctx.violations else 0
    if r.get('kind') != 'schedule':
        print('nothing to replay: %s' % (rep.get('no_longer_checks') or r, ))
        return 2
    cachestore = setup(ctx)
    ex = Executor(ctx, cachestore)
    cnt = Counter()
    ex.install()
    try:
        obs = ex.execute(r['init'], r['evs'])
        obs['_registry'] = list(ex.registry)
        print(json.dumps(canon_impl(obs), indent=1))
        oracle(ctx, cnt, {'init': r['init'], 'evs': r['evs']}, obs)
    finally:
        ex.uninstall()
    for h in ctx.known_hits:
        print('KNOWN-FINDING: property=C18 %s [%s]' % (h['what'], h['key']))
    for v in ctx.violations:
        print('VIOLATION property=C18 %s' % v['what'])
    return 1 if ctx.violations else 0
