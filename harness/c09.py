"""C09 — The repository API and g-ir-generate report what the typelib contains.

Proof: lean/GIVerif/Props/C09.lean over the model lean/GIVerif/Model/InfoAccess.lean (offset
arithmetic of every section accessor = sequential layout; attribute find-first / iteration for
every choice bsearch may make; simple-vs-complex type decoding; blob sizes pinned by `decide`
over the generated layout table).

Tie, for every generated GIR compiled with /repo's real g-ir-compiler:
 (1) cdrivers/c09_walk.c dumps everything the PUBLIC API reports (real libgirepository objects
     built this run);
 (2) the Lean driver prints the dump its accessor model computes from the same bytes; both are
     compared line by line (correspondence);
 (3) statement oracle, independent of the model and of the typelib bytes: the expected dump is
     derived from the source GIR text (ElementTree) and compared with the walker's dump;
 (4) g-ir-generate's output is parsed with ElementTree into the same API lines and compared with
     the API of the source GIR (girwriter.c is NOT modelled: validated, not proved).

Normalisation used by (3)/(4) — what the typelib format does not store or the GIR dialect of
g-ir-generate spells differently — is documented at class `Api` and in ctx.assumptions.

PENDING_FINDINGS is empty.  corpus/C09/hand_picked.json holds, as regressions that must pass without any
suppression, one minimal GIR per defect this check found and /repo repaired (compiler: `repaired-compiler-constructs`,
`repaired-compiler-constructs-2`, `hidden-and-shadowed`, `union-callback-member-then-method`; API / g-ir-generate:
`union-deprecated`, `enum-with-methods`, `foreign-record-with-attributes`, `constant-deprecated-and-instance-transfer`,
`nullable-out-parameter`, `boxed-entry`).
"""
import json
import os
import re
import struct
import subprocess
import xml.etree.ElementTree as ET
from xml.sax.saxutils import quoteattr

from core import REPO, VERIF, Counter, HarnessError

CORE = 'http://www.gtk.org/introspection/core/1.0'
CNS = 'http://www.gtk.org/introspection/c/1.0'
GLIB = 'http://www.gtk.org/introspection/glib/1.0'

# Failing inputs of the UNCHANGED tree: none left.  (Every defect this check found in gibaseinfo.c, gistructinfo.h and
# girwriter.c has been repaired in /repo; their minimal GIRs are regression cases in corpus/C09/hand_picked.json.)
PENDING_FINDINGS = {}

# ------------------------------------------------------------------------------------------
# type vocabulary
# ------------------------------------------------------------------------------------------
TAGS = {'void': 0, 'boolean': 1, 'int8': 2, 'uint8': 3, 'int16': 4, 'uint16': 5, 'int32': 6, 'uint32': 7,
        'int64': 8, 'uint64': 9, 'float': 10, 'double': 11, 'gtype': 12, 'utf8': 13, 'filename': 14,
        'array': 15, 'interface': 16, 'glist': 17, 'gslist': 18, 'ghash': 19, 'error': 20, 'unichar': 21}
# GIR basic type name -> (tag, pointer)   [girparser.c basic_types + integer_aliases on x86-64]
BASIC = {
    'none': (0, 0), 'gpointer': (0, 1), 'gboolean': (1, 0), 'gint8': (2, 0), 'guint8': (3, 0),
    'gint16': (4, 0), 'guint16': (5, 0), 'gint32': (6, 0), 'guint32': (7, 0), 'gint64': (8, 0),
    'guint64': (9, 0), 'gfloat': (10, 0), 'gdouble': (11, 0), 'GType': (12, 0), 'utf8': (13, 1),
    'filename': (14, 1), 'gunichar': (21, 0),
    'gchar': (2, 0), 'guchar': (3, 0), 'gshort': (4, 0), 'gushort': (5, 0), 'gint': (6, 0), 'guint': (7, 0),
    'glong': (8, 0), 'gulong': (9, 0), 'gssize': (8, 0), 'gsize': (9, 0), 'gintptr': (8, 0), 'guintptr': (9, 0),
}
# names g-ir-generate prints for basic tags (g_type_tag_to_string)
GEN_BASIC = {'gboolean': (1, 0), 'gint8': (2, 0), 'guint8': (3, 0), 'gint16': (4, 0), 'guint16': (5, 0),
             'gint32': (6, 0), 'guint32': (7, 0), 'gint64': (8, 0), 'guint64': (9, 0), 'gfloat': (10, 0),
             'gdouble': (11, 0), 'GType': (12, 0), 'utf8': (13, 1), 'filename': (14, 1), 'gunichar': (21, 0),
             'none': (0, 0), 'any': (0, 1)}
KIND = {'function': 1, 'callback': 2, 'record': 3, 'boxed': 4, 'enumeration': 5, 'bitfield': 6, 'class': 7,
        'interface': 8, 'constant': 9, 'union': 11}
ARRAY_TYPES = {None: 0, 'GLib.Array': 1, 'GLib.PtrArray': 2, 'GLib.ByteArray': 3}


def q(tag):
    return '{%s}%s' % (CORE, tag)


def cq(tag):
    return '{%s}%s' % (CNS, tag)


def gq(tag):
    return '{%s}%s' % (GLIB, tag)


# ------------------------------------------------------------------------------------------
# GIR generator (text).  Everything random comes from `rng`.
# ------------------------------------------------------------------------------------------
ATTR_VALUE_CHARS = 'abcXYZ019 _-.:;,/+*()[]{}!?#%&<>\'"=~'


class Gen(object):
    """Builds one GIR: support entries (so that references resolve) + the containers under test."""

    def __init__(self, rng, ns, use_base, attr_rate=0.35):
        self.rng = rng
        self.ns = ns
        self.use_base = use_base
        self.attr_rate = attr_rate
        self.uid = 0
        self.out = []
        self.ifaces = []       # local interface names usable in <implements>/<prerequisite>
        self.classes = []
        self.records = []
        self.enums = []
        self.callbacks = []
        self.aliases = []      # (name, target basic type)
        self.unions = []
        self.stats = Counter()

    # ---- helpers
    def deprecated(self, p):
        """deprecated="1" with probability p; now and then an explicit deprecated="0" (means: not deprecated)"""
        r = self.rng.random()
        if r < p:
            return ' deprecated="1"'
        if r < p + 0.03:
            self.stats.hit('deprecated=0')
            return ' deprecated="0"'
        return ''

    def name(self, prefix):
        self.uid += 1
        return '%s%d' % (prefix, self.uid)

    def attrs(self, indent, force=None):
        """0..3 <attribute> children with distinct names (several per node / none)."""
        rng = self.rng
        if force is None:
            if rng.random() > self.attr_rate:
                return ''
            n = rng.choice([1, 1, 2, 3])
        else:
            n = force
        names = rng.sample(['doc.note', 'org.x.k', 'a', 'since-hint', 'c09:x', 'zz.last', 'k.1', 'k.2'], n)
        s = ''
        for nm in names:
            val = ''.join(rng.choice(ATTR_VALUE_CHARS) for _ in range(rng.randint(0, 8))).strip()
            val = re.sub(r'  +', ' ', val)
            s += '%s<attribute name=%s value=%s/>\n' % (indent, quoteattr(nm), quoteattr(val))
        self.stats.hit('attrs:%d' % n)
        return s

    def iface_ref(self, kinds=('class', 'record', 'enum', 'callback', 'iface', 'union')):
        """(qualified-or-local name, c:type) of some referencable entry"""
        rng = self.rng
        pool = []
        if 'class' in kinds:
            pool += [(n, 'T%s*' % n) for n in self.classes]
        if 'iface' in kinds:
            pool += [(n, 'T%s*' % n) for n in self.ifaces]
        if 'record' in kinds:
            pool += [(n, 'T%s*' % n) for n in self.records]
        if 'union' in kinds:
            pool += [(n, 'T%s*' % n) for n in self.unions]
        if 'enum' in kinds:
            pool += [(n, 'T%s' % n) for n in self.enums]
        if 'callback' in kinds:
            pool += [(n, 'T%s' % n) for n in self.callbacks]
        if self.use_base:
            if 'class' in kinds:
                pool.append(('B.Obj', 'BObj*'))
            if 'iface' in kinds:
                pool.append(('B.Ifc', 'BIfc*'))
            if 'record' in kinds:
                pool.append(('B.Rec', 'BRec*'))
            if 'enum' in kinds:
                pool.append(('B.En', 'BEn'))
            if 'callback' in kinds:
                pool.append(('B.Cb', 'BCb'))
        return rng.choice(pool) if pool else None

    def alias(self):
        """<alias>: not stored in the typelib (nor are its <attribute> children); types naming it resolve to its target"""
        nm = self.name('Al')
        target = self.rng.choice(['gint', 'guint8', 'gdouble', 'utf8'])
        at = self.attrs('      ', force=self.rng.choice([0, 1, 2]))
        self.out.append(('alias', nm, '    <alias name="%s" c:type="T%s">\n%s      <type name="%s" c:type="%s"/>\n    </alias>\n' % (
            nm, nm, at, target, 'gchar*' if target == 'utf8' else target)))
        self.aliases.append((nm, target))
        self.stats.hit('alias')

    def simple_type(self, nested=False):
        rng = self.rng
        r = rng.random()
        if self.aliases and r < 0.04:
            nm, _ = rng.choice(self.aliases)
            self.stats.hit('type:alias')
            return ('t', nm, rng.choice(['T' + nm, None]), [])
        if r < 0.55:
            nm = rng.choice(['gint', 'guint', 'gboolean', 'gint8', 'guint8', 'gint16', 'guint16', 'gint32', 'guint32',
                             'gint64', 'guint64', 'gfloat', 'gdouble', 'GType', 'gunichar', 'glong', 'gulong', 'gsize',
                             'gssize', 'gchar', 'guchar', 'gshort', 'gushort'])
            ctype = nm if rng.random() < 0.85 else nm + '*'
            return ('t', nm, None if (nested and rng.random() < 0.5) else ctype, [])
        if r < 0.7:
            nm = rng.choice(['utf8', 'filename'])
            return ('t', nm, rng.choice(['gchar*', 'const gchar*', 'char*', None]), [])
        if r < 0.78:
            return ('t', 'gpointer', rng.choice(['gpointer', 'gconstpointer', 'void*', None]), [])
        ref = self.iface_ref()
        if ref is None:
            return ('t', 'gint', 'gint', [])
        return ('t', ref[0], ref[1] if rng.random() < 0.9 else None, [])

    def gtype(self, depth=0, in_field=False):
        """a random type tree: ('t', name, ctype, [params]) or ('a', name, attrs{}, ctype, elem)"""
        rng = self.rng
        r = rng.random()
        if depth >= 2 or r < 0.6:
            return self.simple_type(nested=depth > 0)
        if r < 0.78:
            kind = rng.choice([None, None, None, 'GLib.Array', 'GLib.PtrArray', 'GLib.ByteArray'])
            a = {}
            if kind is None:
                style = rng.choice(['len', 'fixed', 'zt', 'bare', 'zt0len'])
                if style == 'len':
                    a['length'] = str(rng.randint(0, 3))
                elif style == 'fixed':
                    a['fixed-size'] = str(rng.choice([1, 2, 7, 255, 4096]))
                elif style == 'zt':
                    a['zero-terminated'] = '1'
                elif style == 'zt0len':
                    a['zero-terminated'] = '0'
                    a['length'] = str(rng.randint(0, 3))
            elem = self.gtype(depth + 1) if kind != 'GLib.ByteArray' else ('t', 'guint8', None, [])
            return ('a', kind, a, rng.choice(['gpointer*', 'gint*', None]), elem)
        if r < 0.9:
            return ('t', rng.choice(['GLib.List', 'GLib.SList']), rng.choice(['GList*', 'GSList*', None]),
                    [self.gtype(depth + 1)] if (depth > 0 or rng.random() < 0.9) else [])
        if r < 0.96:
            return ('t', 'GLib.HashTable', rng.choice(['GHashTable*', None]),
                    [self.gtype(depth + 1), self.gtype(depth + 1)] if (depth > 0 or rng.random() < 0.9) else [])
        return ('t', 'GLib.Error', rng.choice(['GError*', 'GError**', None]), [])

    def render_type(self, t, indent):
        if t[0] == 'a':
            _, kind, a, ctype, elem = t
            s = '%s<array' % indent
            if kind:
                s += ' name=%s' % quoteattr(kind)
            for k in sorted(a):
                s += ' %s=%s' % (k, quoteattr(a[k]))
            if ctype:
                s += ' c:type=%s' % quoteattr(ctype)
            return s + '>\n' + self.render_type(elem, indent + '  ') + '%s</array>\n' % indent
        _, nm, ctype, params = t
        s = '%s<type name=%s' % (indent, quoteattr(nm))
        if ctype:
            s += ' c:type=%s' % quoteattr(ctype)
        if not params:
            return s + '/>\n'
        return s + '>\n' + ''.join(self.render_type(p, indent + '  ') for p in params) + '%s</type>\n' % indent

    # ---- callables
    def callable_body(self, indent, method=False, max_args=3, allow_instance_full=True, ret=None):
        rng = self.rng
        s = self.attrs(indent)
        rv = ' transfer-ownership="%s"' % rng.choice(['none', 'none', 'full', 'container'])
        r = rng.random()
        if r < 0.15:
            rv += ' nullable="1"'
        elif r < 0.22:
            rv += ' allow-none="1"'         # the older spelling of nullable
            self.stats.hit('return:allow-none')
        if rng.random() < 0.08:
            rv += ' skip="1"'
        rt = ret or (('t', 'none', 'void', []) if rng.random() < 0.4 else self.gtype())
        s += '%s<return-value%s>\n%s%s%s</return-value>\n' % (
            indent, rv, self.attrs(indent + '  '), self.render_type(rt, indent + '  '), indent)
        n = rng.choice([0, 0, 1, 1, 2, 3]) if max_args >= 3 else rng.randint(0, max_args)
        if method or n:
            s += '%s<parameters>\n' % indent
            if method:
                tr = 'full' if (allow_instance_full and rng.random() < 0.1) else 'none'
                s += '%s  <instance-parameter name="self" transfer-ownership="%s">\n%s    <type name="gpointer" c:type="gpointer"/>\n%s  </instance-parameter>\n' % (
                    indent, tr, indent, indent)
                if tr == 'full':
                    self.stats.hit('instance-transfer-full')
            for i in range(n):
                a = ' name="arg%d" transfer-ownership="%s"' % (i, rng.choice(['none', 'none', 'full', 'container']))
                d = rng.choice(['in', 'in', 'in', 'out', 'inout'])
                if d != 'in':
                    a += ' direction="%s"' % d
                    if d == 'out' and rng.random() < 0.4:
                        a += ' caller-allocates="%s"' % rng.choice('01')
                for flag, p in (('nullable', 0.15), ('optional', 0.1), ('skip', 0.06), ('retval', 0.04)):
                    if rng.random() < p:
                        a += ' %s="1"' % flag
                if rng.random() < 0.1:
                    a += ' allow-none="1"'
                if rng.random() < 0.15:
                    a += ' scope="%s"' % rng.choice(['call', 'async', 'notified', 'forever'])
                if rng.random() < 0.12:
                    a += ' closure="%d"' % rng.randint(0, max(0, n - 1))
                if rng.random() < 0.08:
                    a += ' destroy="%d"' % rng.randint(0, max(0, n - 1))
                s += '%s  <parameter%s>\n%s%s%s  </parameter>\n' % (
                    indent, a, self.attrs(indent + '    '), self.render_type(self.gtype(), indent + '    '), indent)
            s += '%s</parameters>\n' % indent
        return s

    HIDDEN = ' introspectable="0"'      # the compiler skips such an element (girparser.c introspectable_prelude)

    def function(self, indent, tag, owner_prefix, extra='', owner=None, hidden=False):
        rng = self.rng
        ret = ('t', owner, 'T%s*' % owner, []) if tag == 'constructor' else None
        nm = self.name({'function': 'fn', 'method': 'meth', 'constructor': 'new'}[tag])
        a = ' name="%s" c:identifier="%s_%s"' % (nm, owner_prefix, nm)
        if hidden:
            a += self.HIDDEN
            self.stats.hit('hidden:function')
        a += self.deprecated(0.12)
        if rng.random() < 0.15:
            a += ' throws="1"'
        return nm, '%s<%s%s%s>\n%s%s</%s>\n' % (indent, tag, a, extra,
                                                 self.callable_body(indent + '  ', method=(tag == 'method'), ret=ret), indent, tag)

    def callback(self, indent, nm=None, toplevel=True):
        rng = self.rng
        nm = nm or self.name('Cb')
        a = ' name="%s"' % nm
        if toplevel:
            a += ' c:type="T%s"' % nm
        a += self.deprecated(0.1)
        if rng.random() < 0.12:
            a += ' throws="1"'
        return nm, '%s<callback%s>\n%s%s</callback>\n' % (indent, a, self.callable_body(indent + '  '), indent)

    def field(self, indent, embedded, nm=None, visible=False):
        rng = self.rng
        nm = nm or self.name('fld')
        a = ' name="%s"' % nm
        if not visible and rng.random() < 0.06:
            a += self.HIDDEN        # a field stays, typed gpointer; its content is skipped
            self.stats.hit('hidden:field')
        if rng.random() < 0.5:
            a += ' writable="1"'
        r = rng.random()
        if r < 0.2:
            a += ' readable="0"'           # what the scanner writes for private fields
            self.stats.hit('field:readable=0')
        elif r < 0.3:
            a += ' readable="1"'
            self.stats.hit('field:readable=1')
        at = self.attrs(indent + '  ')
        if at:
            self.stats.hit('attrs-on:field')
        if not embedded and rng.random() < 0.12:
            # a bit-field member: FieldBlob.bits (8 bits wide)
            a += ' bits="%d"' % rng.choice([1, 2, 3, 7, 8, 15, 31, 32])
            self.stats.hit('field:bits')
            t = ('t', rng.choice(['guint', 'gint', 'guint8', 'gboolean', 'guint64']), None, [])
            return '%s<field%s>\n%s%s%s</field>\n' % (indent, a, at, self.render_type(t, indent + '  '), indent)
        if embedded:
            _, cb = self.callback(indent + '  ', nm=nm, toplevel=False)
            self.stats.hit('field:embedded')
            return '%s<field%s>\n%s%s%s</field>\n' % (indent, a, at, cb, indent)
        self.stats.hit('field:plain')
        return '%s<field%s>\n%s%s%s</field>\n' % (indent, a, at, self.render_type(self.gtype(in_field=True), indent + '  '), indent)

    def constant(self, indent, toplevel, hidden=False):
        rng = self.rng
        nm = self.name('CONST')
        kind = rng.choice(['gint', 'gint', 'guint', 'gint8', 'guint8', 'gint16', 'guint16', 'gint64', 'guint64', 'gboolean',
                           'gdouble', 'gfloat', 'utf8', 'utf8', 'gint32', 'guint32', 'glong', 'gulong'])
        tag = BASIC[kind][0]
        if kind == 'utf8':
            val = ''.join(rng.choice('abcXYZ09_-./:') for _ in range(rng.randint(0, 12)))
            ctype = 'gchar*'
        elif kind == 'gboolean':
            val = rng.choice(['true', 'false'])
            ctype = kind
        elif kind in ('gdouble', 'gfloat'):
            val = rng.choice(['0.5', '1.25', '-2.75', '1024.0', '0.0', '3.0'])
            ctype = kind
        else:
            bits = {2: 8, 3: 8, 4: 16, 5: 16, 6: 32, 7: 32, 8: 64, 9: 64}[tag]
            signed = tag % 2 == 0
            lo, hi = (-(1 << (bits - 1)), (1 << (bits - 1)) - 1) if signed else (0, (1 << bits) - 1)
            val = str(rng.choice([lo, hi, 0, 1, rng.randint(lo, hi)]))
            ctype = kind
        a = ' name="%s" value=%s c:type="T_%s"' % (nm, quoteattr(val), nm)
        if hidden:
            a += self.HIDDEN
            self.stats.hit('hidden:constant')
        a += self.deprecated(0.1)
        at = self.attrs(indent + '  ')
        if at and not toplevel:
            self.stats.hit('attrs-on:member-constant')
        return '%s<constant%s>\n%s%s  <type name="%s" c:type="%s"/>\n%s</constant>\n' % (indent, a, at, indent, kind, ctype, indent)

    def prop(self, indent, methods, hidden=False):
        rng = self.rng
        nm = self.name('prop')
        a = ' name="%s"' % nm
        if hidden:
            a += self.HIDDEN
            self.stats.hit('hidden:property')
        r = rng.random()
        readable, writable = True, False
        if r < 0.3:
            a += ' writable="1"'
            writable = True
        elif r < 0.4:
            a += ' readable="0" writable="1"'
            readable, writable = False, True
        construct_only = False
        if rng.random() < 0.15:
            a += ' construct="1"'
        if writable and rng.random() < 0.15:
            a += ' construct-only="1"'
            construct_only = True
        a += ' transfer-ownership="%s"' % rng.choice(['none', 'none', 'full', 'container'])
        d = self.deprecated(0.1)
        a += d
        if d.endswith('"1"'):
            self.stats.hit('property:deprecated')
        if methods and rng.random() < 0.3:
            a += ' setter="%s"' % rng.choice(methods)
        if methods and rng.random() < 0.3:
            a += ' getter="%s"' % rng.choice(methods)
        at = self.attrs(indent + '  ')
        if at:
            self.stats.hit('attrs-on:property')
        return nm, '%s<property%s>\n%s%s%s</property>\n' % (indent, a, at, self.render_type(self.gtype(), indent + '  '), indent)

    def signal(self, indent, hidden=False):
        rng = self.rng
        nm = self.name('sig').replace('sig', 'sig-')
        a = ' name="%s"' % nm
        if hidden:
            a += self.HIDDEN
            self.stats.hit('hidden:signal')
        w = rng.choice([None, 'first', 'last', 'cleanup', 'FIRST', 'LAST', 'CLEANUP', 'Cleanup', 'must-collect', ''])
        if w is not None:
            a += ' when="%s"' % w
        for flag, p in (('no-recurse', 0.15), ('detailed', 0.15), ('action', 0.15), ('no-hooks', 0.15), ('deprecated', 0.1)):
            if rng.random() < p:
                a += ' %s="1"' % flag
        return nm, '%s<glib:signal%s>\n%s%s</glib:signal>\n' % (indent, a, self.callable_body(indent + '  ', max_args=2), indent)

    def vfunc(self, indent, methods, hidden=False):
        rng = self.rng
        nm = self.name('vf')
        a = ' name="%s"' % nm
        if hidden:
            a += self.HIDDEN
            self.stats.hit('hidden:vfunc')
        if rng.random() < 0.8:
            a += ' offset="%d"' % rng.choice([0, 8, 16, 136, 65534])
        if methods and rng.random() < 0.4:
            a += ' invoker="%s"' % rng.choice(methods)
        if rng.random() < 0.15:
            a += ' throws="1"'
        return nm, '%s<virtual-method%s>\n%s%s</virtual-method>\n' % (indent, a, self.callable_body(indent + '  ', method=True, max_args=2), indent)

    # ---- containers
    def common_attrs(self, kind, nm, registered=None):
        rng = self.rng
        a = ' name="%s" c:type="T%s"' % (nm, nm)
        if registered or (registered is None and rng.random() < 0.5):
            a += ' glib:type-name="T%s" glib:get-type="t_%s_get_type"' % (nm, nm.lower())
        d = self.deprecated(0.15)
        a += d
        if d.endswith('"1"'):
            self.stats.hit('deprecated:%s' % kind)
        return a

    def plain_member_fields(self, n):
        """the fields of a union / boxed type: now and then a function pointer member (stored as gpointer there,
        never as an embedded callback blob), at any position, also last before the functions"""
        s = ''
        for i in range(n):
            cb = self.rng.random() < 0.25
            s += self.field('      ', cb)
            if cb:
                self.stats.hit('field:callback-in-union-or-boxed')
        return s

    def boxed(self):
        """<glib:boxed>: BLOB_TYPE_BOXED, a StructBlob with plain fields and functions"""
        rng = self.rng
        nm = self.name('Bx')
        a = ' glib:name="%s" c:symbol-prefix="%s" glib:type-name="T%s" glib:get-type="t_%s_get_type"' % (nm, nm.lower(), nm, nm.lower())
        a += self.deprecated(0.15)
        body = self.attrs('      ')
        body += self.plain_member_fields(rng.choice([0, 1, 2]))
        for i in range(rng.choice([0, 1, 2])):
            body += self.function('      ', 'function', 't_' + nm.lower())[1]
        self.out.append(('boxed', nm, '    <glib:boxed%s>\n%s    </glib:boxed>\n' % (a, body)))
        self.records.append(nm)
        self.stats.hit('boxed')
        return nm

    def record(self, n_fields=None, emb_mask=None, n_methods=None, hidden=False):
        rng = self.rng
        nm = self.name('Rec')
        if n_fields is None:
            n_fields = rng.choice([0, 1, 2, 3, 4])
        if emb_mask is None:
            emb_mask = [rng.random() < 0.35 for _ in range(n_fields)]
        if n_methods is None:
            n_methods = rng.choice([0, 1, 2])
        a = self.common_attrs('record', nm)
        if hidden:
            a += self.HIDDEN
            self.stats.hit('hidden:record')
        elif self.classes and rng.random() < 0.15:
            a += ' glib:is-gtype-struct-for="%s"' % rng.choice(self.classes)
            self.stats.hit('record:gtype-struct')
        if rng.random() < 0.12:
            a += ' foreign="1"'
            self.stats.hit('record:foreign')
        if rng.random() < 0.15:
            a += ' copy-function="t_%s_copy" free-function="t_%s_free"' % (nm.lower(), nm.lower())
        body = self.attrs('      ')
        for i in range(n_fields):
            body += self.field('      ', emb_mask[i])
        for i in range(n_methods):
            if rng.random() < 0.1:
                body += self.function('      ', 'method', 't_' + nm.lower(), owner=nm, hidden=True)[1]
            body += self.function('      ', rng.choice(['method', 'method', 'function', 'constructor']), 't_' + nm.lower(), owner=nm)[1]
        self.out.append(('record', nm, '    <record%s>\n%s    </record>\n' % (a, body)))
        if not hidden:
            self.records.append(nm)
        self.stats.hit('record:fields=%d,emb=%s,methods=%d' % (min(n_fields, 2), ''.join('1' if e else '0' for e in emb_mask)[:4], min(n_methods, 1)))
        return nm

    def union(self, n_fields=None, n_methods=None):
        rng = self.rng
        nm = self.name('Un')
        if n_fields is None:
            n_fields = rng.choice([0, 1, 2, 3])
        if n_methods is None:
            n_methods = rng.choice([0, 1, 2])
        a = self.common_attrs('union', nm)
        if rng.random() < 0.15:
            a += ' copy-function="t_%s_copy" free-function="t_%s_free"' % (nm.lower(), nm.lower())
        body = self.attrs('      ')
        body += self.plain_member_fields(n_fields)
        for i in range(n_methods):
            body += self.function('      ', rng.choice(['method', 'function', 'constructor']), 't_' + nm.lower(), owner=nm)[1]
        self.out.append(('union', nm, '    <union%s>\n%s    </union>\n' % (a, body)))
        self.unions.append(nm)
        self.stats.hit('union:fields=%d,methods=%d' % (min(n_fields, 2), min(n_methods, 1)))
        return nm

    def enum(self, n_values=None, n_methods=None, hidden=False):
        rng = self.rng
        tag = rng.choice(['enumeration', 'bitfield'])
        nm = self.name('En' if tag == 'enumeration' else 'Fl')
        if n_values is None:
            n_values = rng.choice([0, 1, 2, 3, 5])
        if n_methods is None:
            n_methods = rng.choice([0, 0, 1, 2])
        a = self.common_attrs(tag, nm)
        if hidden:
            a += self.HIDDEN
            self.stats.hit('hidden:enum')
        if tag == 'enumeration' and rng.random() < 0.2:
            a += ' glib:error-domain="t-%s-quark"' % nm.lower()
        body = self.attrs('      ')
        for i in range(n_values):
            if rng.random() < 0.08:
                body += '      <member name="h%d" value="%d" c:identifier="T_%s_H%d" introspectable="0"/>\n' % (i, 1000 + i, nm.upper(), i)
                self.stats.hit('hidden:member')
            v = rng.choice([i, 1 << i, -1 - i, 2147483647, -2147483648, 4294967295, 255])
            ma = ' name="v%d" value="%d" c:identifier="T_%s_V%d"' % (i, v, nm.upper(), i)
            ma += self.deprecated(0.1)
            at = self.attrs('        ')
            if at:
                self.stats.hit('attrs-on:member')
                body += '      <member%s>\n%s      </member>\n' % (ma, at)
            else:
                body += '      <member%s/>\n' % ma
        for i in range(n_methods):
            body += self.function('      ', 'function', 't_' + nm.lower())[1]
        self.out.append((tag, nm, '    <%s%s>\n%s    </%s>\n' % (tag, a, body, tag)))
        if not hidden:
            self.enums.append(nm)
        self.stats.hit('enum:values=%d,methods=%d' % (min(n_values, 2), min(n_methods, 1)))
        return nm

    def members(self, owner, sections, with_fields):
        """sections: dict name -> count.  Returns body text; methods first decided so that
        properties/vfuncs can refer to them by name (GIR order inside the element is free)."""
        rng = self.rng
        ind = '      '
        method_names, methods_txt = [], ''
        for i in range(sections.get('methods', 0)):
            tag = rng.choice(['method', 'method', 'method', 'function', 'constructor']) if with_fields else \
                rng.choice(['method', 'method', 'function'])
            if rng.random() < 0.1:      # an extra, skipped method in front: shifts nothing in the typelib
                methods_txt += self.function(ind, 'method', 't_' + owner.lower(), owner=owner, hidden=True)[1]
            nm, txt = self.function(ind, tag, 't_' + owner.lower(), owner=owner)
            method_names.append((nm, tag))
            methods_txt += txt
        only_methods = [n for n, t in method_names if t == 'method']
        chunks = []
        if with_fields:
            emb = sections.get('field_embedded') or [rng.random() < 0.35 for _ in range(sections.get('fields', 0))]
            for i in range(sections.get('fields', 0)):
                chunks.append(self.field(ind, emb[i]))
        prop_names = []
        absent_props = ['no-such-property']
        for i in range(sections.get('properties', 0)):
            if rng.random() < 0.1:
                hn, htxt = self.prop(ind, only_methods, hidden=True)
                absent_props.append(hn)
                chunks.append(htxt)
            nm, txt = self.prop(ind, only_methods)
            prop_names.append(nm)
            chunks.append(txt)
        # accessor methods: glib:get-property / glib:set-property need an existing property
        if prop_names and only_methods and rng.random() < 0.5:
            target = rng.choice(only_methods)
            which = rng.choice(['glib:get-property', 'glib:set-property'])
            methods_txt = methods_txt.replace('<method name="%s"' % target,
                                              '<method name="%s" %s="%s"' % (target, which, rng.choice(prop_names)), 1)
            self.stats.hit('accessor-method')
        elif only_methods and rng.random() < 0.3:
            # accessor of a property the typelib does not have (skipped, or never declared): a plain method,
            # whether or not the container has other properties
            if rng.random() < 0.5:
                hn, htxt = self.prop(ind, only_methods, hidden=True)
                absent_props.append(hn)
                chunks.append(htxt)
            target = rng.choice(only_methods)
            which = rng.choice(['glib:get-property', 'glib:set-property'])
            methods_txt = methods_txt.replace('<method name="%s"' % target,
                                              '<method name="%s" %s="%s"' % (target, which, rng.choice(absent_props)), 1)
            self.stats.hit('accessor-of-absent-property')
        chunks.append(methods_txt)
        for i in range(sections.get('signals', 0)):
            if rng.random() < 0.1:
                chunks.append(self.signal(ind, hidden=True)[1])
            chunks.append(self.signal(ind)[1])
        for i in range(sections.get('vfuncs', 0)):
            if rng.random() < 0.1:
                chunks.append(self.vfunc(ind, only_methods, hidden=True)[1])
            chunks.append(self.vfunc(ind, only_methods)[1])
        for i in range(sections.get('constants', 0)):
            if rng.random() < 0.1:
                chunks.append(self.constant(ind, toplevel=False, hidden=True))
            chunks.append(self.constant(ind, toplevel=False))
        if rng.random() < 0.5:
            rng.shuffle(chunks)       # sections may interleave in GIR; the typelib groups them by kind
        return ''.join(chunks)

    def klass(self, sections, n_ifaces):
        rng = self.rng
        nm = self.name('Obj')
        a = self.common_attrs('class', nm, registered=True)
        parent = rng.choice([None] + self.classes + (['B.Obj'] if self.use_base else []))
        if parent:
            a += ' parent="%s"' % parent
            if rng.random() < 0.05:
                a += ' glib:fundamental="0"'       # explicit false
                self.stats.hit('fundamental=0')
        else:
            a += ' glib:fundamental="1"'
            if rng.random() < 0.5:
                a += ' glib:ref-func="t_%s_ref" glib:unref-func="t_%s_unref"' % (nm.lower(), nm.lower())
            if rng.random() < 0.3:
                a += ' glib:set-value-func="t_%s_set_value" glib:get-value-func="t_%s_get_value"' % (nm.lower(), nm.lower())
        if rng.random() < 0.2:
            a += ' abstract="1"'
        if rng.random() < 0.15:
            a += ' final="1"'
        if self.records and rng.random() < 0.3:
            a += ' glib:type-struct="%s"' % rng.choice(self.records)
        body = self.attrs('      ')
        pool = list(self.ifaces) + (['B.Ifc'] if self.use_base else [])
        chosen = [rng.choice(pool) for _ in range(n_ifaces)] if pool else []
        for i in chosen:
            body += '      <implements name="%s"/>\n' % i
        body += self.members(nm, sections, with_fields=True)
        self.out.append(('class', nm, '    <class%s>\n%s    </class>\n' % (a, body)))
        self.classes.append(nm)
        key = ''.join('1' if sections.get(k, 0) else '0' for k in ('fields', 'properties', 'methods', 'signals', 'vfuncs', 'constants'))
        self.stats.hit('object:combo=%s%s' % ('1' if chosen else '0', key))
        self.stats.hit('object:n_interfaces%%2=%d' % (len(chosen) % 2))
        return nm

    def interface(self, sections, n_prereq):
        rng = self.rng
        nm = self.name('Ifc')
        a = self.common_attrs('interface', nm, registered=True)
        if self.records and rng.random() < 0.3:
            a += ' glib:type-struct="%s"' % rng.choice(self.records)
        body = self.attrs('      ')
        pool = list(self.ifaces) + list(self.classes) + (['B.Ifc', 'B.Obj'] if self.use_base else [])
        chosen = [rng.choice(pool) for _ in range(n_prereq)] if pool else []
        for i in chosen:
            body += '      <prerequisite name="%s"/>\n' % i
        body += self.members(nm, sections, with_fields=False)
        self.out.append(('interface', nm, '    <interface%s>\n%s    </interface>\n' % (a, body)))
        self.ifaces.append(nm)
        key = ''.join('1' if sections.get(k, 0) else '0' for k in ('properties', 'methods', 'signals', 'vfuncs', 'constants'))
        self.stats.hit('interface:combo=%s%s' % ('1' if chosen else '0', key))
        self.stats.hit('interface:n_prerequisites%%2=%d' % (len(chosen) % 2))
        return nm

    def toplevel_misc(self):
        rng = self.rng
        for _ in range(rng.choice([0, 1, 2])):
            nm, txt = self.function('    ', 'function', 't')
            self.out.append(('function', nm, txt))
        for _ in range(rng.choice([0, 1, 2])):
            self.out.append(('constant', None, self.constant('    ', toplevel=True)))
        for _ in range(rng.choice([0, 1])):
            nm, txt = self.callback('    ')
            self.out.append(('callback', nm, txt))
            self.callbacks.append(nm)
        if rng.random() < 0.3:
            nm, txt = self.function('    ', 'function', 't', hidden=True)
            self.out.append(('function', nm, txt))
        if rng.random() < 0.2:
            self.out.append(('constant', None, self.constant('    ', toplevel=True, hidden=True)))
        if rng.random() < 0.25:
            # a shadowed function is skipped, the one shadowing it takes its name
            old, txt = self.function('    ', 'function', 't')
            new, txt2 = self.function('    ', 'function', 't')
            txt = txt.replace('<function name="%s"' % old, '<function name="%s" shadowed-by="%s"' % (old, new), 1)
            txt2 = txt2.replace('<function name="%s"' % new, '<function name="%s" shadows="%s"' % (new, old), 1)
            self.out.append(('function', old, txt))
            self.out.append(('function', new, txt2))
            self.stats.hit('shadows')

    def text(self):
        s = '<?xml version="1.0"?>\n<repository version="1.2" xmlns="%s" xmlns:c="%s" xmlns:glib="%s">\n' % (CORE, CNS, GLIB)
        if self.use_base:
            s += '  <include name="B" version="1.0"/>\n'
        s += '  <namespace name="%s" version="1.0" shared-library="lib%s.so" c:identifier-prefixes="T" c:symbol-prefixes="t">\n' % (
            self.ns, self.ns.lower())
        s += ''.join(t for _, _, t in self.out)
        return s + '  </namespace>\n</repository>\n'


BASE_GIR = '''<?xml version="1.0"?>
<repository version="1.2" xmlns="%s" xmlns:c="%s" xmlns:glib="%s">
  <namespace name="B" version="1.0" shared-library="libb.so" c:identifier-prefixes="B" c:symbol-prefixes="b">
    <class name="Obj" c:type="BObj" glib:type-name="BObj" glib:get-type="b_obj_get_type" glib:fundamental="1"/>
    <interface name="Ifc" c:type="BIfc" glib:type-name="BIfc" glib:get-type="b_ifc_get_type"/>
    <record name="Rec" c:type="BRec"><field name="x"><type name="gint" c:type="gint"/></field></record>
    <enumeration name="En" c:type="BEn"><member name="a" value="0" c:identifier="B_EN_A"/></enumeration>
    <callback name="Cb" c:type="BCb"><return-value transfer-ownership="none"><type name="none" c:type="void"/></return-value></callback>
  </namespace>
</repository>
''' % (CORE, CNS, GLIB)

OBJ_SECTIONS = ('interfaces', 'fields', 'properties', 'methods', 'signals', 'vfuncs', 'constants')
IFC_SECTIONS = ('interfaces', 'properties', 'methods', 'signals', 'vfuncs', 'constants')


def gen_gir(rng, ns, obj_combos, ifc_combos, use_base=True, with_boxed=False):
    """One GIR: support entries, then objects/interfaces for the given empty/non-empty section
    combinations (bit masks over OBJ_SECTIONS / IFC_SECTIONS), records, unions, enums, misc."""
    g = Gen(rng, ns, use_base)
    if rng.random() < 0.3:
        for _ in range(rng.choice([1, 2])):
            g.alias()
    # support entries first so that later entries can refer to them
    nm, txt = g.callback('    ')
    g.out.append(('callback', nm, txt))
    g.callbacks.append(nm)
    g.enum()
    g.record(n_fields=rng.choice([0, 1, 2]), emb_mask=None)
    g.interface({}, 0)
    for mask in ifc_combos:
        sec = {}
        for bit, nme in enumerate(IFC_SECTIONS):
            if mask >> bit & 1:
                sec[nme] = rng.choice([1, 1, 2, 3])
        g.interface(sec, sec.get('interfaces', 0))
    for mask in obj_combos:
        sec = {}
        for bit, nme in enumerate(OBJ_SECTIONS):
            if mask >> bit & 1:
                sec[nme] = rng.choice([1, 1, 2, 3])
        g.klass(sec, sec.get('interfaces', 0))
    for _ in range(rng.choice([1, 2])):
        g.record()
    if rng.random() < 0.25:
        g.record(hidden=True)          # a skipped entry between visible ones: directory indices shift
    if with_boxed:
        g.boxed()
    g.union()
    for _ in range(rng.choice([1, 2])):
        g.enum()
    if rng.random() < 0.2:
        g.enum(hidden=True)
    g.toplevel_misc()
    return g


# ------------------------------------------------------------------------------------------
# statement oracle: the API a GIR text describes, in the walker's line format
# ------------------------------------------------------------------------------------------
def _transfer(v):
    return {'none': 0, 'container': 1, 'full': 2}.get(v or 'none', 0)


def _pointer_depth(ctype):
    """girparser.c start_type: trailing '*' (never looking at the first character) + gpointer prefix"""
    if ctype is None:
        return 0
    depth = 0
    i = len(ctype) - 1
    while i > 0 and ctype[i] == '*':
        depth += 1
        i -= 1
    if ctype.startswith('gpointer') or ctype.startswith('gconstpointer'):
        depth += 1
    return depth


class Api(object):
    """Derives the expected dump from GIR text.  dialect 'source' = GIR as the scanner writes it
    (what g-ir-compiler reads); dialect 'generate' = what girwriter.c writes.  Values the GIR text
    does not determine are emitted as `*` (matched as wildcard):
      * struct/union size, alignment, field offsets, enum storage type (computed by giroffsets.c: C08);
      * `pointer=` in the generate dialect (g-ir-generate writes no c:type).
    Everything else a GIR element says is expected literally from the API and from g-ir-generate:
    return-value skip/nullable/allow-none and <attribute>s for every callable kind, <attribute>s of
    fields, properties, enum members and class-level constants on THAT node, field readable="0",
    property deprecated, deprecated="0" / glib:fundamental="0" meaning false, the bit width of a
    bit-field member (`bits`, FieldBlob.bits)."""

    def __init__(self, text, dialect):
        self.dialect = dialect
        self.root = ET.fromstring(text)
        self.nsel = self.root.find(q('namespace'))
        self.ns = self.nsel.get('name')
        # <alias>: not an entry of the typelib (neither are its attributes); a type naming it is its target type
        self.aliases = {}
        for al in self.nsel.findall(q('alias')):
            t = al.find(q('type'))
            if t is not None and al.get('name'):
                self.aliases[al.get('name')] = t.get('name')
                self.aliases['%s.%s' % (self.ns, al.get('name'))] = t.get('name')
        self.lines = []
        self.kinds = {}
        self.bad_bytearray = any(a.get('name') == 'GLib.ByteArray' and not self._is_guint8_array(a)
                                 for a in self.root.iter(q('array')))
        self.entries = [e for e in self.nsel if self.entry_kind(e) is not None and not self.skipped(e)]
        for e in self.entries:
            self.kinds[self.entry_name(e)] = self.entry_kind(e)

    @staticmethod
    def _is_guint8_array(a):
        subs = [c for c in a if c.tag in (q('type'), q('array'))]
        return len(subs) == 1 and subs[0].tag == q('type') and subs[0].get('name') == 'guint8'

    def entry_kind(self, e):
        t = e.tag
        if t == q('function'):
            return 1
        if t == q('callback'):
            return 2
        if t == q('record'):
            return 3
        if t == gq('boxed'):
            return 4
        if t == q('enumeration'):
            return 5
        if t == q('bitfield'):
            return 6
        if t == q('class'):
            return 7
        if t == q('interface'):
            return 8
        if t == q('constant'):
            return 9
        if t == q('union'):
            return 11
        return None

    def entry_name(self, e):
        if e.tag == gq('boxed'):
            return e.get(gq('name'))
        return self.fname(e) if e.tag == q('function') else e.get('name')

    @staticmethod
    def fname(e):
        """a function that shadows another one is known by the name of the shadowed one"""
        return e.get('shadows') or e.get('name')

    @staticmethod
    def skipped(e):
        """girparser.c introspectable_prelude: introspectable="0" or shadowed-by: the element and its content
        are not in the typelib (a field stays, typed gpointer)"""
        i = e.get('introspectable')
        return (i is not None and i.strip() in ('0', '')) or e.get('shadowed-by') is not None

    def p(self, s):
        self.lines.append(s)

    def qual(self, name):
        if name is None:
            return '(null)'
        return name if '.' in name else '%s.%s' % (self.ns, name)

    def dep(self, e):
        # deprecated="1" means deprecated; an explicit "0" means false (girparser.c compares with "1")
        return 1 if e.get('deprecated') == '1' else 0

    # ---- attributes
    def attrs(self, path, e, tagw='attr', extra=()):
        pairs = list(extra) + [(a.get('name'), a.get('value')) for a in e.findall(q('attribute'))]
        for k, (n, v) in enumerate(pairs):
            self.p('%s %s.%d %s=%s' % (path, tagw, k, n, v))
        for k, (n, v) in enumerate(pairs):
            self.p('%s %sget.%d %s=%s' % (path, tagw, k, n, v))
        self.p('%s %sget.missing=(null)' % (path, tagw))

    # ---- types
    def type_el(self, e):
        for c in e:
            if c.tag in (q('type'), q('array')):
                return c
        return None

    def dump_type(self, path, t, ctx):
        """ctx: 'field' | 'out' | other — the kind of node the type belongs to (current_typed)"""
        gen = self.dialect == 'generate'
        if t.tag == q('array'):
            name = t.get('name')
            at = ARRAY_TYPES.get(name, 0)
            if at == 0:
                length = t.get('length')
                fixed = t.get('fixed-size')
                zt = t.get('zero-terminated')
                if zt is not None:
                    ztv = 1 if zt == '1' else 0
                else:
                    ztv = 0 if (length is not None or fixed is not None) else 1
                if gen:
                    ztv = 1 if zt == '1' else 0
                if ctx == 'field' and fixed is not None:
                    ptr = 0             # an array member of known size is stored in place
                elif ctx == 'field' and length is None:
                    # `T data[];` — a flexible array member is not a pointer unless its c:type says so
                    act = t.get(cq('type'))
                    ptr = 1 if (act is not None and act.endswith('*')) else 0
                else:
                    ptr = 1
            else:
                length = fixed = None
                ztv = 0
                ptr = 1
            self.p('%s type tag=15 pointer=%s' % (path, '*' if gen else ptr))
            self.p('%s array array_type=%d length=%s fixed_size=%s zero_terminated=%d' % (
                path, at, length if length is not None else '-1', fixed if fixed is not None else '-1', ztv))
            subs = [c for c in t if c.tag in (q('type'), q('array'))]
            if at == 3 and self.bad_bytearray:
                # a GLib.ByteArray whose element is missing or not guint8 is not valid GIR; girnode.c names the
                # type "GByteArray" whatever the element, so ALL byte arrays of the namespace share one blob:
                # outside the quantifier, byte-array elements of such a GIR are not judged
                self.p('%s.p0 type tag=* pointer=*' % path)
            elif subs:
                self.dump_type(path + '.p0', subs[0], ctx)
            else:
                self.p('%s.p0 type tag=0 pointer=%s' % (path, '*' if gen else 1))
            return
        name = t.get('name')
        name = self.aliases.get(name, name)
        ctype = t.get(cq('type'))
        depth = _pointer_depth(ctype)
        if ctx == 'out' and depth > 0:
            depth -= 1
        table = GEN_BASIC if gen else BASIC
        subs = [c for c in t if c.tag in (q('type'), q('array'))]
        if name in table:
            tag, bp = table[name]
            ptr = 1 if (bp or depth > 0) else 0
            self.p('%s type tag=%d pointer=%s' % (path, tag, ptr if (not gen or tag == 0) else '*'))
        elif name in ('GLib.List', 'GLib.SList'):
            self.p('%s type tag=%d pointer=%s' % (path, 17 if name == 'GLib.List' else 18, '*' if gen else 1))
            if subs:
                self.dump_type(path + '.p0', subs[0], ctx)
            else:
                self.p('%s.p0 type tag=0 pointer=1' % path)
        elif name == 'GLib.HashTable':
            self.p('%s type tag=19 pointer=%s' % (path, '*' if gen else 1))
            if subs:
                self.dump_type(path + '.p0', subs[0], ctx)
                self.dump_type(path + '.p1', subs[1], ctx)
            else:
                self.p('%s.p0 type tag=0 pointer=1' % path)
                self.p('%s.p1 type tag=0 pointer=1' % path)
        elif name == 'GLib.Error':
            self.p('%s type tag=20 pointer=%s' % (path, '*' if gen else 1))
        else:
            self.p('%s type tag=16 pointer=%s' % (path, '*' if gen else (1 if depth > 0 else 0)))
            if '.' in name and not name.startswith(self.ns + '.'):
                self.p('%s iface=%s ikind=x embedded=0' % (path, name))
            else:
                local = name.split('.')[-1]
                self.p('%s iface=%s.%s ikind=%s embedded=0' % (path, self.ns, local, self.kinds.get(local, '?')))

    # ---- callables
    def dump_callable(self, path, e, kind):
        gen = self.dialect == 'generate'
        throws = 1 if e.get('throws') == '1' else 0
        if kind == 'function':
            is_method = 1 if e.tag == q('method') else 0
        elif kind == 'callback':
            is_method = 0
        else:
            is_method = 1
        rv = e.find(q('return-value'))
        params = e.find(q('parameters'))
        plist = [] if params is None else params.findall(q('parameter'))
        inst = None if params is None else params.find(q('instance-parameter'))
        # nullable and its older spelling allow-none both mean may_return_null (both dialects)
        nullable = 1 if rv.get('allow-none') == '1' or rv.get('nullable') == '1' else 0
        it = 2 if (inst is not None and inst.get('transfer-ownership') == 'full') else 0
        skip = 1 if rv.get('skip') == '1' else 0
        if not gen and kind == 'callback' and it:
            it = '*'        # CallbackBlob signatures carry no instance parameter (never generated: callbacks have none)
        self.p('%s callable throws=%d is_method=%d may_return_null=%d skip_return=%s caller_owns=%d instance_transfer=%s n_args=%d' % (
            path, throws, is_method, nullable, skip, _transfer(rv.get('transfer-ownership')), it, len(plist)))
        self.dump_type(path + '.ret', self.type_el(rv), 'ret')
        self.attrs(path, rv, 'retattr')
        for j, a in enumerate(plist):
            d = a.get('direction') or 'in'
            direction = {'in': 0, 'out': 1, 'inout': 2}[d]
            ca = 1 if (d == 'out' and a.get('caller-allocates') == '1') else 0
            optional = 1 if a.get('optional') == '1' else 0
            nullable = 1 if a.get('nullable') == '1' else 0
            if a.get('allow-none') == '1':
                # the legacy spelling, read as the scanner means it (giscanner/ast.py Parameter, girwriter.py
                # _write_parameter; girparser.c start_parameter): optional for an out parameter, nullable for
                # in and inout parameters.  The text g-ir-generate writes is read by the same rule.
                if d == 'out':
                    optional = 1
                else:
                    nullable = 1
            sc = {'call': 1, 'async': 2, 'notified': 3, 'forever': 4}.get(a.get('scope'), 0)
            sub = '%s.a%d' % (path, j)
            self.p('%s arg name=%s direction=%d retval=%d caller_allocates=%d optional=%d nullable=%d skip=%d transfer=%d scope=%d closure=%s destroy=%s' % (
                sub, a.get('name') or 'unknown', direction, 1 if a.get('retval') == '1' else 0, ca, optional, nullable,
                1 if a.get('skip') == '1' else 0, _transfer(a.get('transfer-ownership')), sc,
                a.get('closure') if a.get('closure') is not None else '-1',
                a.get('destroy') if a.get('destroy') is not None else '-1'))
            self.attrs(sub, a)
            self.dump_type(sub + '.t', self.type_el(a), 'out' if d in ('out', 'inout') else 'in')

    def dump_function(self, path, e, container=None):
        flags = 0
        if e.tag == q('method'):
            flags |= 1
        if e.tag == q('constructor'):
            flags |= 2
        acc = None
        if e.tag in (q('method'), q('constructor')) and container is not None:
            # an accessor of a property that is not in the typelib (skipped or unknown) is a plain method
            props = [p.get('name') for p in self.visible(container, q('property'))]
            if e.get(gq('set-property')) is not None:
                if e.get(gq('set-property')) in props:
                    flags |= 8
                    acc = e.get(gq('set-property'))
            elif e.get(gq('get-property')) is not None:
                if e.get(gq('get-property')) in props:
                    flags |= 4
                    acc = e.get(gq('get-property'))
        if e.get('throws') == '1':
            flags |= 32
        self.p('%s function name=%s deprecated=%d symbol=%s flags=%d' % (
            path, self.fname(e), self.dep(e), e.get(cq('identifier')), flags))
        if acc is not None:
            self.p('%s accessor_of=%s' % (path, acc))
        self.attrs(path, e)
        self.dump_callable(path, e, 'function')

    def dump_field(self, path, e, embeds=True):
        """embeds: the container is a record or a class, the only ones whose fields can embed a callback blob;
        in a union, boxed or interface a function pointer member is an untyped pointer"""
        gen = self.dialect == 'generate'
        readable = 0 if e.get('readable') == '0' else 1       # fields are readable unless readable="0"
        writable = 1 if e.get('writable') == '1' else 0
        flags = str(readable + 2 * writable)
        bits = e.get('bits')
        self.p('%s field name=%s flags=%s size=%d offset=*' % (path, e.get('name'), flags, int(bits) if bits else 0))
        if self.skipped(e):
            self.p('%s attrget.missing=(null)' % path)
            self.p('%s.t type tag=0 pointer=1' % path)
            return
        self.attrs(path, e)
        cb = e.find(q('callback'))
        if cb is not None and not embeds and not gen:
            self.p('%s.t type tag=0 pointer=1' % path)
        elif cb is not None and gen and (not embeds or cb.get('name') != e.get('name')):
            # girwriter.c write_field_info inlines the callback a field type REFERS to; read it as the reference
            self.p('%s.t type tag=16 pointer=*' % path)
            if self.kinds.get(cb.get('name')) == 2:
                self.p('%s.t iface=%s.%s ikind=2 embedded=0' % (path, self.ns, cb.get('name')))
            else:
                self.p('%s.t iface=* ikind=* embedded=0' % path)
        elif cb is not None:
            self.p('%s.t type tag=16 pointer=%s' % (path, '*' if gen else 0))
            self.p('%s.t iface=%s.%s ikind=2 embedded=1' % (path, self.ns, cb.get('name')))
            sub = path + '.t.cb'
            self.p('%s callback name=%s deprecated=%d' % (sub, cb.get('name'), self.dep(cb)))
            self.attrs(sub, cb)
            self.dump_callable(sub, cb, 'callback')
        else:
            self.dump_type(path + '.t', self.type_el(e), 'field')

    def dump_constant(self, path, e):
        t = self.type_el(e)
        name = t.get('name')
        table = GEN_BASIC if self.dialect == 'generate' else BASIC
        tag = table[name][0]
        v = e.get('value')
        if tag in (13, 14):
            size = len(v.encode('utf-8')) + 1
            val = v
        elif tag == 1:
            size = 4
            if self.dialect == 'generate':
                val = '1' if v not in ('0', 'false') else '0'
            else:
                val = '1' if v == 'true' else '0'      # girnode.c parse_boolean_value: "true"/"false" or integer
                if v not in ('true', 'false'):
                    val = '1' if int(v) != 0 else '0'
        elif tag == 10:
            size = 4
            val = 'f32:%d' % struct.unpack('<I', struct.pack('<f', float(v)))[0]
        elif tag == 11:
            size = 8
            val = 'f64:%d' % struct.unpack('<Q', struct.pack('<d', float(v)))[0]
        else:
            size = {2: 1, 3: 1, 4: 2, 5: 2, 6: 4, 7: 4, 8: 8, 9: 8}[tag]
            val = str(int(v))
        self.p('%s constant name=%s deprecated=%d size=%d value=%s' % (path, e.get('name'), self.dep(e), size, val))
        self.attrs(path, e)
        self.dump_type(path + '.t', t, 'constant')

    def dump_property(self, path, e, methods):
        r = e.get('readable')
        readable = 1 if (r is None or r == '1') else 0
        writable = 1 if e.get('writable') == '1' else 0
        construct = 1 if e.get('construct') == '1' else 0
        conly = 1 if e.get('construct-only') == '1' else 0
        flags = readable + 2 * writable + 4 * construct + 8 * conly
        setter = e.get('setter')
        getter = e.get('getter')
        if not writable or conly:
            setter = None
        if not readable:
            getter = None
        self.p('%s property name=%s deprecated=%d flags=%d transfer=%d setter=%s getter=%s' % (
            path, e.get('name'), self.dep(e), flags, _transfer(e.get('transfer-ownership')),
            setter or '(null)', getter or '(null)'))
        self.attrs(path, e)
        self.dump_type(path + '.t', self.type_el(e), 'property')

    def dump_signal(self, path, e):
        # when: first / last / cleanup in any case; absent, or a value naming no run phase = last
        flags = {'FIRST': 1, 'CLEANUP': 4}.get((e.get('when') or '').upper(), 2)
        for attr, bit in (('no-recurse', 8), ('detailed', 16), ('action', 32), ('no-hooks', 64)):
            if e.get(attr) == '1':
                flags |= bit
        self.p('%s signal name=%s deprecated=%d flags=%d true_stops_emit=0 class_closure=(null)' % (
            path, e.get('name'), 1 if e.get('deprecated') == '1' else 0, flags))
        self.attrs(path, e)
        self.dump_callable(path, e, 'signal')

    def dump_vfunc(self, path, e):
        flags = 0
        if e.get('must-chain-up') == '1':
            flags |= 1
        if e.get('override') == 'always':
            flags |= 2
        elif e.get('override') == 'never':
            flags |= 4
        if e.get('throws') == '1':
            flags |= 8
        off = e.get('offset')
        self.p('%s vfunc name=%s deprecated=0 flags=%d offset=%s invoker=%s signal=(null)' % (
            path, e.get('name'), flags, off if off is not None else '65535', e.get('invoker') or '(null)'))
        self.attrs(path, e)
        self.dump_callable(path, e, 'vfunc')

    def registered(self, e):
        gen = self.dialect == 'generate'
        tn = e.get(gq('type-name'))
        ti = e.get(gq('get-type'))
        if gen and tn is None and e.tag == q('union'):
            tn, ti = e.get('type-name'), e.get('get-type')       # girwriter.c spells them without prefix for unions
        return tn or '(null)', ti or '(null)'

    def functions_of(self, e):
        return [c for c in e if c.tag in (q('function'), q('method'), q('constructor')) and not self.skipped(c)]

    def visible(self, e, tag):
        return [c for c in e.findall(tag) if not self.skipped(c)]

    def find_lines(self, path, prefix, names):
        for j, n in enumerate(names):
            self.p('%s.%s%d find=%d' % (path, prefix, j, names.index(n)))

    def dump_struct(self, path, e):
        gen = self.dialect == 'generate'
        fields = e.findall(q('field'))
        methods = self.functions_of(e)
        tn, ti = self.registered(e)
        if gen:
            gts = 1 if e.get(gq('is-gtype-struct')) == '1' else 0
        else:
            gts = 1 if e.get(gq('is-gtype-struct-for')) is not None else 0
        self.p('%s struct n_fields=%d n_methods=%d size=* alignment=* foreign=%d gtype_struct=%d type_name=%s type_init=%s copy=%s free=%s' % (
            path, len(fields), len(methods), 1 if e.get('foreign') == '1' else 0, gts, tn, ti,
            e.get('copy-function') or '(null)', e.get('free-function') or '(null)'))
        self.attrs(path, e)
        for j, f in enumerate(fields):
            self.dump_field('%s.f%d' % (path, j), f, embeds=e.tag != gq('boxed'))
        self.find_lines(path, 'f', [f.get('name') for f in fields])
        for j, m in enumerate(methods):
            self.dump_function('%s.m%d' % (path, j), m)
        self.find_lines(path, 'm', [self.fname(m) for m in methods])

    def dump_union(self, path, e):
        fields = e.findall(q('field'))
        methods = self.functions_of(e)
        tn, ti = self.registered(e)
        self.p('%s union n_fields=%d n_methods=%d discriminated=0 size=* alignment=* type_name=%s type_init=%s copy=%s free=%s' % (
            path, len(fields), len(methods), tn, ti, e.get('copy-function') or '(null)', e.get('free-function') or '(null)'))
        self.attrs(path, e)
        for j, f in enumerate(fields):
            self.dump_field('%s.f%d' % (path, j), f, embeds=False)
        for j, m in enumerate(methods):
            self.dump_function('%s.m%d' % (path, j), m)
        self.find_lines(path, 'm', [self.fname(m) for m in methods])

    def dump_enum(self, path, e):
        gen = self.dialect == 'generate'
        values = self.visible(e, q('member'))       # <member introspectable="0"> is not in the typelib
        methods = self.functions_of(e)
        tn, ti = self.registered(e)
        self.p('%s enum n_values=%d n_methods=%d storage=* error_domain=%s type_name=%s type_init=%s' % (
            path, len(values), len(methods), e.get(gq('error-domain')) or '(null)', tn, ti))
        self.attrs(path, e)
        for j, v in enumerate(values):
            sub = '%s.v%d' % (path, j)
            val = int(v.get('value'))       # ValueBlob: 32-bit value + unsigned flag (set iff value >= 0)
            self.p('%s value name=%s deprecated=%d value=%s' % (sub, v.get('name'), self.dep(v), val))
            extra = [] if gen else [('c:identifier', v.get(cq('identifier')))]
            self.attrs(sub, v, extra=extra)
        for j, m in enumerate(methods):
            self.dump_function('%s.m%d' % (path, j), m)

    def members_common(self, path, e, with_fields):
        fields = e.findall(q('field')) if with_fields else []
        props = self.visible(e, q('property'))
        methods = self.functions_of(e)
        signals = self.visible(e, gq('signal'))
        vfuncs = self.visible(e, q('virtual-method'))
        consts = self.visible(e, q('constant'))
        return fields, props, methods, signals, vfuncs, consts

    def dump_members(self, path, e, fields, props, methods, signals, vfuncs, consts):
        for j, f in enumerate(fields):
            self.dump_field('%s.f%d' % (path, j), f)
        mnames = [self.fname(m) for m in methods]
        for j, pr in enumerate(props):
            self.dump_property('%s.p%d' % (path, j), pr, mnames)
        for j, m in enumerate(methods):
            self.dump_function('%s.m%d' % (path, j), m, container=e)
        self.find_lines(path, 'm', mnames)
        for j, s in enumerate(signals):
            self.dump_signal('%s.s%d' % (path, j), s)
        self.find_lines(path, 's', [s.get('name') for s in signals])
        for j, v in enumerate(vfuncs):
            self.dump_vfunc('%s.v%d' % (path, j), v)
        self.find_lines(path, 'v', [v.get('name') for v in vfuncs])
        for j, c in enumerate(consts):
            self.dump_constant('%s.c%d' % (path, j), c)

    def dump_object(self, path, e):
        gen = self.dialect == 'generate'
        fields, props, methods, signals, vfuncs, consts = self.members_common(path, e, True)
        impl = e.findall(q('implements'))

        def fn(a, b):
            return e.get(gq(a)) or (e.get(gq(b)) if gen else None) or '(null)'
        fundamental = 1 if e.get(gq('fundamental')) == '1' else 0
        self.p('%s object abstract=%d final=%d fundamental=%d type_name=%s type_init=%s parent=%s class_struct=%s ref=%s unref=%s set_value=%s get_value=%s' % (
            path, 1 if e.get('abstract') == '1' else 0, 1 if e.get('final') == '1' else 0, fundamental,
            e.get(gq('type-name')), e.get(gq('get-type')), self.qual(e.get('parent')), self.qual(e.get(gq('type-struct'))),
            fn('ref-func', 'ref-function'), fn('unref-func', 'unref-function'),
            fn('set-value-func', 'set-value-function'), fn('get-value-func', 'get-value-function')))
        self.p('%s counts n_interfaces=%d n_fields=%d n_properties=%d n_methods=%d n_signals=%d n_vfuncs=%d n_constants=%d' % (
            path, len(impl), len(fields), len(props), len(methods), len(signals), len(vfuncs), len(consts)))
        self.attrs(path, e)
        for j, i in enumerate(impl):
            self.p('%s implements.%d=%s' % (path, j, self.qual(i.get('name'))))
        self.dump_members(path, e, fields, props, methods, signals, vfuncs, consts)

    def dump_interface(self, path, e):
        fields, props, methods, signals, vfuncs, consts = self.members_common(path, e, False)
        pre = e.findall(q('prerequisite'))
        tn, ti = self.registered(e)
        self.p('%s interface type_name=%s type_init=%s iface_struct=%s' % (path, tn, ti, self.qual(e.get(gq('type-struct')))))
        self.p('%s counts n_prerequisites=%d n_properties=%d n_methods=%d n_signals=%d n_vfuncs=%d n_constants=%d' % (
            path, len(pre), len(props), len(methods), len(signals), len(vfuncs), len(consts)))
        self.attrs(path, e)
        for j, i in enumerate(pre):
            self.p('%s prerequisite.%d=%s' % (path, j, self.qual(i.get('name'))))
        self.dump_members(path, e, fields, props, methods, signals, vfuncs, consts)

    def run(self):
        nsel = self.nsel
        gen = self.dialect == 'generate'
        prefix = nsel.get(cq('prefix')) if gen else (nsel.get(cq('identifier-prefixes')) or nsel.get(cq('prefix')))
        self.p('ns name=%s n_infos=%d version=%s shared_library=%s c_prefix=%s' % (
            self.ns, len(self.entries), nsel.get('version'), nsel.get('shared-library') or '(null)', prefix or '(null)'))
        names = [self.entry_name(e) for e in self.entries]
        for i, e in enumerate(self.entries):
            path = 'e%d' % i
            kind = self.entry_kind(e)
            self.p('%s entry kind=%d name=%s deprecated=%d' % (path, kind, names[i], self.dep(e)))
            self.p('%s find_by_name=%d' % (path, 1 if names.index(names[i]) == i else 0))
            if kind == 1:
                self.dump_function(path, e)
            elif kind == 2:
                self.attrs(path, e)
                self.dump_callable(path, e, 'callback')
            elif kind in (3, 4):
                self.dump_struct(path, e)
            elif kind == 11:
                self.dump_union(path, e)
            elif kind in (5, 6):
                self.dump_enum(path, e)
            elif kind == 7:
                self.dump_object(path, e)
            elif kind == 8:
                self.dump_interface(path, e)
            elif kind == 9:
                self.dump_constant(path, e)
        return self.lines


def api_from_gir(text, dialect):
    return Api(text, dialect).run()


# ------------------------------------------------------------------------------------------
# comparing two dumps as trees (paths carry the order; attribute order inside a node is the
# compiler's hash-table order, so attribute lines are compared as sets)
# ------------------------------------------------------------------------------------------
_ATTR_RE = re.compile(r'^(\S+) ((?:ret)?attr(?:get)?)\.(\d+) (.*)$', re.S)


def canon(lines):
    """-> dict key -> list of tokens (or the raw rest for attribute lines)"""
    out = {}
    for l in lines:
        m = _ATTR_RE.match(l)
        if m:
            # one key per (node, accessor, name=value): present on both sides or a difference
            out[(m.group(1), m.group(2), m.group(4))] = [m.group(4)]
            continue
        parts = l.split(' ')
        path = parts[0]
        item = parts[1] if len(parts) > 1 else ''
        if '=' in item:                     # `e1 find_by_name=1`, `e1 implements.0=T.X`
            key = (path, item.split('=', 1)[0], '')
            toks = [item]
        else:
            key = (path, item, '')
            toks = parts[2:]
        out[key] = toks
    return out


def _tok_match(a, b):
    if a == b:
        return True
    ka, _, va = a.partition('=')
    kb, _, vb = b.partition('=')
    if ka != kb:
        return False
    if va == '*' or vb == '*':
        return True
    # enum values >= 2^31 from the source dialect: '*N' matches N or N - 2^32
    for x, y in ((va, vb), (vb, va)):
        if x.startswith('*') and x[1:].lstrip('-').isdigit():
            n = int(x[1:])
            if y.lstrip('-').isdigit() and int(y) in (n, n - (1 << 32)):
                return True
    return False


def diff_dumps(expected, actual):
    """-> list of (key, expected line tokens or None, actual tokens or None, token-name or None);
    one entry per differing token of a line (so that no difference hides behind another one)"""
    A, B = canon(expected), canon(actual)
    out = []
    for key in sorted(set(A) | set(B), key=lambda k: (k[0], k[1], k[2])):
        if key not in A:
            out.append((key, None, B[key], None))
        elif key not in B:
            out.append((key, A[key], None, None))
        else:
            ta, tb = A[key], B[key]
            if len(ta) != len(tb):
                out.append((key, ta, tb, None))
                continue
            for x, y in zip(ta, tb):
                if not _tok_match(x, y):
                    out.append((key, ta, tb, x.split('=')[0]))
    return out


# ------------------------------------------------------------------------------------------
# running the real code
# ------------------------------------------------------------------------------------------
class Tools(object):
    def __init__(self, ctx):
        import cbuild
        self.ctx = ctx
        self.dir = os.path.join(ctx.scratch, 'tl')
        os.makedirs(self.dir, exist_ok=True)
        self.build = cbuild.CBuild(os.path.join(ctx.scratch, 'cbuild')).compile_all()
        self.compiler = self.build.compiler()
        self.generate = None
        self.walk = None
        try:
            self.generate = self.build.generate()
        except HarnessError as e:
            ctx.broken.append('tools/generate.c no longer builds against girepository: %s' % str(e)[-300:])
        try:
            self.walk = self.build.cdriver('c09_walk')
        except HarnessError as e:
            ctx.broken.append('cdrivers/c09_walk.c (public API only) no longer builds against /repo headers: %s' % str(e)[-300:])
        self.env = dict(os.environ, G_DEBUG='', G_MESSAGES_DEBUG='', LC_ALL='C')
        with open(os.path.join(self.dir, 'B-1.0.gir'), 'w') as f:
            f.write(BASE_GIR)
        rc, out, err = self.run([self.compiler, '-o', os.path.join(self.dir, 'B-1.0.typelib'), os.path.join(self.dir, 'B-1.0.gir')])
        if rc != 0:
            ctx.broken.append('g-ir-compiler rejects the base GIR: rc=%s %s' % (rc, err[-300:]))

    def run(self, args, timeout=60):
        try:
            p = subprocess.run(args, stdout=subprocess.PIPE, stderr=subprocess.PIPE, timeout=timeout, env=self.env)
            return p.returncode, p.stdout.decode('utf-8', 'replace'), p.stderr.decode('utf-8', 'replace')
        except subprocess.TimeoutExpired:
            return 'timeout', '', 'timeout after %ss' % timeout

    def process(self, ns, gir):
        """compile + walk + generate one GIR.  -> dict"""
        res = {'ns': ns, 'gir': gir}
        gpath = os.path.join(self.dir, '%s-1.0.gir' % ns)
        tpath = os.path.join(self.dir, '%s-1.0.typelib' % ns)
        with open(gpath, 'w') as f:
            f.write(gir)
        rc, out, err = self.run([self.compiler, '--includedir', self.dir, '-o', tpath, gpath])
        res['compile_rc'] = rc
        res['compile_err'] = err[-400:]
        if rc != 0 or not os.path.exists(tpath):
            return res
        with open(tpath, 'rb') as f:
            res['bytes'] = f.read()
        if self.walk:
            rc, out, err = self.run([self.walk, self.dir, ns])
            res['walk_rc'] = rc
            res['walk'] = out.split('\n')[:-1] if out.endswith('\n') else out.split('\n')
            res['walk_err'] = err[-400:]
        if self.generate:
            rc, out, err = self.run([self.generate, '--includedir', self.dir, tpath])
            res['gen_rc'] = rc
            res['gen'] = out
            res['gen_err'] = err[-400:]
        return res


def report(ctx, key, what, replay):
    """PENDING_FINDINGS are reported like known findings (the integrator moves them to
    known_findings.json or commits a fix); everything else is a violation."""
    if key in PENDING_FINDINGS and ctx.is_known(key) is None:
        if key not in [h['key'] for h in ctx.known_hits]:
            ctx.known_hits.append({'key': key, 'what': 'PENDING ' + PENDING_FINDINGS[key]})
        return
    ctx.report_failure(key, what, replay)


def _show(toks):
    """one side of a difference: the line's tokens, or that the line is absent on that side"""
    return '<no such line>' if toks is None else repr(' '.join(toks))


def classify(check, d, expected_api):
    """finding key for one difference (key, expected tokens, actual tokens, token name)"""
    (path, item, rest), exp, act, tok = d
    top = path.split('.')[0]
    kind = None
    if top.startswith('e') and top[1:].isdigit() and int(top[1:]) < len(expected_api.entries):
        kind = expected_api.entry_kind(expected_api.entries[int(top[1:])])
    kname = {1: 'function', 2: 'callback', 3: 'record', 4: 'boxed', 5: 'enum', 6: 'enum', 7: 'object', 8: 'interface',
             9: 'constant', 11: 'union'}.get(kind, 'ns')
    def val(toks):
        for t in toks or ():
            if t.startswith(tok + '='):
                return t[len(tok) + 1:]
        return None
    want, got = (val(exp), val(act)) if tok else (None, None)
    missing = 'missing' if act is None else ('unexpected' if exp is None else (tok or 'shape'))
    return '%s:%s:%s:%s' % (check, kname, item, missing)


def judge(ctx, cnt, res, where):
    """All checks on one processed GIR.  Returns list of (key, text) problems found (for the search)."""
    problems = []
    ns, gir = res['ns'], res['gir']

    def fail(key, what, extra=None):
        problems.append(key)
        rep = {'kind': 'gir', 'ns': ns, 'gir': gir, 'finding': key}
        if extra:
            rep.update(extra)
        report(ctx, key, '%s [%s %s]' % (what, where, ns), rep)

    if res.get('compile_rc') != 0:
        cnt.hit('outside:compiler-rejected')
        return problems
    try:
        exp_api = Api(gir, 'source')
        expected = exp_api.run()
    except Exception as e:      # the oracle cannot read the GIR: not a verdict about the code
        cnt.hit('outside:oracle-cannot-read')
        ctx.notes.append('oracle failed on %s: %r' % (ns, e))
        return problems
    # (1)+(3): the public API against the source GIR
    if 'walk' in res:
        if res['walk_rc'] != 0:
            key = 'walk:crash'
            fail(key, 'walking the public API of a compiled typelib ended with %r: %s' % (res['walk_rc'], res['walk_err'][-300:]))
        else:
            diffs = diff_dumps(expected, res['walk'])
            cnt.hit('api-lines', len(res['walk']))
            seen = set()
            for d in diffs:
                key = classify('api', d, exp_api)
                if key in seen:
                    continue
                seen.add(key)
                fail(key, 'public API differs from the source GIR at %s %s: GIR says %s, API reports %s'
                     % (d[0][0], d[0][1], _show(d[1]), _show(d[2])))
            cnt.hit('api:ok' if not diffs else 'api:differs')
    # (4): g-ir-generate
    if 'gen' in res:
        if res['gen_rc'] != 0:
            key = 'generate:crash'
            fail(key, 'g-ir-generate ended with %r on a compiled typelib: %s' % (res['gen_rc'], res['gen_err'][-300:]))
        else:
            try:
                got = api_from_gir(res['gen'], 'generate')
            except ET.ParseError as e:
                got = None
                fail('generate:malformed-xml', 'g-ir-generate wrote XML that does not parse: %s' % e)
            except Exception as e:
                got = None
                fail('generate:unreadable', 'g-ir-generate output cannot be read as GIR: %r' % (e,))
            if got is not None:
                diffs = diff_dumps(expected, got)
                seen = set()
                for d in diffs:
                    key = classify('generate', d, exp_api)
                    if key in seen:
                        continue
                    seen.add(key)
                    fail(key, 'g-ir-generate output differs from the source GIR at %s %s: source %s, generated %s'
                         % (d[0][0], d[0][1], _show(d[1]), _show(d[2])))
                cnt.hit('generate:ok' if not diffs else 'generate:differs')
    return problems


def prefixes(gir):
    """shrunk neighbours of a GIR: the same namespace with only its first k top-level entries
    (references only point backwards in generated GIRs)"""
    m = re.search(r'(<namespace [^>]*>\n)(.*)(  </namespace>\n</repository>\n)$', gir, re.S)
    if not m:
        return []
    head, body, tail = gir[:m.start(2)], m.group(2), m.group(3)
    # top-level elements start at 4 spaces of indentation and end with the matching close at the same indentation
    parts = re.findall(r'(    <([\w:]+)[^\n]*?(?:/>\n|>\n.*?\n    </\2>\n))', body, re.S)
    out = []
    for k in range(1, len(parts)):
        out.append(head + ''.join(p[0] for p in parts[:k]) + tail)
    return out


# ------------------------------------------------------------------------------------------
# abstract-level checks of the model's arithmetic against a Python sequential layout
# ------------------------------------------------------------------------------------------
def py_object_layout(S, base, n_if, fs, nP, nM, nS, nV, nC):
    pos = base + S['object']
    out = {'interfaces': [pos + 2 * i for i in range(n_if)]}
    pos += 2 * n_if + (2 if n_if % 2 else 0)
    f = []
    for b in fs:
        f.append(pos)
        pos += S['field'] + (S['callback'] if b else 0)
    f.append(pos)
    out['fields'] = f
    for name, n, sz in (('properties', nP, S['property']), ('methods', nM, S['function']), ('signals', nS, S['signal']),
                        ('vfuncs', nV, S['vfunc']), ('constants', nC, S['constant'])):
        out[name] = [pos + i * sz for i in range(n)]
        pos += n * sz
    return out


def abstract_checks(ctx, cnt):
    rng = ctx.rng
    table = ctx.driver.call('c09.table_sizes')
    reqs, exps = [], []
    for _ in range(ctx.n(300, 5000)):
        S = dict(table) if rng.random() < 0.7 else {k: rng.choice([4, 8, 12, 16, 20, 24, 40, 60]) for k in table}
        fs = [rng.random() < 0.4 for _ in range(rng.randint(0, 5))]
        a = dict(base=4 * rng.randint(0, 5000), n_interfaces=rng.randint(0, 5), fields=fs, n_properties=rng.randint(0, 4),
                 n_methods=rng.randint(0, 4), n_signals=rng.randint(0, 4), n_vfuncs=rng.randint(0, 4), n_constants=rng.randint(0, 4))
        reqs.append(dict(op='c09.object_offsets', sizes=S, **a))
        exps.append(py_object_layout(S, a['base'], a['n_interfaces'], fs, a['n_properties'], a['n_methods'], a['n_signals'],
                                     a['n_vfuncs'], a['n_constants']))
    nbad = 0
    for rq, r, e in zip(reqs, ctx.driver.batch(reqs), exps):
        cnt.hit('abstract:object_offsets')
        for sec in e:
            if sec == 'interfaces' and rq['sizes'] != table:
                continue      # blob->interfaces[] is a compile-time member offset: meaningful for the real sizes only
            got = r[sec]
            if [g[0] for g in got] != e[sec] or [g[1] for g in got] != e[sec]:
                nbad += 1
                if nbad <= 3:
                    ctx.broken.append('model arithmetic c09.object_offsets differs from the sequential layout: %r section %s model=%r layout=%r'
                                      % (rq, sec, got, e[sec]))
    # attribute lookup: every bsearch choice, against a plain Python statement of the property
    reqs, exps = [], []
    for _ in range(ctx.n(300, 5000)):
        keys = sorted(rng.choice([4, 8, 8, 12, 16, 16, 16, 20, 24]) * rng.randint(1, 3) for _ in range(rng.randint(0, 9)))
        key = rng.choice(keys + [6, 1000]) if keys else 8
        idx = [i for i, k in enumerate(keys) if k == key]
        for choice in (idx if idx else [None]):
            reqs.append({'op': 'c09.attr_find', 'keys': keys, 'key': key, 'choice': choice})
            exps.append(idx)
    for rq, r, idx in zip(reqs, ctx.driver.batch(reqs), exps):
        cnt.hit('abstract:attr_find:%s' % ('hit' if idx else 'miss'))
        want_first = idx[0] if idx else None
        if r['first'] != want_first or r['iter'] != idx or r['iter_bsearch'] != idx or (r['bsearch'] is None) != (not idx):
            nbad += 1
            if nbad <= 3:
                ctx.broken.append('model c09.attr_find differs from the statement: %r -> %r, expected first=%r iter=%r' % (rq, r, want_first, idx))
    return len(reqs)


UNION_CALLBACK_GIR = '''<?xml version="1.0"?>
<repository version="1.2" xmlns="%s" xmlns:c="%s" xmlns:glib="%s">
  <namespace name="%%s" version="1.0" shared-library="libu.so" c:identifier-prefixes="T" c:symbol-prefixes="t">
    <union name="U" c:type="TU">
      <field name="a" writable="1"><type name="gint" c:type="gint"/></field>
      <field name="cb">
        <callback name="cb">
          <return-value transfer-ownership="none"><type name="none" c:type="void"/></return-value>
        </callback>
      </field>
      <field name="b" writable="1"><type name="gdouble" c:type="gdouble"/></field>
    </union>
  </namespace>
</repository>
''' % (CORE, CNS, GLIB)


def one_edit(rng, gir):
    """a malformed / perturbed neighbour of a GIR text"""
    lines = gir.split('\n')
    body = [i for i, l in enumerate(lines) if l.startswith('      ')]
    if not body:
        return gir
    i = rng.choice(body)
    r = rng.random()
    if r < 0.3:
        del lines[i]
    elif r < 0.5:
        lines.insert(i, lines[i])
    elif r < 0.7:
        lines[i] = lines[i].replace('name="g', 'name="Unknown', 1)
    elif r < 0.85:
        lines[i] = lines[i].replace('"1"', '"2"', 1)
    else:
        lines[i] = lines[i].replace('transfer-ownership="none"', '', 1)
    return '\n'.join(lines)


def load_corpus():
    cpath = os.path.join(VERIF, 'corpus', 'C09')
    out = []
    if os.path.isdir(cpath):
        for fn in sorted(os.listdir(cpath)):
            if fn.endswith('.json'):
                with open(os.path.join(cpath, fn)) as f:
                    for c in json.load(f):
                        c['file'] = fn
                        out.append(c)
    return out


def run(ctx):
    import concurrent.futures
    cnt = Counter()
    ctx.prove(['gen_typelib_layout', 'gen_info_switch'], ['GIVerif.Props.C09'], 'GIVerif.Props.C09')
    rng = ctx.rng
    ctx.log('proofs rebuilt and audited')
    try:
        tools = Tools(ctx)
        ctx.log('C code built')
    except HarnessError as e:
        # /repo's C code does not build with the shim: nothing can be run; this is reported, not an exit 2
        ctx.broken.append('the C code under verification no longer builds: %s' % str(e)[-600:])
        ctx.coverage.update({'evaluations': 0, 'distinct_nontrivial': 0, 'rule': 'C build failed', 'samples': []})
        return

    # ---- cases: corpus first, then the generated stream
    cases = []            # (where, ns, gir)
    corpus = load_corpus()
    for i, c in enumerate(corpus):
        cases.append(('corpus:%s' % c.get('name', i), 'K%d' % i, c['gir'].replace('@NS@', 'K%d' % i)))
    n_gen = ctx.n(150, 2000)
    obj_masks = list(range(128))
    ifc_masks = list(range(64))
    rng.shuffle(obj_masks)
    rng.shuffle(ifc_masks)
    gens = []
    for k in range(n_gen):
        oc = [obj_masks[(3 * k + j) % 128] for j in range(3)]
        ic = [ifc_masks[(2 * k + j) % 64] for j in range(2)]
        g = gen_gir(rng, 'T%d' % k, oc, ic, use_base=rng.random() < 0.8, with_boxed=rng.random() < 0.35)
        gens.append(g)
        cases.append(('generated', 'T%d' % k, g.text()))
        for lab, v in g.stats.counts.items():
            cnt.hit('gen:' + lab, v)
    # the union-with-callback-field GIR (hypothesis of C09_sections_union), then the malformed stream: one-edit mutants
    # a union with a function pointer member: the compiler stores it as an untyped pointer (no embedded callback blob:
    # hypothesis `union_fields_plain` of C09_sections_union, checked on every typelib by c09.check)
    cases.append(('union-callback-field', 'M0', UNION_CALLBACK_GIR % 'M0'))
    n_mal = ctx.n(40, 400)
    for k in range(n_mal):
        src = rng.choice(gens)
        ns = 'M%d' % (k + 1)
        cases.append(('malformed:one-edit', ns, one_edit(rng, src.text().replace('"%s"' % src.ns, '"%s"' % ns).replace('lib%s.so' % src.ns.lower(), 'lib%s.so' % ns.lower()))))

    with concurrent.futures.ThreadPoolExecutor(max_workers=12) as ex:
        results = list(ex.map(lambda c: tools.process(c[1], c[2]), cases))
    ctx.log('compiled/walked/generated %d GIRs' % len(cases))

    # ---- (2) model dump from the same bytes + hypotheses of the theorems
    compiled = [(c, r) for c, r in zip(cases, results) if r.get('compile_rc') == 0 and 'bytes' in r]
    reqs = []
    for c, r in compiled:
        hx = r['bytes'].hex()
        reqs.append({'op': 'c09.dump', 'hex': hx})
        reqs.append({'op': 'c09.check', 'hex': hx})
    try:
        answers = ctx.driver.batch(reqs)
    except HarnessError as e:
        ctx.broken.append('model driver failed: %s' % str(e)[-400:])
        answers = None
    ctx.log('model dumps computed')
    n_corr = 0
    disagreeing = []
    hyp_names = ('sizes_match_table', 'attrs_sorted', 'union_fields_plain', 'field_callbacks_counted', 'blobs_aligned',
                 'no_discriminated_union')
    for idx, (c, r) in enumerate(compiled):
        if answers is None:
            break
        model, hyps = answers[2 * idx], answers[2 * idx + 1]
        for h in hyp_names:
            if not hyps.get(h, True):
                cnt.hit('hypothesis-unmet:' + h)
                if cnt.counts['hypothesis-unmet:' + h] <= 2:
                    ctx.broken.append('hypothesis %s of the C09 theorems is not met by a typelib the real compiler produced (%s %s)'
                                      % (h, c[0], c[1]))
        for k in ('deprecated_unions', 'n_objects', 'n_odd_interface_objects', 'n_embedded_fields', 'n_attributes', 'n_boxed'):
            cnt.hit('typelib:' + k, hyps.get(k, 0))
        if r.get('walk_rc') == 0:
            if model != r['walk']:
                n_corr += 1
                disagreeing.append((c, r))
                if n_corr <= 3:
                    import difflib
                    d = list(difflib.unified_diff(r['walk'], model, 'public-API', 'model', lineterm='', n=0))[:8]
                    ctx.broken.append('correspondence c09.dump differs (%s %s): %s' % (c[0], c[1], ' | '.join(d)))
            cnt.hit('correspondence:%s' % ('same' if model == r['walk'] else 'differs'))

    # ---- (3)+(4) statement oracle on the real code's output, every case
    failing = []
    for c, r in zip(cases, results):
        cnt.hit('case:%s' % c[0].split(':')[0])
        probs = judge(ctx, cnt, r, c[0])
        cnt.case(['gir', c[2]], nontrivial=r.get('compile_rc') == 0)
        if [p for p in probs if p not in PENDING_FINDINGS]:
            failing.append((c, r))
    n_rejected = cnt.counts.get('outside:compiler-rejected', 0)
    gen_rejected = len([1 for c, r in zip(cases, results) if c[0] == 'generated' and r.get('compile_rc') != 0])
    if gen_rejected > n_gen // 5:
        bad = [r for c, r in zip(cases, results) if c[0] == 'generated' and r.get('compile_rc') != 0][0]
        ctx.broken.append('g-ir-compiler rejects %d of %d generated valid GIRs, e.g. %s: rc=%r %s'
                          % (gen_rejected, n_gen, bad['ns'], bad['compile_rc'], bad['compile_err'][-300:]))

    # ---- failing-input search around disagreements / failures: shrunk GIRs (entry prefixes)
    searched = 0
    for c, r in (disagreeing + failing)[:4]:
        for k, g in enumerate(prefixes(c[2])[:40]):
            ns = 'S%d' % searched
            searched += 1
            g2 = g.replace('name="%s"' % c[1], 'name="%s"' % ns, 1)
            rr = tools.process(ns, g2)
            judge(ctx, cnt, rr, 'search:prefix-of-' + c[1])
            cnt.hit('search:prefix')

    n_abs = 0
    try:
        n_abs = abstract_checks(ctx, cnt)
    except HarnessError as e:
        ctx.broken.append('model driver failed on abstract checks: %s' % str(e)[-400:])

    combos_obj = len([k for k in cnt.counts if k.startswith('gen:object:combo=')])
    combos_ifc = len([k for k in cnt.counts if k.startswith('gen:interface:combo=')])
    samples = [{'where': c[0], 'ns': c[1], 'gir_head': c[2][:600]} for c in (cases[:1] + cases[len(corpus):len(corpus) + 1])]
    dist = {k: v for k, v in cnt.counts.items() if not k.startswith('gen:object:combo=') and not k.startswith('gen:interface:combo=')
            and not k.startswith('gen:record:fields')}
    dist['object section combinations covered (of 128)'] = combos_obj
    dist['interface section combinations covered (of 64)'] = combos_ifc
    dist['record field/embedded/method shapes'] = len([k for k in cnt.counts if k.startswith('gen:record:fields')])
    ctx.coverage.update({
        'evaluations': len(cases) + searched + n_abs,
        'distinct_nontrivial': cnt.n_distinct(),
        'rule': 'corpus, then seeded GIR generator: per GIR support entries + 3 classes and 2 interfaces whose empty/non-empty '
                'section masks cycle through all 2^7 / 2^6 combinations (odd and even interface counts, fields with embedded '
                'callbacks at random positions), records (also glib:is-gtype-struct-for)/unions/enums with methods, now and then a '
                '<glib:boxed>, functions, constants, callbacks, attributes (0-3 per node) on every node kind (entries, fields, '
                'properties, enum members, class-level constants, parameters, return values of every callable kind); '
                'introspectable="0" entries and members and shadowed-by/shadows pairs (skipped by the compiler: indices shift), '
                'readable="0"/"1" fields, deprecated="0", allow-none return values; optional dependency on a second namespace; '
                'then a malformed stream (union with callback field, one-edit mutants). Every compiled typelib: public-API walk '
                'vs Lean model dump (line by line), walk vs API derived from the source GIR text, g-ir-generate output vs source '
                'GIR API. non-trivial = compiled; distinct by GIR text hash.',
        'samples': samples,
        'distribution': dist,
        'corpus_cases': len(corpus),
        'compiled': len(compiled),
        'compiler_rejected': n_rejected,
        'generated_rejected': gen_rejected,
        'exhaustive': False,
        'pending_findings': sorted(PENDING_FINDINGS),
    })
    ctx.assumptions.extend([
        'girwriter.c (typelib -> GIR text) is NOT modelled: g-ir-generate output is compared as an API tree with the source GIR (validated, not proved)',
        'GIR -> blob translation (girparser.c/girnode.c) belongs to C06: constructs the typelib format or the compiler does not store '
        'are not generated (vfunc must-chain-up/override/is-class-closure, signal has-class-closure, an instance '
        'parameter on a callback, deprecated on fields/vfuncs); everything generated is expected literally',
        'values computed by giroffsets.c (struct size/alignment, field offsets, enum storage) are wildcards in the oracle (C08)',
        'normalisation of g-ir-generate dialect: no c:type (pointer flags not compared), allow-none read by the scanner\'s rule, type-name/get-type on '
        'unions and glib:*-function on classes read as their glib:* spellings, c:prefix, upper-case when=, a field whose type refers '
        'to a named callback is written with the callback inlined, instance-parameter written only when it transfers ownership',
        'bsearch() is modelled as returning ANY element with an equal key (NULL only if none): glibc is not verified',
        'g_base_info_iterate_attributes reads next->offset before the bound check (one AttributeBlob past the table, inside the mapped file): memory safety is not modelled',
        'hypotheses of the theorems checked on every compiled typelib by the driver: header blob sizes = sizeof table, attribute table sorted, '
        'no embedded callback in union fields, n_field_callbacks = number of embedded fields, no discriminated unions',
        'cross-namespace references are compared by qualified name only (the kind of a foreign entry is not in this typelib)',
    ])


def replay(ctx, rep):
    r = rep['replay']
    cnt = Counter()
    tools = Tools(ctx)
    res = tools.process(r['ns'], r['gir'])
    print('compile rc=%r %s' % (res.get('compile_rc'), res.get('compile_err', '')[-200:]))
    before = len(ctx.violations)
    judge(ctx, cnt, res, 'replay')
    for v in ctx.violations[before:]:
        print('FAIL %s: %s' % (v['key'], v['what'][:400]))
    for h in ctx.known_hits:
        print('PENDING/KNOWN %s' % h['key'])
    want = r.get('finding')
    hit = [v for v in ctx.violations if v['key'] == want] or [h for h in ctx.known_hits if h['key'] == want]
    return 1 if (hit or ctx.violations) else 0
