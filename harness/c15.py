"""C15 — Whatever the scanner writes, the typelib compiler accepts.

Proof (lean/GIVerif/Props/C15.lean): the vocabulary contract between giscanner/girwriter.py
and girepository/girparser.c, re-extracted from BOTH sources on every run by
translators/gen_girvocab_py.py and gen_girvocab_c.py (`decide` over the generated tables),
and the balance of the PASSTHROUGH depth counter over every well-nested event stream.

Tie: (1) the two translators; (2) correspondence of the Lean state machine
(Model/GirConsume.lean) with the REAL start_element_handler/end_element_handler of
girparser.c, traced by cdrivers/c15_states.c (which #includes girparser.c) on every GIR
produced in the run; (3) end-to-end, on the real pair: generated API descriptions ->
REAL scanner pipeline (scanpipe) -> GIR -> REAL g-ir-compiler -> typelib ->
cdrivers/c15_walk.c (public repository API) -> compared with an independent reading of the
GIR (the oracle below is written from the property statement and docs/gir-1.2.rnc, it
does not look at girparser.c).
"""
import copy
import hashlib
import json
import os
import re
import subprocess
import sys
import time
from xml.etree import ElementTree as ET

from core import REPO, VERIF, Counter, HarnessError

CORE = 'http://www.gtk.org/introspection/core/1.0'
CNS = 'http://www.gtk.org/introspection/c/1.0'
GLIBNS = 'http://www.gtk.org/introspection/glib/1.0'


def qn(tag):
    if tag.startswith('c:'):
        return '{%s}%s' % (CNS, tag[2:])
    if tag.startswith('glib:'):
        return '{%s}%s' % (GLIBNS, tag[5:])
    return '{%s}%s' % (CORE, tag)


def local(tag):
    """'{core}record' -> 'record', '{glib}boxed' -> 'glib:boxed', '{c}include' -> 'c:include'"""
    if not tag.startswith('{'):
        return tag
    uri, name = tag[1:].split('}', 1)
    if uri == CORE:
        return name
    if uri == GLIBNS:
        return 'glib:' + name
    if uri == CNS:
        return 'c:' + name
    if uri.endswith('/doc/1.0'):
        return 'doc:' + name
    return uri + ':' + name


# --------------------------------------------------------------------------------------------
# Genuine violations of C15 on the UNCHANGED tree, found by this check (see the final report of
# the C15 work package for replays and patch proposals).  Exactly these keys are routed as
# known findings; any other failure is a VIOLATION.  The integrator moves them to
# known_findings.json (or commits fixes).
# --------------------------------------------------------------------------------------------
PENDING_FINDINGS = {
    'compiler:abort:state_switch-assert:record-in-record':
        'a struct member that is itself an (anonymous-typed) struct is written as <record> directly inside <record>; '
        'start_struct calls state_switch(STATE_STRUCT) while already in STATE_STRUCT and the compiler aborts on '
        'g_assert (ctx->state != newstate)',
    'compiler:abort:state_switch-assert:union-in-union':
        'a union member that is itself a union is written as <union> directly inside <union>; start_union calls '
        'state_switch(STATE_UNION) while in STATE_UNION and the compiler aborts on g_assert (ctx->state != newstate)',
    'present:field:introspectable=0:as-gpointer-placeholder':
        'a field with introspectable="0" is kept in the typelib as a readable gpointer field (deliberate in '
        'start_field, but the property says non-introspectable elements are absent)',
    'absent:anonymous-member:union-in-record':
        'an anonymous union member of a struct (<union> inside <record>) is parsed and then dropped: neither it nor '
        'its fields appear in the typelib (start_union only links a node into the module when node_stack == NULL)',
    'absent:anonymous-member:record-in-union':
        'an anonymous struct member of a union (<record> inside <union>) is parsed and then dropped from the typelib',
    'compiler:error:reference-to-introspectable-0:class:class-parent':
        'a class annotated (skip) keeps introspectable subclasses: <class parent="X"> with X introspectable="0"; '
        'the compiler drops X and fails with "type reference \'X\' not found"',
    'compiler:error:reference-to-introspectable-0:interface:implements':
        'an interface annotated (skip) is still listed in <implements name="X"/> of an introspectable class; the '
        'compiler drops X and fails with "type reference \'X\' not found"',
}

DOC_ONLY = ('function-macro', 'function-inline', 'method-inline', 'docsection')

# ---------------------------------------------------------------------------------------------
# stand-in dependency GIRs (hand-written, minimal): only what generated code and the expected
# GIRs of tests/scanner reference.  They are inputs of the compiler, not scanner outputs, and
# are not judged; failing to compile them is a harness error.
# ---------------------------------------------------------------------------------------------
_HEAD = '''<?xml version="1.0"?>
<repository version="1.2"
            xmlns="http://www.gtk.org/introspection/core/1.0"
            xmlns:c="http://www.gtk.org/introspection/c/1.0"
            xmlns:glib="http://www.gtk.org/introspection/glib/1.0">
'''


def _rec(name, ctype, gtype=None, gettype=None):
    g = ' glib:type-name="%s" glib:get-type="%s"' % (gtype, gettype) if gtype else ''
    return '    <record name="%s" c:type="%s"%s/>\n' % (name, ctype, g)


def _cb(name, ctype, params):
    s = ('    <callback name="%s" c:type="%s">\n      <return-value transfer-ownership="none">'
         '<type name="none" c:type="void"/></return-value>\n' % (name, ctype))
    if params:
        s += '      <parameters>\n'
        for pn, tn, ct, extra in params:
            s += ('        <parameter name="%s" transfer-ownership="none"%s><type name="%s" c:type="%s"/></parameter>\n'
                  % (pn, extra, tn, ct))
        s += '      </parameters>\n'
    return s + '    </callback>\n'


_NUL = ' nullable="1" allow-none="1"'
STANDIN_GLIB = _HEAD + '''  <namespace name="GLib" version="2.0" shared-library="" c:identifier-prefixes="G" c:symbol-prefixes="g,glib">
    <alias name="Quark" c:type="GQuark"><type name="guint32" c:type="guint32"/></alias>
''' + _rec('Error', 'GError', 'GError', 'g_error_get_type') + _rec('List', 'GList') + _rec('SList', 'GSList') \
    + _rec('HashTable', 'GHashTable', 'GHashTable', 'g_hash_table_get_type') \
    + _rec('Array', 'GArray', 'GArray', 'g_array_get_type') \
    + _rec('PtrArray', 'GPtrArray', 'GPtrArray', 'g_ptr_array_get_type') \
    + _rec('ByteArray', 'GByteArray', 'GByteArray', 'g_byte_array_get_type') \
    + _rec('Variant', 'GVariant') + _rec('Bytes', 'GBytes', 'GBytes', 'g_bytes_get_type') \
    + _cb('DestroyNotify', 'GDestroyNotify', [('data', 'gpointer', 'gpointer', _NUL)]) \
    + _cb('Func', 'GFunc', [('data', 'gpointer', 'gpointer', _NUL), ('user_data', 'gpointer', 'gpointer', _NUL)]) \
    + '''  </namespace>
</repository>
'''
STANDIN_GOBJECT = _HEAD + '''  <include name="GLib" version="2.0"/>
  <namespace name="GObject" version="2.0" shared-library="" c:identifier-prefixes="G" c:symbol-prefixes="g,gobject">
    <alias name="Type" c:type="GType"><type name="gsize" c:type="gsize"/></alias>
    <class name="Object" c:symbol-prefix="object" c:type="GObject" glib:type-name="GObject" glib:get-type="g_object_get_type" glib:type-struct="ObjectClass">
      <field name="g_type_instance"><type name="TypeInstance" c:type="GTypeInstance"/></field>
    </class>
    <record name="ObjectClass" c:type="GObjectClass" glib:is-gtype-struct-for="Object">
      <field name="g_type_class"><type name="TypeClass" c:type="GTypeClass"/></field>
    </record>
    <class name="InitiallyUnowned" c:symbol-prefix="initially_unowned" c:type="GInitiallyUnowned" parent="Object" glib:type-name="GInitiallyUnowned" glib:get-type="g_initially_unowned_get_type" glib:type-struct="InitiallyUnownedClass">
      <field name="g_type_instance"><type name="TypeInstance" c:type="GTypeInstance"/></field>
    </class>
    <record name="InitiallyUnownedClass" c:type="GInitiallyUnownedClass" glib:is-gtype-struct-for="InitiallyUnowned">
      <field name="g_type_class"><type name="TypeClass" c:type="GTypeClass"/></field>
    </record>
    <class name="ParamSpec" c:symbol-prefix="param_spec" c:type="GParamSpec" abstract="1" glib:type-name="GParam" glib:get-type="intern" glib:fundamental="1">
      <field name="g_type_instance"><type name="TypeInstance" c:type="GTypeInstance"/></field>
    </class>
''' + _rec('TypeInstance', 'GTypeInstance') + _rec('TypeClass', 'GTypeClass') + _rec('TypeInterface', 'GTypeInterface') \
    + _rec('Value', 'GValue', 'GValue', 'g_value_get_type') + _rec('Closure', 'GClosure', 'GClosure', 'g_closure_get_type') \
    + _cb('Callback', 'GCallback', []) + '''  </namespace>
</repository>
'''
STANDIN_GIO = _HEAD + '''  <include name="GObject" version="2.0"/>
  <namespace name="Gio" version="2.0" shared-library="" c:identifier-prefixes="G" c:symbol-prefixes="g">
    <class name="Cancellable" c:symbol-prefix="cancellable" c:type="GCancellable" parent="GObject.Object" glib:type-name="GCancellable" glib:get-type="g_cancellable_get_type">
      <field name="parent_instance"><type name="GObject.Object" c:type="GObject"/></field>
    </class>
    <interface name="AsyncResult" c:symbol-prefix="async_result" c:type="GAsyncResult" glib:type-name="GAsyncResult" glib:get-type="g_async_result_get_type"/>
    <callback name="AsyncReadyCallback" c:type="GAsyncReadyCallback">
      <return-value transfer-ownership="none"><type name="none" c:type="void"/></return-value>
      <parameters>
        <parameter name="source_object" transfer-ownership="none" nullable="1" allow-none="1"><type name="GObject.Object" c:type="GObject*"/></parameter>
        <parameter name="res" transfer-ownership="none"><type name="AsyncResult" c:type="GAsyncResult*"/></parameter>
        <parameter name="data" transfer-ownership="none" nullable="1" allow-none="1" closure="2"><type name="gpointer" c:type="gpointer"/></parameter>
      </parameters>
    </callback>
  </namespace>
</repository>
'''
STANDINS = {'GLib-2.0': STANDIN_GLIB, 'GObject-2.0': STANDIN_GOBJECT, 'Gio-2.0': STANDIN_GIO}


# ---------------------------------------------------------------------------------------------
# generator of API descriptions (scanpipe configurations)
# ---------------------------------------------------------------------------------------------
def T(name, q=0):
    import scanpipe
    return scanpipe.T(name, q)


def P(t, depth=1, q=0):
    import scanpipe
    return scanpipe.P(t, depth, q)


BASIC_C = ['int', 'unsigned int', 'char', 'unsigned char', 'short', 'long', 'unsigned long', 'float', 'double',
           'gboolean', 'gint8', 'guint8', 'gint16', 'guint16', 'gint32', 'guint32', 'gint64', 'guint64', 'gsize',
           'gssize', 'gunichar', 'GType', 'gint', 'guint', 'glong', 'gulong', 'gdouble', 'gfloat', 'gchar']
STAB = ['Stable', 'Unstable', 'Private']


class Gen(object):
    """One generated namespace.  `feat` are the probabilities of the rarer constructs; the ones in
    RARE trigger known defects of the compiler that stop it (abort / fatal), so they are kept
    rare in the stream (and always present in the corpus) to leave the rest of the GIR judged."""

    RARE = {'alias_attributes': 0.03, 'record_in_record': 0.02, 'union_in_union': 0.015, 'callback_in_union': 0.02,
            'member_skip': 0.04, 'field_skip': 0.05, 'anon_union_in_record': 0.04, 'anon_record_in_union': 0.03,
            'inout_nullable': 0.04, 'must_collect': 0.03, 'return_skip_no_transfer': 0.03}

    def __init__(self, rng, idx, boost=None):
        self.rng = rng
        self.idx = idx
        self.ns = 'Foo'
        self.idp = 'Foo'
        self.symp = 'foo'
        self.decls = []
        self.comments = []
        self.dump = []
        self.line = 10
        self.cline = 1
        self.uses_gobject = False
        self.uses_glib = False
        self.uses_gio = False
        self.n = 0
        self.records = []     # (CName, kind) usable as parameter types
        self.enums = []
        self.callbacks = []   # (CName, has_user_data)
        self.classes = []
        self.ifaces = []
        self.features = set()
        self.rare = dict(self.RARE)
        if boost:
            for k in self.rare:
                self.rare[k] = boost.get(k, self.rare[k])
        self.boost = boost or {}

    # ---- helpers
    def p(self, x):
        return self.rng.random() < x

    def rare_p(self, name):
        if self.rng.random() < self.rare[name]:
            self.features.add(name)
            return True
        return False

    def uid(self, stem):
        self.n += 1
        return '%s%d' % (stem, self.n)

    def nl(self):
        self.line += self.rng.randint(1, 9)
        return self.line

    def add(self, d):
        d.setdefault('line', self.nl())
        self.decls.append(d)

    def comment(self, text, cfile=None):
        self.cline += 40
        self.comments.append((text, cfile or '/src/%s.c' % self.symp, self.cline))

    def block(self, ident, params=(), tags=(), desc=None, ann=''):
        """a GTK-Doc comment block; params: [(name, annotations, description)]; tags: [(Tag, value-and-description)]"""
        lines = ['/**', ' * %s:%s' % (ident, (' ' + ann) if ann else '')]
        for name, a, d in params:
            lines.append(' * @%s:%s %s' % (name, (' ' + a + ':') if a else '', d or 'a parameter'))
        if desc:
            lines.append(' *')
            for l in desc.split('\n'):
                lines.append(' * ' + l if l else ' *')
        if tags:
            lines.append(' *')
        for tag, val in tags:
            lines.append(' * %s: %s' % (tag, val))
        lines.append(' */')
        self.comment('\n'.join(lines))

    def doc_text(self):
        r = self.rng
        pool = ['Does the thing.', 'A <b>bold</b> & "quoted" \'value\' with ]]> and <!-- markup -->.',
                'Line one.\nLine two with trailing spaces  \n\nParagraph |[ code ]| done.',
                'Unicode: café 中文 €.', 'See foo_bar() and #FooObj::sig and %FOO_CONST, @param.',
                'x' * r.randint(70, 200), '  leading spaces', 'tab\there']
        return r.choice(pool)

    def std_tags(self):
        r = self.rng
        tags = []
        if self.p(0.25):
            tags.append(('Since', r.choice(['1.2', '0.1', '2.0: since doc text'])))
        if self.p(0.25):
            tags.append(('Deprecated', r.choice(['1.4: use other', '2.2', '1.0: no longer\n *  useful'])))
        if self.p(0.15):
            tags.append(('Stability', r.choice(STAB)))
        return tags

    def node_ann(self, allow_skip=True):
        a = []
        if allow_skip and self.p(0.08):
            a.append('(skip)')
            self.features.add('skip')
        if self.p(0.1):
            a.append('(attributes %s=%s)' % (self.rng.choice(['k', 'org.gtk.A', 'doc.x']), self.rng.choice(['v', 'some-value', '1'])))
            self.features.add('attributes')
        return ' '.join(a)

    # ---- types
    def value_type(self):
        """(ctype json, 'class') for parameters/fields/returns"""
        r = self.rng
        k = r.random()
        if k < 0.45:
            return T(r.choice(BASIC_C)), 'basic'
        if k < 0.6:
            q = 2 if self.p(0.6) else 0
            return P(T('char', q)), 'string'
        if k < 0.65:
            return T('gpointer'), 'pointer'
        if k < 0.75 and self.records:
            n, kind = r.choice(self.records)
            return P(T(n)), 'record'
        if k < 0.8 and self.enums:
            return T(r.choice(self.enums)), 'enum'
        if k < 0.84 and self.classes:
            return P(T(r.choice(self.classes))), 'object'
        if k < 0.87 and self.uses_glib:
            self.features.add('glist')
            return P(T(r.choice(['GList', 'GSList', 'GHashTable', 'GPtrArray', 'GArray', 'GByteArray', 'GError', 'GVariant']))), 'container'
        if k < 0.9:
            return P(T(r.choice(['int', 'guint8', 'double', 'gsize']))), 'ptr-basic'
        if k < 0.93:
            return P(P(T('char'))), 'strv'
        if k < 0.95:
            return P(T('FooUnknownThing')), 'unknown'
        if k < 0.97 and self.records:
            n, kind = r.choice(self.records)
            return T(n), 'record-by-value'
        return T('int'), 'basic'

    # ---- declarations
    def gen_enum(self):
        r = self.rng
        name = self.uid('E')
        cname = self.idp + name
        bitfield = self.p(0.35)
        up = name.upper()
        members = []
        used = set()
        for i in range(r.randint(1, 5)):
            v = (1 << i) if bitfield else r.choice([i, i, -i - 1, i * 1000, 2 ** 31 - 1 - i, -2 ** 31 + i])
            if v in used and not self.p(0.3):
                v = i + 100
            used.add(v)
            members.append({'name': '%s_%s_%s' % (self.symp.upper(), up, r.choice(['ALPHA', 'BETA', 'GAMMA', 'X', 'LONG_NAME']) + str(i)),
                            'value': v})
        if self.p(0.1):
            members[-1]['private'] = True
        self.add({'d': 'typedef', 'name': cname, 'type': {'k': 'enum', 'n': None, 'members': members, 'bitfield': bitfield}})
        self.enums.append(cname)
        self.features.add('bitfield' if bitfield else 'enum')
        if self.p(0.5):
            params = [(m['name'], '', 'member doc') for m in members if self.p(0.6)]
            self.block(cname, params=params, desc=self.doc_text(), tags=self.std_tags(), ann=self.node_ann())
        for m in members:
            if self.p(0.12):
                ann = ''
                if self.rare_p('member_skip'):
                    ann = '(skip)'
                tags = [('Deprecated', '1.1: old')] if self.p(0.3) else []
                self.block(m['name'], desc='Member %s.' % m['name'], tags=tags, ann=ann)
                self.features.add('member_block')
        if self.p(0.25):
            # registered through the runtime dump
            sym = '%s_%s_get_type' % (self.symp, name.lower())
            self.add({'d': 'function', 'name': sym, 'ret': T('GType'), 'params': []})
            self.dump.append('<%s name="%s" get-type="%s">%s</%s>' % (
                'flags' if bitfield else 'enum', cname, sym,
                ''.join('<member name="%s" nick="%s" value="%d"/>' % (
                    m['name'], m['name'].split('_', 2)[-1].lower().replace('_', '-'), m['value'] & 0xffffffff)
                    for m in members if not m.get('private')),
                'flags' if bitfield else 'enum'))
            self.features.add('registered_enum')
        if self.p(0.2):
            # a static function of the enumeration
            self.gen_function(owner=(cname, name.lower(), 'enum'), force_kind='static')

    def gen_constant(self):
        r = self.rng
        name = '%s_%s' % (self.symp.upper(), self.uid('CONST'))
        k = r.random()
        d = {'d': 'const', 'name': name}
        if k < 0.4:
            d['int'] = r.choice([0, 1, -1, 42, 2 ** 31 - 1, -2 ** 31, 2 ** 40, 255])
            if self.p(0.3):
                d['type'] = T(r.choice(['guint8', 'gint64', 'guint', 'gshort', 'gsize']))
                if d['int'] < 0 and d['type'].get('n', '').startswith('gu'):
                    d['int'] = -d['int']
        elif k < 0.7:
            d['string'] = r.choice(['hello', '', 'with "quotes" & <angle>', 'café 中', 'a\\nb', 'tab\there', ' spaces  '])
        elif k < 0.9:
            d['double'] = r.choice([0.0, 1.5, -2.25, 3.141592653589793, 1e300, 1e-7])
        else:
            d['bool'] = r.choice([True, False])
        self.add(d)
        self.features.add('constant')
        if self.p(0.4):
            self.block(name, desc=self.doc_text(), tags=self.std_tags(), ann=self.node_ann())

    def gen_alias(self):
        r = self.rng
        name = self.uid('Al')
        cname = self.idp + name
        if self.records and self.p(0.3):
            target = T(r.choice(self.records)[0])
        elif self.p(0.2):
            target = P(T('char'))
        else:
            target = T(r.choice(BASIC_C))
        self.add({'d': 'typedef', 'name': cname, 'type': target})
        self.features.add('alias')
        if self.p(0.5):
            ann = '(skip)' if self.p(0.08) else ''
            if self.rare_p('alias_attributes'):
                ann = (ann + ' (attributes k=v)').strip()
            self.block(cname, desc=self.doc_text(), tags=self.std_tags(), ann=ann)
        return cname

    def fn_pointer(self, user_data=True):
        params = [{'name': 'x', 'type': T('int')}]
        if self.p(0.4):
            params.append({'name': 's', 'type': P(T('char', 2))})
        if user_data:
            params.append({'name': 'user_data', 'type': T('gpointer')})
        ret = T(self.rng.choice(['void', 'void', 'int', 'gboolean']))
        return {'k': 'ptr', 'to': {'k': 'func', 'ret': ret, 'params': params}}

    def gen_callback(self):
        name = self.uid('Cb')
        cname = self.idp + name
        ud = self.p(0.8)
        self.add({'d': 'typedef', 'name': cname, 'type': self.fn_pointer(ud)})
        self.callbacks.append((cname, ud))
        self.features.add('callback')
        if self.p(0.4):
            params = [('x', '', 'an x')]
            if ud and self.p(0.5):
                params.append(('user_data', '(closure)', 'data'))
            self.block(cname, params=params, desc=self.doc_text(), tags=self.std_tags(), ann=self.node_ann())
        return cname

    def gen_fields(self, owner_kind, depth=0):
        r = self.rng
        fields = []
        for i in range(r.randint(0, 5)):
            fname = 'f%d' % i
            k = r.random()
            if k < 0.45:
                f = {'name': fname, 'type': T(r.choice(BASIC_C))}
                if self.p(0.15) and f['type']['n'] in ('int', 'unsigned int', 'guint', 'gint', 'guint8'):
                    f['bits'] = r.randint(1, 7)
                    self.features.add('bits')
            elif k < 0.55:
                f = {'name': fname, 'type': P(T('char'))}
            elif k < 0.62:
                f = {'name': fname, 'type': {'k': 'array', 'of': T(r.choice(['int', 'guint8', 'double'])), 'n': r.randint(1, 8)}}
                self.features.add('fixed_array_field')
            elif k < 0.7 and self.records:
                n, kind = r.choice(self.records)
                f = {'name': fname, 'type': P(T(n)) if self.p(0.7) else T(n)}
            elif k < 0.78:
                if owner_kind == 'union':
                    if not self.rare_p('callback_in_union'):
                        continue
                f = {'name': fname, 'type': self.fn_pointer(self.p(0.5))}
                self.features.add('callback_field')
            elif k < 0.83:
                f = {'name': fname, 'type': P(T('FooUnknownThing'))}
                self.features.add('unknown_field')
            elif k < 0.95 and depth < 2:
                # anonymous / inline compound member
                sub_kind = r.choice(['struct', 'union'])
                if owner_kind == 'struct' and sub_kind == 'struct':
                    if not self.rare_p('record_in_record'):
                        continue
                elif owner_kind == 'union' and sub_kind == 'union':
                    if not self.rare_p('union_in_union'):
                        continue
                elif owner_kind == 'struct':
                    if not self.rare_p('anon_union_in_record'):
                        continue
                else:
                    if not self.rare_p('anon_record_in_union'):
                        continue
                sub = {'k': sub_kind, 'n': None, 'fields': self.gen_fields(sub_kind, depth + 1) or
                       [{'name': 'z', 'type': T('int')}]}
                f = {'name': (fname if self.p(0.5) else None), 'type': sub}
            else:
                f = {'name': fname, 'type': T('gpointer')}
            if self.p(0.15):
                f['private'] = True
                self.features.add('private_field')
            fields.append(f)
        return fields

    def gen_compound(self, kind=None):
        r = self.rng
        kind = kind or r.choice(['struct', 'struct', 'union'])
        name = self.uid('Rec' if kind == 'struct' else 'Un')
        cname = self.idp + name
        tag = '_' + cname
        shape = r.random()
        if shape < 0.1 and kind == 'struct':
            # opaque: typedef without a body
            self.add({'d': 'typedef', 'name': cname, 'type': {'k': 'struct', 'n': tag}})
            self.features.add('opaque_record')
        elif shape < 0.15 and kind == 'struct':
            # pointer typedef
            self.add({'d': 'typedef', 'name': cname, 'type': P({'k': 'struct', 'n': tag})})
            self.features.add('pointer_record')
        else:
            fields = self.gen_fields(kind)
            self.add({'d': kind, 'name': tag, 'fields': fields})
            self.add({'d': 'typedef', 'name': cname, 'type': {'k': kind, 'n': tag}})
            params = []
            for f in fields:
                if f.get('name') and self.p(0.3):
                    a = ''
                    params.append((f['name'], a, 'field doc'))
            if self.p(0.5):
                ann = self.node_ann()
                if kind == 'struct' and self.p(0.06):
                    ann = (ann + ' (foreign)').strip()
                    self.features.add('foreign')
                self.block(cname, params=params, desc=self.doc_text(), tags=self.std_tags(), ann=ann)
            for f in fields:
                if f.get('name') and self.rare_p('field_skip'):
                    self.block('%s.%s' % (cname, f['name']), desc='Skipped field.', ann='(skip)')
        self.records.append((cname, kind))
        self.features.add('record' if kind == 'struct' else 'union')
        lower = name.lower()
        boxed = self.p(0.25) and shape >= 0.15
        if boxed:
            sym = '%s_%s_get_type' % (self.symp, lower)
            self.add({'d': 'function', 'name': sym, 'ret': T('GType'), 'params': []})
            self.dump.append('<boxed name="%s" get-type="%s"/>' % (cname, sym))
            self.features.add('boxed_' + kind)
        for _ in range(r.choice([0, 0, 1, 2, 3])):
            self.gen_function(owner=(cname, lower, kind))
        if self.p(0.3):
            cp = '%s_%s_copy' % (self.symp, lower)
            fr = '%s_%s_free' % (self.symp, lower)
            self.add({'d': 'function', 'name': cp, 'ret': P(T(cname)), 'params': [{'name': 'self', 'type': P(T(cname))}]})
            self.add({'d': 'function', 'name': fr, 'ret': T('void'), 'params': [{'name': 'self', 'type': P(T(cname))}]})
            self.features.add('copy_free')
        return cname

    def gen_bare_boxed(self):
        name = self.uid('Bare')
        cname = self.idp + name
        sym = '%s_%s_get_type' % (self.symp, name.lower())
        self.add({'d': 'function', 'name': sym, 'ret': T('GType'), 'params': []})
        self.dump.append('<boxed name="%s" get-type="%s"/>' % (cname, sym))
        self.features.add('glib_boxed')
        if self.p(0.5):
            self.add({'d': 'function', 'name': '%s_%s_frob' % (self.symp, name.lower()), 'ret': T('void'),
                      'params': [{'name': 'x', 'type': T('int')}]})

    def gen_params(self, nmax=5):
        """returns (params json, block params [(name, ann, desc)], return annotations, throws)"""
        r = self.rng
        params = []
        bparams = []
        n = r.randint(0, nmax)
        i = 0
        while i < n:
            pname = 'p%d' % i
            kind = r.random()
            ann = []
            if kind < 0.12 and self.callbacks:
                cbname, ud = r.choice(self.callbacks)
                scope = r.choice(['call', 'async', 'notified', 'forever', None])
                params.append({'name': pname, 'type': T(cbname)})
                a = []
                if scope:
                    a.append('(scope %s)' % scope)
                    self.features.add('scope_' + scope)
                if self.p(0.3):
                    a.append('(nullable)')
                has_data = self.p(0.8)
                has_destroy = scope == 'notified' and self.uses_glib and self.p(0.8)
                if has_data and self.p(0.5):
                    a.append('(closure %s_data)' % pname)
                    self.features.add('closure')
                if has_destroy and self.p(0.7):
                    a.append('(destroy %s_destroy)' % pname)
                    self.features.add('destroy')
                bparams.append((pname, ' '.join(a), 'a callback'))
                if has_data:
                    params.append({'name': pname + '_data', 'type': T('gpointer')})
                    bparams.append((pname + '_data', '', 'user data'))
                if has_destroy:
                    params.append({'name': pname + '_destroy', 'type': T('GDestroyNotify')})
                    bparams.append((pname + '_destroy', '', 'destroy'))
                i += 1
                continue
            if kind < 0.2:
                # array + length
                et = r.choice(['int', 'guint8', 'double', 'char*'])
                if et == 'char*':
                    ty = P(P(T('char')))
                else:
                    ty = P(T(et))
                params.append({'name': pname, 'type': ty})
                mode = r.choice(['length', 'fixed', 'zt', 'length+zt', 'bare'])
                if mode.startswith('length'):
                    a = '(array length=%s_len%s)' % (pname, ' zero-terminated=1' if mode == 'length+zt' else '')
                    bparams.append((pname, a + (' (transfer %s)' % r.choice(['none', 'container', 'full']) if self.p(0.3) else ''), 'an array'))
                    params.append({'name': pname + '_len', 'type': T(r.choice(['int', 'gsize', 'guint']))})
                    bparams.append((pname + '_len', '', 'length'))
                elif mode == 'fixed':
                    bparams.append((pname, '(array fixed-size=%d)' % r.randint(1, 9), 'an array'))
                elif mode == 'zt':
                    bparams.append((pname, '(array zero-terminated=1)', 'an array'))
                else:
                    bparams.append((pname, '(array)', 'an array'))
                self.features.add('array_' + mode)
                i += 1
                continue
            ty, cls = self.value_type()
            a = []
            d = r.random()
            if cls in ('ptr-basic', 'record', 'string', 'strv', 'object', 'container', 'unknown') or ty.get('k') == 'ptr':
                if d < 0.25:
                    a.append(r.choice(['(out)', '(out caller-allocates)', '(out callee-allocates)', '(out) (optional)',
                                       '(out) (optional) (nullable)', '(out) (nullable)', '(out) (allow-none)']))
                    self.features.add('out')
                    if cls in ('string', 'object', 'record', 'container') and self.p(0.5):
                        ty = P(ty)
                elif d < 0.35:
                    if self.rare_p('inout_nullable'):
                        a.append('(inout) (nullable)')
                    else:
                        a.append(r.choice(['(inout)', '(inout) (optional)', '(inout) (transfer full)']))
                    self.features.add('inout')
                    if cls in ('string', 'object', 'record', 'container') and self.p(0.5):
                        ty = P(ty)
                elif d < 0.5:
                    a.append(r.choice(['(nullable)', '(allow-none)', '(not nullable)', '(optional)']))
                elif d < 0.55:
                    a.append('(in)')
            if self.p(0.2):
                a.append('(transfer %s)' % r.choice(['none', 'container', 'full', 'floating']))
                self.features.add('transfer_ann')
            if self.p(0.05):
                a.append('(skip)')
                self.features.add('param_skip')
            if cls == 'container' and self.p(0.6):
                a.append('(element-type %s)' % r.choice(['utf8', 'gint', 'guint8', 'gpointer']))
            if cls == 'pointer' and self.p(0.3):
                a.append('(type %s)' % r.choice(['utf8', 'gint', 'filename']))
            if self.p(0.05):
                a.append('(attributes pa=pv)')
                self.features.add('param_attributes')
            params.append({'name': pname, 'type': ty})
            if a or self.p(0.7):
                bparams.append((pname, ' '.join(a), 'doc of %s' % pname if self.p(0.8) else self.doc_text().split('\n')[0]))
            i += 1
        throws = False
        if self.uses_glib and self.p(0.15):
            params.append({'name': 'error', 'type': P(P(T('GError')))})
            throws = True
            self.features.add('throws')
        if self.p(0.04):
            params.append({'ellipsis': True})
            self.features.add('varargs')
        return params, bparams, throws

    def gen_return(self):
        r = self.rng
        if self.p(0.35):
            return T('void'), ''
        ty, cls = self.value_type()
        a = []
        if self.p(0.3):
            a.append('(transfer %s)' % r.choice(['none', 'container', 'full', 'floating']))
        if ty.get('k') == 'ptr' and self.p(0.25):
            a.append(r.choice(['(nullable)', '(not nullable)', '(allow-none)']))
        if self.p(0.05):
            a.append('(skip)')
            self.features.add('return_skip')
            if cls in ('record', 'object', 'unknown', 'container') and not any(x.startswith('(transfer') for x in a):
                if not self.rare_p('return_skip_no_transfer'):
                    a.append('(transfer none)')
        if cls == 'container' and self.p(0.6):
            a.append('(element-type %s)' % r.choice(['utf8', 'gint', 'gpointer']))
        if cls == 'strv' and self.p(0.5):
            a.append('(array zero-terminated=1)')
        if self.p(0.04):
            a.append('(attributes ra=rv)')
        return ty, ' '.join(a)

    def gen_function(self, owner=None, force_kind=None):
        """owner = (CName, lower, kind) makes methods / constructors / static functions"""
        r = self.rng
        params, bparams, throws = self.gen_params()
        ret, rann = self.gen_return()
        fname = self.uid('fn')
        kind = force_kind or (r.choice(['method', 'method', 'constructor', 'static']) if owner else 'function')
        if owner:
            cname, lower, okind = owner
            if kind == 'method':
                params.insert(0, {'name': 'self', 'type': P(T(cname), q=(2 if self.p(0.1) else 0))})
                bparams.insert(0, ('self', r.choice(['', '', '(transfer full)', '(nullable)']), 'the instance'))
                sym = '%s_%s_%s' % (self.symp, lower, fname)
            elif kind == 'constructor':
                ret, rann = P(T(cname)), r.choice(['', '(transfer full)', '(transfer none)'])
                sym = '%s_%s_new%s' % (self.symp, lower, ('_' + fname) if self.p(0.6) else '')
            else:
                sym = '%s_%s_%s' % (self.symp, lower, fname)
        else:
            sym = '%s_%s' % (self.symp, fname)
        if any(d.get('name') == sym for d in self.decls):
            sym += '_x'
        d = {'d': 'function', 'name': sym, 'ret': ret, 'params': params}
        if self.p(0.06):
            d['inline'] = True
            self.features.add('inline')
        self.add(d)
        self.features.add(kind)
        ann = self.node_ann()
        if self.p(0.04):
            ann = (ann + ' (constructor)').strip() if owner else ann
        tags = self.std_tags()
        if rann or (ret.get('k') != 'void' and self.p(0.7)):
            tags.append(('Returns', ('%s: ' % rann if rann else '') + 'the result'))
        if self.p(0.85) or ann or bparams:
            self.block(sym, params=bparams, desc=self.doc_text() if self.p(0.7) else None, tags=tags, ann=ann)
        return sym, d

    ARRAY_VARIANTS = ['fixed-size=4 zero-terminated=1', 'fixed-size=4', 'fixed-size=2', 'zero-terminated=1',
                      'length=n', 'length=n zero-terminated=1', 'fixed-size=4 zero-terminated=0', '']

    def gen_array_family(self):
        """several array parameters / return values that share the element type and differ in exactly one of the
        flags an <array> states (the compiler shares one type blob between identical types: whichever comes first
        must not decide the flags of the others), the same options again on another element type"""
        r = self.rng
        elems = r.sample([('str', P(P(T('char', 2)))), ('int', P(T('int'))), ('u8', P(T('guint8'))), ('dbl', P(T('double'))),
                          ('strv', P(P(P(T('char')))))], r.choice([1, 2, 2, 3]))
        variants = r.sample(self.ARRAY_VARIANTS, r.randint(3, len(self.ARRAY_VARIANTS)))
        # the pair the flags of which differ in zero-terminated only is always there, in either order
        for must in (['fixed-size=4 zero-terminated=1', 'fixed-size=4'], ['length=n zero-terminated=1', 'length=n']):
            if self.p(0.7):
                for v in must:
                    if v not in variants:
                        variants.append(v)
        jobs = [(en, et, v) for en, et in elems for v in variants]
        r.shuffle(jobs)
        fam = self.uid('arr')
        for k, (en, et, v) in enumerate(jobs):
            sym = '%s_%s_%s_%d' % (self.symp, fam, en, k)
            as_return = self.p(0.25) and 'length' not in v
            ann = '(array%s)' % ((' ' + v.replace('length=n', 'length=n')) if v else '')
            if en == 'strv' and not as_return:
                ann += ' (element-type utf8)' if False else ''
            if as_return:
                self.add({'d': 'function', 'name': sym, 'ret': et, 'params': []})
                self.block(sym, desc='Array family.', tags=[('Returns', '%s (transfer none): the array' % ann)])
            else:
                params = [{'name': 'a', 'type': et}]
                bparams = [('a', ann + (' (transfer none)' if self.p(0.3) else ''), 'the array')]
                if 'length' in v:
                    params.append({'name': 'n', 'type': T(r.choice(['int', 'gsize', 'guint']))})
                    bparams.append(('n', '', 'its length'))
                if self.p(0.3):
                    params.insert(0, {'name': 'first', 'type': T('int')})
                    bparams.insert(0, ('first', '', 'something before'))
                self.add({'d': 'function', 'name': sym, 'ret': T('void'), 'params': params})
                self.block(sym, params=bparams, desc='Array family.')
        self.features.add('array_family')
        for v in variants:
            self.features.add('array_family:' + (v or 'bare'))

    def _padded(self, stem, extra):
        """a C identifier `stem` lengthened by `extra` characters"""
        pad = 'abcdefghijklmnopqrstuvwxyz'
        return stem + ('_' + pad[:extra - 1] if extra > 0 else '')

    def gen_copyfree_family(self):
        """records / unions (opaque, 0-3 fields, boxed or plain) annotated (copy-func) / (free-func) in every combination,
        the two names of equal and of different lengths (1..12 characters either way), the named functions being
        introspectable methods of the record, (skip)ped, or plain functions elsewhere (so that the names are — or are
        not — already in the typelib's string pool when the compiler reserves room for them)"""
        r = self.rng
        for _ in range(r.randint(1, 4)):
            kind = r.choice(['struct', 'struct', 'struct', 'union'])
            name = self.uid('Tok' if kind == 'struct' else 'Var')
            cname = self.idp + name
            lower = name.lower()
            tag = '_' + cname
            nfields = r.choice([0, 0, 1, 2, 3])
            if kind == 'union':
                nfields = max(nfields, 1)
            fields = [{'name': 'v%d' % i, 'type': T(r.choice(['int', 'double', 'gpointer', 'guint8']))} for i in range(nfields)]
            if nfields == 0 and self.p(0.6):
                self.add({'d': 'typedef', 'name': cname, 'type': {'k': 'struct', 'n': tag}})       # opaque
                self.features.add('copyfree:opaque')
            else:
                self.add({'d': kind, 'name': tag, 'fields': fields})
                self.add({'d': 'typedef', 'name': cname, 'type': {'k': kind, 'n': tag}})
            self.features.add('copyfree:fields=%d' % nfields)
            combo = r.choice(['none', 'copy', 'free', 'both', 'both', 'both'])
            where = r.choice(['method', 'skipped', 'elsewhere', 'mixed'])
            delta = r.choice([0, 0] + list(range(1, 13)))
            longer = r.choice(['copy', 'free'])
            stem = ('%s_%s' % (self.symp, lower)) if where in ('method', 'skipped', 'mixed') else ('%s_util_%s' % (self.symp, lower))
            copy = self._padded(stem + '_dup', delta if longer == 'copy' else 0)
            free = self._padded(stem + '_rel', delta if longer == 'free' else 0)
            ann = []
            if combo in ('copy', 'both'):
                ann.append('(copy-func %s)' % copy)
            if combo in ('free', 'both'):
                ann.append('(free-func %s)' % free)
            self.block(cname, desc='A token.', ann=' '.join(ann))
            self.features.add('copyfree:%s' % combo)
            self.features.add('copyfree:where=%s' % where)
            self.features.add('copyfree:delta=%s%d' % ('+' if longer == 'free' else '-', delta) if delta else 'copyfree:delta=0')
            declare = self.p(0.85)      # the annotation may also name a function the header does not declare
            if declare:
                sk_copy = where == 'skipped' or (where == 'mixed' and self.p(0.5))
                sk_free = where == 'skipped' or (where == 'mixed' and not sk_copy)
                if combo in ('copy', 'both') or self.p(0.3):
                    self.add({'d': 'function', 'name': copy, 'ret': P(T(cname)), 'params': [{'name': 'self', 'type': P(T(cname))}]})
                    self.block(copy, params=[('self', '', 'it')], desc='Copies.', tags=[('Returns', '(transfer full): a copy')],
                               ann='(skip)' if sk_copy else '')
                if combo in ('free', 'both') or self.p(0.3):
                    self.add({'d': 'function', 'name': free, 'ret': T('void'), 'params': [{'name': 'self', 'type': P(T(cname))}]})
                    self.block(free, params=[('self', '', 'it')], desc='Frees.', ann='(skip)' if sk_free else '')
            for _k in range(r.choice([0, 0, 1, 2])):
                self.gen_function(owner=(cname, lower, kind), force_kind=r.choice(['method', 'static', 'constructor']))
            if self.p(0.3) and kind == 'struct':
                sym = '%s_%s_get_type' % (self.symp, lower)
                self.add({'d': 'function', 'name': sym, 'ret': T('GType'), 'params': []})
                self.dump.append('<boxed name="%s" get-type="%s"/>' % (cname, sym))
                self.features.add('copyfree:boxed')
            self.records.append((cname, kind))
        self.features.add('copyfree')

    def class_value_funcs(self, cname, lower):
        """(ref-func) / (unref-func) / (set-value-func) / (get-value-func) of a class, names of different lengths, the
        functions declared as methods, skipped, or not at all -> annotation text"""
        r = self.rng
        ann = []
        for key, stem in (('ref-func', 'ref'), ('unref-func', 'unref'), ('set-value-func', 'value_set'), ('get-value-func', 'value_get')):
            if not self.p(0.6):
                continue
            fname = self._padded('%s_%s_%s' % (self.symp, lower, stem), r.choice([0, 0, 1, 2, 3, 5, 8, 12]))
            ann.append('(%s %s)' % (key, fname))
            how = r.choice(['method', 'skipped', 'absent'])
            if how != 'absent' and stem in ('ref', 'unref'):
                ret = P(T(cname)) if stem == 'ref' else T('void')
                self.add({'d': 'function', 'name': fname, 'ret': ret, 'params': [{'name': 'self', 'type': P(T(cname))}]})
                self.block(fname, params=[('self', '', 'it')], desc='%s.' % stem, ann='(skip)' if how == 'skipped' else '',
                           tags=[('Returns', '(transfer full): it')] if stem == 'ref' else [])
            self.features.add('class_funcs:%s:%s' % (key, how))
        return ' '.join(ann)

    def gen_late_callback_family(self):
        """compounds with NON-anonymous fields typed by named callback typedefs and alias chains over them, where the
        callback only turns out non-introspectable late in IntrospectablePass (fixed-point loop / parameter analysis
        of a later declaration): the field must then be written non-introspectable too, or the compiler cannot resolve
        its type.  Roots: va_list parameter, long double (direct or aliased), variadic, a (skip)ped type, another
        non-introspectable callback, an unknown type; plus an introspectable control."""
        r = self.rng
        fam = self.uid('Lc')
        made = []          # (kind, decl list, type name usable in a field)

        def cb(name, params, ret=None):
            return {'d': 'typedef', 'name': name, 'type': {'k': 'ptr', 'to': {'k': 'func', 'ret': ret or T('int'), 'params': params}}}
        roots = r.sample(['va_list', 'long_double', 'long_double_alias', 'variadic', 'skipped_type', 'nested_callback', 'unknown',
                          'long_double_return', 'ok'], r.randint(2, 6))
        for root in roots:
            name = '%s%s%s' % (self.idp, fam, ''.join(w.capitalize() for w in root.split('_')))
            decls = []
            if root == 'va_list':
                decls.append(cb(name + 'Func', [{'name': 'fmt', 'type': P(T('char', 2))}, {'name': 'args', 'type': T('va_list')}]))
            elif root == 'long_double':
                decls.append(cb(name + 'Func', [{'name': 'w', 'type': T('long double')}]))
            elif root == 'long_double_return':
                decls.append(cb(name + 'Func', [{'name': 'x', 'type': T('int')}], ret=T('long double')))
            elif root == 'long_double_alias':
                decls.append({'d': 'typedef', 'name': name + 'Weight', 'type': T('long double')})
                decls.append(cb(name + 'Func', [{'name': 'w', 'type': T(name + 'Weight')}]))
            elif root == 'variadic':
                decls.append(cb(name + 'Func', [{'name': 'fmt', 'type': P(T('char', 2))}, {'ellipsis': True}]))
            elif root == 'skipped_type':
                decls.append({'d': 'struct', 'name': '_' + name + 'Sk', 'fields': [{'name': 'v', 'type': T('int')}]})
                decls.append({'d': 'typedef', 'name': name + 'Sk', 'type': {'k': 'struct', 'n': '_' + name + 'Sk'}})
                self.block(name + 'Sk', desc='Skipped.', ann='(skip)')
                decls.append(cb(name + 'Func', [{'name': 's', 'type': P(T(name + 'Sk'))}]))
            elif root == 'nested_callback':
                decls.append(cb(name + 'Inner', [{'name': 'args', 'type': T('va_list')}]))
                decls.append(cb(name + 'Func', [{'name': 'inner', 'type': T(name + 'Inner')}, {'name': 'data', 'type': T('gpointer')}]))
            elif root == 'unknown':
                decls.append(cb(name + 'Func', [{'name': 'u', 'type': P(T('FooUnknownThing'))}]))
            else:
                decls.append(cb(name + 'Func', [{'name': 'x', 'type': T('int')}, {'name': 'user_data', 'type': T('gpointer')}]))
            tname = name + 'Func'
            # alias chain of depth 0-3 over the callback
            for k in range(r.choice([0, 0, 1, 2, 3])):
                decls.append({'d': 'typedef', 'name': '%sAl%d' % (name, k), 'type': T(tname)})
                tname = '%sAl%d' % (name, k)
                self.features.add('late_callback:alias-depth-%d' % (k + 1))
            made.append((root, decls, tname))
            self.features.add('late_callback:' + root)
        # the compounds using them, declared before or after the callbacks
        containers = []
        for ci in range(r.randint(1, 3)):
            kind = r.choice(['struct', 'struct', 'union'])
            cname = '%s%s%s%d' % (self.idp, fam, 'Ops' if kind == 'struct' else 'Any', ci)
            fields = [{'name': 'id', 'type': T('int')}]
            for root, _d, tname in r.sample(made, r.randint(1, len(made))):
                fields.append({'name': 'f_' + root, 'type': T(tname)})
                if self.p(0.3):
                    fields.append({'name': 'p_' + root, 'type': P(T(tname))})
            if kind == 'struct' and self.p(0.5):
                fields.insert(r.randint(0, len(fields)), {'name': 'vt', 'type': self.fn_pointer(self.p(0.5))})
            if self.p(0.4):
                fields.append({'name': 'tail', 'type': P(T('char'))})
            containers.append([{'d': kind, 'name': '_' + cname, 'fields': fields},
                               {'d': 'typedef', 'name': cname, 'type': {'k': kind, 'n': '_' + cname}}])
            self.records.append((cname, kind))
            self.features.add('late_callback:in-' + kind)
        if self.uses_gobject and self.classes and self.p(0.5):
            pass    # class instance structs are generated by gen_class; see below for a field added there
        groups = [d for _r, d, _t in made]
        order = r.choice(['callbacks-first', 'compounds-first', 'mixed'])
        self.features.add('late_callback:order:' + order)
        if order == 'callbacks-first':
            seq = groups + containers
        elif order == 'compounds-first':
            seq = containers + groups
        else:
            seq = groups + containers
            r.shuffle(seq)
        for g in seq:
            for d_ in g:
                self.add(d_)
        self.features.add('late_callback')

    def gen_shadow_pair(self):
        """foo_do and foo_do_full (rename-to foo_do): shadowed-by / shadows"""
        a = '%s_%s' % (self.symp, self.uid('act'))
        b = a + '_full'
        self.add({'d': 'function', 'name': a, 'ret': T('int'), 'params': [{'name': 'x', 'type': T('int')}]})
        self.add({'d': 'function', 'name': b, 'ret': T('int'), 'params': [{'name': 'x', 'type': T('int')}, {'name': 'y', 'type': T('int')}]})
        self.block(a, params=[('x', '', 'x')], desc='Short form.', tags=[('Returns', 'r')])
        self.block(b, params=[('x', '', 'x'), ('y', '', 'y')], desc='Long form.', tags=[('Returns', 'r')],
                   ann='(rename-to %s)' % a)
        self.features.add('shadows')

    def gen_macro(self):
        name = '%s_%s' % (self.symp.upper(), self.uid('MACRO'))
        self.add({'d': 'macro', 'name': name, 'params': ['a', 'b'][:self.rng.randint(0, 2)]})
        self.features.add('function_macro')
        if self.p(0.5):
            self.block(name, params=[('a', '', 'first')], desc='A macro.', tags=self.std_tags())

    def gen_docsection(self):
        self.comment('/**\n * SECTION:%s\n * @short_description: short\n * @title: Title\n *\n * %s\n */'
                     % (self.uid('sec'), self.doc_text().replace('\n', '\n * ')))
        self.features.add('docsection')

    def gen_class(self):
        r = self.rng
        self.uses_gobject = self.uses_glib = True
        name = self.uid('Obj')
        cname = self.idp + name
        lower = name.lower()
        parent_c, parent_g = 'GObject', 'GObject'
        chain = 'GObject'
        if self.classes and self.p(0.3):
            parent_c = r.choice(self.classes)
            parent_g = parent_c
            chain = parent_c + ',GObject'
        elif self.p(0.1):
            parent_c = parent_g = 'GInitiallyUnowned'
            chain = 'GInitiallyUnowned,GObject'
        fields = [{'name': 'parent_instance', 'type': T(parent_c)}]
        for i in range(r.randint(0, 2)):
            fields.append({'name': 'pub%d' % i, 'type': T(r.choice(BASIC_C))})
        if self.p(0.5):
            fields.append({'name': 'priv', 'type': P(T(cname + 'Private')), 'private': True})
            self.features.add('private_field')
        if self.p(0.25):
            # a public member typed by a named callback typedef that takes a va_list (declared after the class)
            lname = '%s%sLogFunc' % (self.idp, name)
            fields.append({'name': 'log', 'type': T(lname)})
            self._after_class = getattr(self, '_after_class', []) + [
                {'d': 'typedef', 'name': lname, 'type': {'k': 'ptr', 'to': {'k': 'func', 'ret': T('void'), 'params': [
                    {'name': 'fmt', 'type': P(T('char', 2))}, {'name': 'args', 'type': T('va_list')}]}}}]
            self.features.add('late_callback:in-class')
        opaque_instance = self.p(0.2)
        if opaque_instance:
            self.add({'d': 'typedef', 'name': cname, 'type': {'k': 'struct', 'n': '_' + cname}})
        else:
            self.add({'d': 'struct', 'name': '_' + cname, 'fields': fields})
            self.add({'d': 'typedef', 'name': cname, 'type': {'k': 'struct', 'n': '_' + cname}})
        # class struct with vfuncs
        cfields = [{'name': 'parent_class', 'type': T(parent_c + 'Class')}]
        vfuncs = []
        for i in range(r.choice([0, 1, 2])):
            vname = 'vf%d' % i
            vparams = [{'name': 'self', 'type': P(T(cname))}]
            if self.p(0.6):
                vparams.append({'name': 'n', 'type': T('int')})
            if self.p(0.2):
                vparams.append({'name': 'error', 'type': P(P(T('GError')))})
            vret = T(r.choice(['void', 'int', 'gboolean']))
            cfields.append({'name': vname, 'type': {'k': 'ptr', 'to': {'k': 'func', 'ret': vret, 'params': vparams}}})
            vfuncs.append((vname, vparams, vret))
        if self.p(0.3):
            cfields.append({'name': 'padding', 'type': {'k': 'array', 'of': T('gpointer'), 'n': 4}, 'private': True})
        has_class_struct = self.p(0.85)
        if has_class_struct:
            self.add({'d': 'struct', 'name': '_%sClass' % cname, 'fields': cfields})
            self.add({'d': 'typedef', 'name': cname + 'Class', 'type': {'k': 'struct', 'n': '_%sClass' % cname}})
        gt = '%s_%s_get_type' % (self.symp, lower)
        self.add({'d': 'function', 'name': gt, 'ret': T('GType'), 'params': []})
        for d_ in getattr(self, '_after_class', []):
            self.add(d_)
        self._after_class = []
        self.classes.append(cname)
        self.features.add('class')
        # invoker methods for vfuncs
        for vname, vparams, vret in vfuncs:
            if self.p(0.6):
                sym = '%s_%s_%s' % (self.symp, lower, vname)
                self.add({'d': 'function', 'name': sym, 'ret': vret, 'params': copy.deepcopy(vparams)})
                bl = [(p['name'], '', 'p') for p in vparams if p['name'] != 'error']
                self.block(sym, params=bl, desc='Invokes %s.' % vname, tags=self.std_tags() + ([('Returns', 'r')] if vret.get('k') != 'void' else []),
                           ann=('(virtual %s)' % vname) if self.p(0.3) else '')
                self.features.add('vfunc_invoker')
            if self.p(0.3):
                self.block('%s::%s' % (cname + 'Class', vname), desc='vfunc doc')
            self.features.add('vfunc')
        # constructors, methods, static functions
        self.gen_function(owner=(cname, lower, 'class'), force_kind='constructor')
        methods = []
        for _ in range(r.choice([0, 1, 2, 3])):
            sym, d = self.gen_function(owner=(cname, lower, 'class'))
            methods.append(sym)
        # properties / signals in the dump
        parts = []
        for i in range(r.choice([0, 1, 2, 3])):
            pn = r.choice(['prop', 'some-prop', 'x']) + str(i)
            flags = r.choice([1, 2, 3, 3, 3 | 4, 3 | 8, 1 | 8, 2 | 8, 3 | 4 | 32, 0])
            ptype = r.choice(['gint', 'gchararray', 'gboolean', 'gdouble', 'GObject', cname, 'gpointer', 'guint64', 'GStrv'] +
                             self.enums[:1])
            dv = ' default-value="%s"' % r.choice(['0', 'NULL', 'a &amp; b', 'TRUE']) if self.p(0.4) else ''
            parts.append('<property name="%s" type="%s" flags="%d"%s/>' % (pn, ptype, flags, dv))
            self.features.add('property')
            if self.p(0.5):
                ann = []
                if self.p(0.4):
                    ann.append('(transfer %s)' % r.choice(['none', 'full', 'container', 'floating']))
                if self.p(0.1):
                    ann.append('(skip)')
                if self.p(0.15):
                    ann.append('(attributes pk=pv)')
                if self.p(0.2):
                    ann.append('(default-value 7)')
                # accessor methods
                if self.p(0.5) and ptype == 'gint':
                    up = pn.replace('-', '_')
                    gs = '%s_%s_get_%s' % (self.symp, lower, up)
                    ss = '%s_%s_set_%s' % (self.symp, lower, up)
                    self.add({'d': 'function', 'name': gs, 'ret': T('int'), 'params': [{'name': 'self', 'type': P(T(cname))}]})
                    self.add({'d': 'function', 'name': ss, 'ret': T('void'), 'params': [{'name': 'self', 'type': P(T(cname))}, {'name': 'v', 'type': T('int')}]})
                    self.block(gs, params=[('self', '', 's')], desc='Getter.', tags=[('Returns', 'v')], ann='(get-property %s)' % pn)
                    self.block(ss, params=[('self', '', 's'), ('v', '', 'v')], desc='Setter.', ann='(set-property %s)' % pn)
                    ann.append('(getter get_%s)' % up)
                    ann.append('(setter set_%s)' % up)
                    self.features.add('accessors')
                self.block('%s:%s' % (cname, pn), desc=self.doc_text(), tags=self.std_tags(), ann=' '.join(ann))
        for i in range(r.choice([0, 1, 2])):
            sn = r.choice(['changed', 'item-added', 'sig']) + str(i)
            when = r.choice(['first', 'last', 'last', 'cleanup'])
            if self.rare_p('must_collect'):
                when = 'must-collect'
            fl = ''.join(' %s="1"' % f for f in ('no-recurse', 'detailed', 'action', 'no-hooks') if self.p(0.25))
            nparams = r.randint(0, 3)
            ptypes = [r.choice(['gint', 'gchararray', 'GObject', 'gpointer', 'gboolean', cname]) for _ in range(nparams)]
            parts.append('<signal name="%s" return="%s" when="%s"%s>%s</signal>' % (
                sn, r.choice(['void', 'void', 'gboolean', 'gint']), when, fl,
                ''.join('<param type="%s"/>' % t for t in ptypes)))
            self.features.add('signal')
            if self.p(0.5):
                bl = [('self', '', 'the object')] + [('arg%d' % k, r.choice(['', '(nullable)', '(transfer none)']) if ptypes[k] in ('gchararray', 'GObject', 'gpointer') else '', 'arg')
                                                      for k in range(nparams)]
                ann = '(skip)' if self.p(0.08) else ''
                self.block('%s::%s' % (cname, sn), params=bl, desc=self.doc_text(), tags=self.std_tags(), ann=ann)
        impl = ''
        if self.ifaces and self.p(0.5):
            impl = '<implements name="%s"/>' % r.choice(self.ifaces)
            self.features.add('implements')
        abstract = ' abstract="1"' if self.p(0.2) else ''
        final = ' final="1"' if (not abstract and self.p(0.15)) else ''
        self.dump.append('<class name="%s" get-type="%s" parents="%s"%s%s>%s%s</class>' % (
            cname, gt, chain, abstract, final, impl, ''.join(parts)))
        vf_ann = self.class_value_funcs(cname, lower) if self.p(0.35) else ''
        if vf_ann or self.p(0.5):
            self.block(cname, desc=self.doc_text(), tags=self.std_tags(), ann=(self.node_ann() + ' ' + vf_ann).strip())
        return cname

    def gen_interface(self):
        r = self.rng
        self.uses_gobject = self.uses_glib = True
        name = self.uid('Ifc')
        cname = self.idp + name
        lower = name.lower()
        self.add({'d': 'typedef', 'name': cname, 'type': {'k': 'struct', 'n': '_' + cname}})
        cfields = [{'name': 'g_iface', 'type': T('GTypeInterface')}]
        for i in range(r.choice([0, 1, 2])):
            vparams = [{'name': 'self', 'type': P(T(cname))}, {'name': 'n', 'type': T('int')}]
            cfields.append({'name': 'ivf%d' % i, 'type': {'k': 'ptr', 'to': {'k': 'func', 'ret': T('void'), 'params': vparams}}})
            self.features.add('vfunc')
        self.add({'d': 'struct', 'name': '_%sInterface' % cname, 'fields': cfields})
        self.add({'d': 'typedef', 'name': cname + 'Interface', 'type': {'k': 'struct', 'n': '_%sInterface' % cname}})
        gt = '%s_%s_get_type' % (self.symp, lower)
        self.add({'d': 'function', 'name': gt, 'ret': T('GType'), 'params': []})
        for _ in range(r.choice([0, 1, 2])):
            self.gen_function(owner=(cname, lower, 'interface'), force_kind=r.choice(['method', 'method', 'static']))
        parts = ['<prerequisite name="GObject"/>'] if self.p(0.7) else []
        if self.p(0.5):
            parts.append('<property name="iprop" type="%s" flags="%d"/>' % (r.choice(['gint', 'gboolean', 'gchararray']), r.choice([1, 3])))
        if self.p(0.5):
            parts.append('<signal name="isig" return="void" when="%s"><param type="gint"/></signal>' % r.choice(['first', 'last', 'cleanup']))
        self.dump.append('<interface name="%s" get-type="%s">%s</interface>' % (cname, gt, ''.join(parts)))
        self.ifaces.append(cname)
        self.features.add('interface')
        if self.p(0.4):
            self.block(cname, desc=self.doc_text(), tags=self.std_tags(), ann=self.node_ann())

    # ---- whole namespace
    def build(self):
        r = self.rng
        self.uses_glib = self.p(0.6)
        want_gobject = self.p(0.45)
        self.uses_gio = want_gobject and self.p(0.15)
        menu = [('enum', 3), ('constant', 3), ('alias', 2), ('callback', 2), ('compound', 4), ('function', 6),
                ('shadow', 1), ('macro', 1), ('docsection', 1), ('bare_boxed', 0.5)]
        if want_gobject:
            menu += [('class', 4), ('interface', 2)]
            self.uses_gobject = self.uses_glib = True
        names = [m for m, _ in menu]
        weights = [w for _, w in menu]
        if want_gobject and self.p(0.7):
            self.gen_interface() if self.p(0.4) else None
            self.gen_class()
        for _ in range(r.randint(2, 9)):
            what = r.choices(names, weights)[0]
            if what == 'enum':
                self.gen_enum()
            elif what == 'constant':
                self.gen_constant()
            elif what == 'alias':
                self.gen_alias()
            elif what == 'callback':
                self.gen_callback()
            elif what == 'compound':
                self.gen_compound()
            elif what == 'function':
                self.gen_function()
            elif what == 'shadow':
                self.gen_shadow_pair()
            elif what == 'macro':
                self.gen_macro()
            elif what == 'docsection':
                self.gen_docsection()
            elif what == 'bare_boxed':
                self.gen_bare_boxed()
            elif what == 'class':
                self.gen_class()
            elif what == 'interface':
                self.gen_interface()
        if self.p(0.5) or self.boost.get('array_family'):
            self.gen_array_family()
        if self.p(0.45) or self.boost.get('late_callback'):
            self.gen_late_callback_family()
        if self.p(0.5) or self.boost.get('copyfree'):
            self.gen_copyfree_family()
        if self.uses_gio and self.p(0.8):
            self.add({'d': 'function', 'name': '%s_do_async' % self.symp, 'ret': T('void'),
                      'params': [{'name': 'cancellable', 'type': P(T('GCancellable'))},
                                 {'name': 'callback', 'type': T('GAsyncReadyCallback')},
                                 {'name': 'user_data', 'type': T('gpointer')}]})
            self.block('%s_do_async' % self.symp, params=[('cancellable', '(nullable)', 'c'), ('callback', '(scope async)', 'cb'),
                                                          ('user_data', '', 'data')], desc='Async.')
            self.features.add('gio_async')
        cfg = {'namespace': self.ns, 'version': r.choice(['1.0', '1.0', '2.0', '0.1']), 'id_prefixes': [self.idp],
               'sym_prefixes': [self.symp], 'decls': self.decls, 'comments': [list(c) for c in self.comments],
               'shared_libraries': r.choice([[], ['libfoo.so.0'], ['libfoo.so.0', 'libbar.so.1']]),
               'c_includes': r.choice([[], ['foo.h'], ['foo.h', 'foo-extra.h']]),
               'packages': r.choice([[], ['foo-1.0'], ['gobject-2.0']]),
               'dump': ('<?xml version="1.0"?><dump>%s</dump>' % ''.join(self.dump)) if (self.dump or self.p(0.1)) else None,
               'deps': (['Gio-2.0'] if self.uses_gio else ['GObject-2.0'] if self.uses_gobject else ['GLib-2.0'] if self.uses_glib else [])}
        return cfg


# ---------------------------------------------------------------------------------------------
# running the real pair
# ---------------------------------------------------------------------------------------------
class Env(object):
    """C build of /repo (this run), stand-in dependency GIRs + their typelibs."""

    def __init__(self, ctx):
        import cbuild
        self.ctx = ctx
        self.cbuild = cbuild
        self.dir = os.path.join(ctx.scratch, 'c15')
        self.inc = os.path.join(self.dir, 'inc')
        os.makedirs(self.inc, exist_ok=True)
        self.cb = cbuild.CBuild(os.path.join(self.dir, 'build')).compile_all()
        self.compiler = self.cb.compiler()
        self.walker = None
        self.walker_error = None
        try:
            self.walker = self.cb.cdriver('c15_walk')
        except HarnessError as e:
            self.walker_error = str(e)
        self.states = None
        self.states_error = None
        try:
            # the state tracer #includes girparser.c, so it is linked without girparser.o
            cb2 = copy.copy(self.cb)
            cb2.objs = [o for o in self.cb.objs if not o.endswith('girepository_girparser.o')]
            self.states = cb2.cdriver('c15_states')
        except HarnessError as e:
            self.states_error = str(e)
        for name, text in STANDINS.items():
            with open(os.path.join(self.inc, name + '.gir'), 'w') as f:
                f.write(text)
        for name in ('GLib-2.0', 'GObject-2.0', 'Gio-2.0'):
            rc, out, err = self.compile(os.path.join(self.inc, name + '.gir'), os.path.join(self.inc, name + '.typelib'), [])
            if rc != 0 or err.strip():
                raise HarnessError('stand-in %s does not compile cleanly: rc=%s %s' % (name, rc, err[-400:]))
        self.n = 0

    def compile(self, gir, out, extra_inc):
        return self.cbuild.run_compiler(self.compiler, gir, out, includedirs=list(extra_inc) + [self.inc])

    def casedir(self):
        self.n += 1
        d = os.path.join(self.dir, 'case%d' % self.n)
        os.makedirs(d, exist_ok=True)
        return d

    def walk(self, typelib, ns, dirs):
        if not self.walker:
            return None, {'error': 'no-walker', 'message': self.walker_error}, ''
        p = subprocess.run([self.walker, typelib, ns] + list(dirs) + [self.inc], stdout=subprocess.PIPE,
                           stderr=subprocess.PIPE, timeout=120)
        out = p.stdout.decode('utf-8', 'replace')
        try:
            j = json.loads(out)
        except ValueError:
            j = {'error': 'walker-output', 'message': out[-300:]}
        return p.returncode, j, p.stderr.decode('utf-8', 'replace')

    def trace(self, gir_path, extra_inc=()):
        """[(kind 'S'|'E', element, state, prev_state, unknown_depth, stack_depth)] of the REAL parser"""
        if not self.states:
            return None
        args = [self.states, gir_path] + list(extra_inc) + [self.inc]
        p = subprocess.run(args, stdout=subprocess.PIPE, stderr=subprocess.PIPE, timeout=120)
        rows = []
        result = None
        for line in p.stdout.decode('utf-8', 'replace').splitlines():
            f = line.split('\t')
            if len(f) >= 6 and f[0] in ('S', 'E'):
                rows.append((f[0], f[1], int(f[2]), int(f[3]), int(f[4]), int(f[5])))
            elif len(f) >= 2 and f[0] == 'R':
                result = f[1]
        return rows, result, p.returncode, p.stderr.decode('utf-8', 'replace')


_scan_patched = [False]


def scan_cfg(cfg, env):
    """cfg -> (gir text | None, scanner diagnostics, failure reason)"""
    import scanpipe
    if not _scan_patched[0]:
        orig = scanpipe.build_symbol

        def build_symbol(d, default_file):
            s = orig(d, default_file)
            if d.get('d') == 'function' and d.get('inline'):
                try:
                    raw = s._symbol
                    raw.base_type.base_type.function_specifier |= scanpipe.mods().sourcescanner.FUNCTION_INLINE
                except AttributeError:
                    pass
            return s
        scanpipe.build_symbol = build_symbol
        _scan_patched[0] = True
    c = dict(cfg)
    deps = c.pop('deps', [])
    c['includes'] = [os.path.join(env.inc, d + '.gir') for d in deps]
    c['include_paths'] = [env.inc]
    old_stdout = sys.stdout
    sys.stdout = open(os.devnull, 'w')
    try:
        try:
            r = scanpipe.scan(c)
            return r['gir'], len(r.get('warnings') or []), None
        except SystemExit as e:
            return None, 0, 'scanner-fatal: %s' % (str(e)[:200])
        except Exception as e:  # noqa: the scanner itself refuses the description
            return None, 0, 'scanner-exception: %s: %s' % (type(e).__name__, str(e)[:200])
    finally:
        sys.stdout.close()
        sys.stdout = old_stdout


# ---------------------------------------------------------------------------------------------
# the oracle: what the GIR states (independent reading of the GIR, from the property statement
# and docs/gir-1.2.rnc) against what the typelib exposes through the public API
# ---------------------------------------------------------------------------------------------
def hidden(e):
    return e.get('introspectable') == '0' or e.get('shadowed-by') is not None


def exposed_name(e):
    return e.get('shadows') or e.get('name') or e.get(qn('glib:name'))


def kids(e, *tags):
    want = set(tags)
    return [c for c in e if local(c.tag) in want]


class Diff(object):
    def __init__(self):
        self.items = []   # (key, message)

    def add(self, key, msg):
        self.items.append((key, msg))

    def flag(self, what, path, gir, tl, suffix=''):
        if gir != tl:
            self.add('flag:%s:gir=%s:typelib=%s%s' % (what, _v(gir), _v(tl), suffix), '%s: GIR states %s=%r, typelib has %r'
                     % (path, what, gir, tl))


def _v(x):
    if x is True:
        return '1'
    if x is False:
        return '0'
    return str(x)


def b(e, attr, default=False):
    v = e.get(attr)
    if v is None:
        return default
    return v == '1'


def cmp_attrs(d, what, path, e, info):
    """the <attribute name= value=/> children of an introspectable element are key/value pairs the typelib exposes for it"""
    if info is None or 'attributes' not in info:
        return
    exp = {}
    for x in kids(e, 'attribute'):
        exp[x.get('name')] = x.get('value')
    got = dict((k, v) for k, v in info['attributes'].items() if k != '_')
    # what the GIR states must be there; more is not forbidden by the statement (the compiler itself records the
    # c:identifier of an enumeration member as an attribute)
    missing = sorted(k for k in exp if k not in got)
    differ = sorted(k for k in exp if k in got and exp[k] != got[k])
    if missing or differ:
        d.add('attributes:%s:%s' % (what, 'missing' if missing else 'value'),
              '%s: GIR states attributes %r on the <%s>, the typelib has %r' % (path, exp, what, got))


ARRAY_TYPES = {None: 0, 'GLib.Array': 1, 'GLib.PtrArray': 2, 'GLib.ByteArray': 3}


def gir_array_flags(arr):
    """(zero-terminated, fixed-size, length) an <array> states; the GIR convention (girwriter.py writes the attribute
    only when it is not implied, docs/gir-1.2.rnc): without zero-terminated= a C array is zero terminated iff it has
    neither length= nor fixed-size="""
    length, size, zero = arr.get('length'), arr.get('fixed-size'), arr.get('zero-terminated')
    zt = (zero == '1') if zero is not None else (length is None and size is None)

    def num(x):
        try:
            return int(x)
        except (TypeError, ValueError):
            return x
    return zt, (num(size) if size is not None else -1), (num(length) if length is not None else -1)


def cmp_type(d, what, path, holder, tl_type, depth=0):
    """the flags an <array> states (kind of array, zero-terminated, fixed-size, index of the length argument / field)
    for the type of a parameter, return value, field, property or constant, nested arrays and the element types of
    lists / hash tables included.  holder: the element whose child is the <type>/<array>."""
    if tl_type is None or depth > 6:
        return
    ty = kids(holder, 'array', 'type')
    if not ty:
        return
    ty = ty[0]
    if local(ty.tag) == 'array':
        if tl_type.get('tag') != 'array':
            d.add('kind:%s:array' % what, '%s: GIR states an <array>, the typelib has type %r' % (path, tl_type.get('tag')))
            return
        name = ty.get('name')
        if name in ARRAY_TYPES:
            d.flag('%s:array.kind' % what, path, ARRAY_TYPES[name], tl_type.get('array_type'))
        if name is None:
            zt, size, length = gir_array_flags(ty)
            d.flag('%s:array.zero-terminated' % what, path, zt, tl_type.get('zero_terminated'))
            d.flag('%s:array.fixed-size' % what, path, size, tl_type.get('fixed_size'))
            d.flag('%s:array.length' % what, path, length, tl_type.get('length'))
        cmp_type(d, what, path + '[]', ty, tl_type.get('p0'), depth + 1)
    else:
        sub = kids(ty, 'array', 'type')
        if sub and tl_type.get('tag') in ('glist', 'gslist', 'ghash'):
            # element types of a list / hash table: <type name="GLib.List"><type .../></type>
            for i, s_ in enumerate(sub[:2]):
                holder_i = ET.Element('x')
                holder_i.append(s_)
                cmp_type(d, what, '%s<%d>' % (path, i), holder_i, tl_type.get('p%d' % i), depth + 1)


def cmp_callable(d, path, e, a, is_signal=False):
    rv = kids(e, 'return-value')
    if rv:
        rv = rv[0]
        ret = a.get('ret', {})
        cmp_attrs(d, 'return-value', path, rv, ret)
        cmp_type(d, 'return-value', path + '()', rv, ret.get('type'))
        d.flag('return.transfer-ownership', path, rv.get('transfer-ownership'), ret.get('transfer'))
        d.flag('return.nullable', path, b(rv, 'nullable'), ret.get('nullable'))
        d.flag('return.skip', path, b(rv, 'skip'), ret.get('skip'))
    pe = kids(e, 'parameters')
    params = kids(pe[0], 'parameter') if pe else []
    inst = kids(pe[0], 'instance-parameter') if pe else []
    if inst:
        d.flag('instance-parameter.transfer-ownership', path, inst[0].get('transfer-ownership'), a.get('instance_transfer'))
    args = a.get('args', [])
    if len(params) != len(args):
        d.add('count:parameters', '%s: GIR has %d parameters, typelib %d' % (path, len(params), len(args)))
        return
    for i, (p, x) in enumerate(zip(params, args)):
        pp = '%s(%s)' % (path, p.get('name'))
        if p.get('name') is not None:
            d.flag('parameter.name', pp, p.get('name'), x.get('name'))
        direction = p.get('direction', 'in')
        d.flag('parameter:direction', pp, direction, x.get('direction'))
        d.flag('parameter:transfer-ownership', pp, p.get('transfer-ownership'), x.get('transfer'))
        d.flag('parameter:nullable', pp, b(p, 'nullable'), x.get('nullable'))
        suffix = ''
        if direction == 'inout' and p.get('allow-none') == '1' and p.get('optional') is None:
            suffix = ':inout+allow-none'
        d.flag('parameter:optional', pp, b(p, 'optional'), x.get('optional'), suffix)
        if direction == 'out':
            d.flag('parameter:caller-allocates', pp, b(p, 'caller-allocates'), x.get('caller_allocates'))
        d.flag('parameter:skip', pp, b(p, 'skip'), x.get('skip'))
        d.flag('parameter:scope', pp, p.get('scope', 'invalid'), x.get('scope'))
        d.flag('parameter:closure', pp, int(p.get('closure', '-1')), x.get('closure'))
        d.flag('parameter:destroy', pp, int(p.get('destroy', '-1')), x.get('destroy'))
        cmp_attrs(d, 'parameter', pp, p, x)
        cmp_type(d, 'parameter', pp, p, x.get('type'))


def cmp_function(d, path, e, a, vis_props=None):
    """vis_props: names of the introspectable properties of the container (None at namespace level)"""
    tag = local(e.tag)
    d.flag('function.c:identifier', path, e.get(qn('c:identifier')), a.get('symbol'))
    d.flag('function.is-method', path, tag == 'method', a.get('f_method'))
    d.flag('function.is-constructor', path, tag == 'constructor', a.get('f_constructor'))
    d.flag('function.throws', path, b(e, 'throws'), a.get('f_throws'))
    d.flag('function.deprecated', path, b(e, 'deprecated'), a.get('deprecated'))
    if tag == 'method':
        # being the getter / setter OF a property is a relation to that property: when the property is marked
        # non-introspectable it is absent from the typelib, and the relation with it
        gp, sp = e.get(qn('glib:get-property')), e.get(qn('glib:set-property'))
        if vis_props is not None:
            gp = gp if gp in vis_props else None
            sp = sp if sp in vis_props else None
        d.flag('function.is-getter', path, gp is not None and sp is None, a.get('f_getter'))
        d.flag('function.is-setter', path, sp is not None, a.get('f_setter'))
    cmp_callable(d, path, e, a)


def cmp_methods(d, path, e, a):
    exp = [c for c in kids(e, 'constructor', 'method', 'function')]
    vis = [c for c in exp if not hidden(c)]
    got = {m.get('symbol'): m for m in a.get('methods', [])}
    vis_props = set(p.get('name') for p in kids(e, 'property') if not hidden(p))
    for c in vis:
        sym = c.get(qn('c:identifier'))
        if sym not in got:
            d.add('absent:%s' % local(c.tag), '%s: <%s name=%r c:identifier=%r> is introspectable in the GIR, missing in the typelib'
                  % (path, local(c.tag), c.get('name'), sym))
            continue
        m = got[sym]
        d.flag('function.name', path + '.' + str(sym), exposed_name(c), m.get('name'))
        cmp_function(d, '%s.%s' % (path, exposed_name(c)), c, m, vis_props)
        cmp_attrs(d, local(c.tag), '%s.%s' % (path, exposed_name(c)), c, m)
    for c in exp:
        if hidden(c) and c.get(qn('c:identifier')) in got:
            d.add('present:%s:hidden' % local(c.tag), '%s: <%s c:identifier=%r> is introspectable="0"/shadowed in the GIR but present'
                  % (path, local(c.tag), c.get(qn('c:identifier'))))
    vis_syms = set(c.get(qn('c:identifier')) for c in vis)
    for sym in got:
        if sym not in vis_syms and sym not in set(c.get(qn('c:identifier')) for c in exp):
            d.add('extra:method', '%s: typelib has method %r the GIR does not state' % (path, sym))


def cmp_fields(d, path, e, a, owner):
    """fields and anonymous compound members of a record/union/class"""
    got = a.get('fields', [])
    gotn = {}
    for f in got:
        gotn.setdefault(f.get('name'), f)
    exp_names = []
    for c in e:
        t = local(c.tag)
        if t == 'field':
            name = c.get('name')
            if hidden(c):
                if name in gotn:
                    ty = gotn[name].get('type', {})
                    if ty.get('tag') == 'void' and ty.get('pointer'):
                        d.add('present:field:introspectable=0:as-gpointer-placeholder',
                              '%s.%s: field is introspectable="0" in the GIR but present (as a gpointer placeholder)' % (path, name))
                    else:
                        d.add('present:field:introspectable=0:typed', '%s.%s: field is introspectable="0" in the GIR but present with type %r'
                              % (path, name, ty))
                continue
            exp_names.append(name)
            if name not in gotn:
                d.add('absent:field', '%s.%s: field is introspectable in the GIR, missing in the typelib' % (path, name))
                continue
            f = gotn[name]
            d.flag('field:readable', '%s.%s' % (path, name), b(c, 'readable', True), f.get('readable'))
            d.flag('field:writable', '%s.%s' % (path, name), b(c, 'writable', False), f.get('writable'))
            cmp_attrs(d, 'field', '%s.%s' % (path, name), c, f)
            cmp_type(d, 'field', '%s.%s' % (path, name), c, f.get('type'))
            try:
                d.flag('field:bits', '%s.%s' % (path, name), int(c.get('bits', '0')), f.get('bits'))
            except ValueError:
                pass
            cbk = kids(c, 'callback')
            # only record and class fields can embed a callback blob (FieldBlob.has_embedded_type); a function pointer
            # member of a union is described as an untyped pointer — the type of a field is not one of its flags
            if cbk and owner in ('record', 'class'):
                ty = f.get('type', {})
                if ty.get('iface_kind') != 'callback':
                    d.add('kind:field-callback', '%s.%s: GIR has an embedded callback, typelib type is %r' % (path, name, ty))
        elif t in ('record', 'union') and owner in ('record', 'union', 'class'):
            if hidden(c):
                continue
            nm = c.get('name')
            if nm is None or nm not in gotn:
                d.add('absent:anonymous-member:%s-in-%s' % (t, owner),
                      '%s: member <%s%s> (introspectable) and its fields are missing in the typelib'
                      % (path, t, (' name=%r' % nm) if nm else ''))
    for f in got:
        if f.get('name') not in exp_names and not any(local(c.tag) == 'field' and c.get('name') == f.get('name') for c in e):
            d.add('extra:field', '%s: typelib has field %r the GIR does not state' % (path, f.get('name')))


def cmp_registered(d, path, e, a):
    d.flag('glib:type-name', path, e.get(qn('glib:type-name')), a.get('type_name'))
    d.flag('glib:get-type', path, e.get(qn('glib:get-type')), a.get('type_init'))


def cmp_property(d, path, c, p):
    d.flag('property:readable', path, b(c, 'readable', True), p.get('readable'))
    d.flag('property:writable', path, b(c, 'writable'), p.get('writable'))
    d.flag('property:construct', path, b(c, 'construct'), p.get('construct'))
    d.flag('property:construct-only', path, b(c, 'construct-only'), p.get('construct_only'))
    d.flag('property:transfer-ownership', path, c.get('transfer-ownership', 'none'), p.get('transfer'))
    d.flag('property:deprecated', path, b(c, 'deprecated'), p.get('deprecated'))
    cmp_attrs(d, 'property', path, c, p)
    cmp_type(d, 'property', path, c, p.get('type'))
    # the public API only answers the setter of a writable, non-construct-only property and the
    # getter of a readable one (documented in gipropertyinfo.c)
    if c.get('setter') is not None and b(c, 'writable') and not b(c, 'construct-only'):
        d.flag('property:setter', path, c.get('setter'), p.get('setter'))
    if c.get('getter') is not None and b(c, 'readable', True):
        d.flag('property:getter', path, c.get('getter'), p.get('getter'))


def cmp_signal(d, path, c, s):
    when = c.get('when')
    suffix = ''
    if when is None or when.lower() == 'last':
        exp = (False, True, False)
    elif when.lower() == 'first':
        exp = (True, False, False)
    elif when.lower() == 'cleanup':
        exp = (False, False, True)
    else:
        # when="must-collect" (gdump.c writes it for a signal that names none of the three run phases): not a run phase;
        # a typelib has no bit for G_SIGNAL_MUST_COLLECT and a signal blob names exactly one phase (validate_signal_blob),
        # so the signal is in the default phase, as if `when` were absent: LAST
        exp = (False, True, False)
    got = (s.get('run_first'), s.get('run_last'), s.get('run_cleanup'))
    if exp != got:
        d.add('flag:signal:when=%s:typelib=%s' % (when, got), '%s: when=%r, typelib run_first/last/cleanup=%r' % (path, when, got))
    d.flag('signal:no-recurse', path, b(c, 'no-recurse'), s.get('no_recurse'))
    d.flag('signal:detailed', path, b(c, 'detailed'), s.get('detailed'))
    d.flag('signal:action', path, b(c, 'action'), s.get('action'))
    d.flag('signal:no-hooks', path, b(c, 'no-hooks'), s.get('no_hooks'))
    d.flag('signal:deprecated', path, b(c, 'deprecated'), s.get('deprecated'))
    cmp_attrs(d, 'glib:signal', path, c, s)
    cmp_callable(d, path, c, s, is_signal=True)


def cmp_named_list(d, path, e, a, tag, key, what, fn):
    exp = kids(e, tag)
    got = {}
    for x in a.get(key, []):
        got.setdefault(x.get('name'), x)
    for c in exp:
        name = c.get('name')
        if hidden(c):
            if name in got:
                d.add('present:%s:hidden' % what, '%s: <%s name=%r> is introspectable="0" in the GIR but present' % (path, tag, name))
            continue
        if name not in got:
            d.add('absent:%s' % what, '%s: <%s name=%r> is introspectable in the GIR, missing in the typelib' % (path, tag, name))
            continue
        fn(d, '%s%s%s' % (path, ':' if what != 'vfunc' else '.', name), c, got[name])
    names = set(c.get('name') for c in exp)
    for n in got:
        if n not in names:
            d.add('extra:%s' % what, '%s: typelib has %s %r the GIR does not state' % (path, what, n))


def cmp_vfunc(d, path, c, v):
    d.flag('vfunc:throws', path, b(c, 'throws'), v.get('v_throws'))
    if c.get('invoker') is not None:
        d.flag('vfunc:invoker', path, c.get('invoker'), v.get('invoker'))
    cmp_attrs(d, 'virtual-method', path, c, v)
    cmp_callable(d, path, c, v)


def qualify(ns, name):
    if name is None:
        return None
    return name if '.' in name else '%s.%s' % (ns, name)


def cmp_constant(d, path, e, a):
    ty = kids(e, 'type')
    tname = ty[0].get('name') if ty else None
    v = e.get('value')
    got = a.get('value')
    d.flag('constant.deprecated', path, b(e, 'deprecated'), a.get('deprecated'))
    cmp_type(d, 'constant', path, e, a.get('type'))
    if got is None:
        return
    ok = True
    if tname in ('utf8', 'filename'):
        ok = (got == v)
    elif tname == 'gboolean':
        ok = (got == ('1' if v == 'true' else '0'))
    elif tname in ('gdouble', 'gfloat'):
        try:
            x, y = float(v), float(got)
            ok = (x == y) or abs(x - y) <= 1e-6 * max(abs(x), abs(y))
        except ValueError:
            ok = False
    else:
        bits = INT_BITS.get(tname)
        try:
            x, y = int(v), int(got)
            ok = (x == y) or (bits is not None and (x - y) % (1 << bits) == 0)   # same value in the stated storage
        except ValueError:
            ok = (v == got)
    if not ok:
        d.add('value:constant', '%s: GIR value %r (%s), typelib value %r' % (path, v, tname, got))


INT_BITS = {'gint8': 8, 'guint8': 8, 'gchar': 8, 'guchar': 8, 'gint16': 16, 'guint16': 16, 'gshort': 16, 'gushort': 16,
            'gint32': 32, 'guint32': 32, 'gint': 32, 'guint': 32, 'gunichar': 32, 'gint64': 64, 'guint64': 64, 'glong': 64,
            'gulong': 64, 'gsize': 64, 'gssize': 64}
KIND = {'function': 'function', 'callback': 'callback', 'record': 'struct', 'union': 'union', 'enumeration': 'enum',
        'bitfield': 'flags', 'class': 'object', 'interface': 'interface', 'constant': 'constant', 'glib:boxed': 'boxed'}


def compare(gir_root, tl):
    """everything the statement demands of a typelib that compiled and loaded: every introspectable
    element exposed with the flags the GIR states, non-introspectable ones absent."""
    d = Diff()
    nse = gir_root.find(qn('namespace'))
    ns = nse.get('name')
    d.flag('namespace.version', ns, nse.get('version'), tl.get('version'))
    if nse.get('shared-library') is not None:
        d.flag('namespace.shared-library', ns, nse.get('shared-library') or None, tl.get('shared_library') or None)
    infos = {}
    for i in tl.get('infos', []):
        infos.setdefault((i.get('kind'), i.get('name')), i)
    by_name = {}
    for i in tl.get('infos', []):
        by_name.setdefault(i.get('name'), []).append(i)
    stated = set()
    for e in nse:
        t = local(e.tag)
        if t in DOC_ONLY or t == 'alias':
            continue
        if t not in KIND:
            continue
        name = exposed_name(e)
        path = '%s.%s' % (ns, name)
        if hidden(e):
            # absent: identified by C symbol for functions (the shadowing function legitimately takes the name)
            if t == 'function':
                for x in by_name.get(e.get('name'), []) + by_name.get(name, []):
                    if x.get('kind') == 'function' and x.get('symbol') == e.get(qn('c:identifier')):
                        d.add('present:function:hidden', '%s: function %r is introspectable="0"/shadowed-by in the GIR but present'
                              % (path, e.get(qn('c:identifier'))))
            else:
                for x in by_name.get(e.get('name') or name, []):
                    if x.get('kind') == KIND[t]:
                        d.add('present:%s:hidden' % t, '%s: <%s> is introspectable="0" in the GIR but present in the typelib' % (path, t))
            continue
        stated.add((KIND[t], name))
        a = infos.get((KIND[t], name))
        if a is None:
            others = [x.get('kind') for x in by_name.get(name, [])]
            d.add('absent:%s' % t, '%s: <%s> is introspectable in the GIR; typelib has %s' % (path, t, others or 'nothing of that name'))
            continue
        cmp_attrs(d, t, path, e, a)
        if t == 'union':
            # C15 is about what the compiler wrote: the bit in the UnionBlob.  That g_base_info_is_deprecated() has no
            # case for unions and answers FALSE is a defect of the repository API (gibaseinfo.c), judged by C09.
            d.flag('union.deprecated', path, b(e, 'deprecated'), a.get('deprecated_blob'))
        elif t not in ('function', 'callback'):
            d.flag('%s.deprecated' % t, path, b(e, 'deprecated'), a.get('deprecated'))
        if t == 'function':
            cmp_function(d, path, e, a)
        elif t == 'callback':
            d.flag('callback.deprecated', path, b(e, 'deprecated'), a.get('deprecated'))
            d.flag('callback.throws', path, b(e, 'throws'), a.get('can_throw'))
            cmp_callable(d, path, e, a)
        elif t == 'record':
            cmp_registered(d, path, e, a)
            d.flag('record:is-gtype-struct', path, e.get(qn('glib:is-gtype-struct-for')) is not None, a.get('is_gtype_struct'))
            d.flag('record:foreign', path, b(e, 'foreign'), a.get('foreign'))
            d.flag('record:copy-function', path, e.get('copy-function'), a.get('copy_function'))
            d.flag('record:free-function', path, e.get('free-function'), a.get('free_function'))
            cmp_fields(d, path, e, a, 'record')
            cmp_methods(d, path, e, a)
        elif t == 'union':
            cmp_registered(d, path, e, a)
            d.flag('union:copy-function', path, e.get('copy-function'), a.get('copy_function'))
            d.flag('union:free-function', path, e.get('free-function'), a.get('free_function'))
            cmp_fields(d, path, e, a, 'union')
            cmp_methods(d, path, e, a)
        elif t in ('enumeration', 'bitfield'):
            cmp_registered(d, path, e, a)
            d.flag('enum:glib:error-domain', path, e.get(qn('glib:error-domain')), a.get('error_domain'))
            got = {}
            for v in a.get('values', []):
                got.setdefault(v.get('name'), v)
            for m in kids(e, 'member'):
                if hidden(m):
                    if m.get('name') in got:
                        d.add('present:member:introspectable=0', '%s.%s: member is introspectable="0" in the GIR but present'
                              % (path, m.get('name')))
                    continue
                if m.get('name') not in got:
                    d.add('absent:member', '%s.%s: member missing in the typelib' % (path, m.get('name')))
                    continue
                v = got[m.get('name')]
                try:
                    gv = int(m.get('value'))
                except ValueError:
                    gv = m.get('value')
                tv = v.get('value')
                if isinstance(gv, int) and isinstance(tv, int) and (gv & 0xffffffff) == (tv & 0xffffffff):
                    tv = gv    # enum storage is 32 bits: the same value modulo the storage width
                d.flag('member:value', '%s.%s' % (path, m.get('name')), gv, tv)
                d.flag('member:deprecated', '%s.%s' % (path, m.get('name')), b(m, 'deprecated'), v.get('deprecated'))
                cmp_attrs(d, 'member', '%s.%s' % (path, m.get('name')), m, v)
            names = set(m.get('name') for m in kids(e, 'member'))
            for n in got:
                if n not in names:
                    d.add('extra:member', '%s: typelib has value %r the GIR does not state' % (path, n))
            cmp_methods(d, path, e, a)
        elif t == 'class':
            cmp_registered(d, path, e, a)
            d.flag('class:parent', path, qualify(ns, e.get('parent')), a.get('parent'))
            d.flag('class:abstract', path, b(e, 'abstract'), a.get('abstract'))
            d.flag('class:final', path, b(e, 'final'), a.get('final'))
            d.flag('class:glib:fundamental', path, b(e, qn('glib:fundamental')), a.get('fundamental'))
            d.flag('class:glib:type-struct', path, e.get(qn('glib:type-struct')), a.get('class_struct'))
            for attr, k in (('glib:ref-func', 'ref_function'), ('glib:unref-func', 'unref_function'),
                            ('glib:set-value-func', 'set_value_function'), ('glib:get-value-func', 'get_value_function')):
                d.flag('class:%s' % attr, path, e.get(qn(attr)), a.get(k))
            d.flag('class:implements', path, sorted(qualify(ns, c.get('name')) for c in kids(e, 'implements')),
                   sorted(a.get('interfaces', [])))
            cmp_fields(d, path, e, a, 'class')
            cmp_methods(d, path, e, a)
            cmp_named_list(d, path, e, a, 'property', 'properties', 'property', cmp_property)
            cmp_named_list(d, path, e, a, 'glib:signal', 'signals', 'signal', cmp_signal)
            cmp_named_list(d, path, e, a, 'virtual-method', 'vfuncs', 'vfunc', cmp_vfunc)
        elif t == 'interface':
            cmp_registered(d, path, e, a)
            d.flag('interface:glib:type-struct', path, e.get(qn('glib:type-struct')), a.get('class_struct'))
            d.flag('interface:prerequisites', path, sorted(qualify(ns, c.get('name')) for c in kids(e, 'prerequisite')),
                   sorted(a.get('prerequisites', [])))
            cmp_methods(d, path, e, a)
            cmp_named_list(d, path, e, a, 'property', 'properties', 'property', cmp_property)
            cmp_named_list(d, path, e, a, 'glib:signal', 'signals', 'signal', cmp_signal)
            cmp_named_list(d, path, e, a, 'virtual-method', 'vfuncs', 'vfunc', cmp_vfunc)
        elif t == 'constant':
            cmp_constant(d, path, e, a)
        elif t == 'glib:boxed':
            cmp_registered(d, path, e, a)
            cmp_methods(d, path, e, a)
    for i in tl.get('infos', []):
        if (i.get('kind'), i.get('name')) not in stated:
            d.add('extra:%s' % i.get('kind'), '%s.%s: typelib exposes a %s the GIR does not state as introspectable'
                  % (ns, i.get('name'), i.get('kind')))
    return d


def has_nested(root, outer, inner):
    for e in root.iter(qn(outer)):
        for c in e:
            if local(c.tag) == inner:
                return True
    return False


def classify_compiler(rc, err, root, state_names):
    """compiler exit status / messages -> [(key, message)] (empty = clean)"""
    out = []
    err = err.strip()
    if rc == 0 and not err:
        return out
    seen = set()
    for m in re.finditer(r'warning: element (\S+) from state (\d+) is unknown', err):
        st = int(m.group(2))
        name = state_names[st] if st < len(state_names) else str(st)
        k = 'compiler:warning:unknown-element:%s@%s' % (m.group(1), name)
        if k not in seen:
            seen.add(k)
            out.append((k, 'g-ir-compiler warns: %s' % m.group(0)))
    if 'assertion failed: (ctx->state != newstate)' in err:
        if root is not None and has_nested(root, 'record', 'record'):
            out.append(('compiler:abort:state_switch-assert:record-in-record', 'g-ir-compiler aborts: ' + err[-200:]))
        elif root is not None and has_nested(root, 'union', 'union'):
            out.append(('compiler:abort:state_switch-assert:union-in-union', 'g-ir-compiler aborts: ' + err[-200:]))
        else:
            out.append(('compiler:abort:state_switch-assert', 'g-ir-compiler aborts: ' + err[-300:]))
    elif rc < 0 and ('Caught NULL node, parent=' in err or 'Invalid typelib for module' in err):
        in_union = False
        hidden_cb = False
        if root is not None:
            for u in root.iter(qn('union')):
                for f in kids(u, 'field'):
                    if kids(f, 'callback'):
                        in_union = True
            for f in root.iter(qn('field')):
                if not hidden(f) and any(hidden(c) for c in kids(f, 'callback')):
                    hidden_cb = True
        symptom = 'null-node' if 'Caught NULL node' in err else 'invalid-typelib'
        odd_when = root is not None and any((sg.get('when') or 'last').lower() not in ('first', 'last', 'cleanup') and not hidden(sg)
                                            for sg in root.iter(qn('glib:signal')))
        if 'Invalid signal run flags' in err and odd_when:
            whens = sorted(set(sg.get('when') for sg in root.iter(qn('glib:signal'))
                               if (sg.get('when') or 'last').lower() not in ('first', 'last', 'cleanup')))
            out.append(('compiler:fatal:invalid-signal-run-flags:when=%s' % '|'.join(whens), 'g-ir-compiler dies: ' + err[-300:]))
        elif in_union and 'compiler:warning:unknown-element:callback@UNION_FIELD' in seen:
            # one defect, two symptoms: the warning and the fatal error
            out = [o for o in out if o[0] != 'compiler:warning:unknown-element:callback@UNION_FIELD']
            out.append(('compiler:fatal:callback-in-union-field', 'g-ir-compiler dies (%s): %s' % (symptom, err[-300:])))
        elif hidden_cb:
            out.append(('compiler:fatal:field-with-non-introspectable-callback', 'g-ir-compiler dies (%s): %s' % (symptom, err[-300:])))
        else:
            out.append(('compiler:fatal:%s' % symptom, 'g-ir-compiler dies: ' + err[-300:]))
    elif rc != 0 and re.search(r'Unknown property (\S+):(\S+) for accessor (\S+)', err):
        m = re.search(r'Unknown property (\S+):(\S+) for accessor (\S+)', err)
        hidden_prop = root is not None and any(
            hidden(p) and p.get('name') == m.group(2)
            for c in list(root.iter(qn('class'))) + list(root.iter(qn('interface'))) if c.get('name') == m.group(1)
            for p in kids(c, 'property'))
        if hidden_prop:
            out.append(('compiler:fatal:accessor-of-introspectable-0-property', 'g-ir-compiler dies: ' + err[-300:]))
        else:
            out.append(('compiler:fatal:unknown-property-for-accessor', 'g-ir-compiler dies: ' + err[-300:]))
    elif rc != 0 and re.search(r'left a hole of \d+ bytes', err):
        out.append(('compiler:abort:left-a-hole', 'g-ir-compiler aborts after building the typelib: ' + err[-300:]))
    elif isinstance(rc, int) and rc == -11:
        out.append(('compiler:crash:SIGSEGV', 'g-ir-compiler dies with SIGSEGV: ' + err[-300:]))
    elif rc != 0 and re.search(r"Can't resolve type '([^']+)' for field (\S+)", err):
        m = re.search(r"Can't resolve type '([^']+)' for field (\S+)", err)
        tn = m.group(1).split('.')[-1]
        target = [e for e in (root.find(qn('namespace')) if root is not None else []) if e.get('name') == tn]
        if target and hidden(target[0]):
            out.append(('compiler:error:field-typed-by-introspectable-0-%s' % local(target[0].tag),
                        'an introspectable <field> names a type the GIR marks introspectable="0"; g-ir-compiler fails: ' + err[-300:]))
        else:
            out.append(('compiler:error:field-type-unresolved', 'g-ir-compiler fails: ' + err[-300:]))
    elif rc != 0 and "required attribute 'transfer-ownership' missing" in err and root is not None and any(
            rv.get('skip') == '1' and rv.get('transfer-ownership') is None for rv in root.iter(qn('return-value'))):
        out.append(('compiler:error:missing-transfer-ownership:return-value-skip', 'g-ir-compiler fails: ' + err[-300:]))
    elif rc != 0 and re.search(r"type reference '([^']+)' not found", err) and root is not None:
        ref = re.search(r"type reference '([^']+)' not found", err).group(1)
        target = [e for e in root.find(qn('namespace')) if e.get('name') == ref]
        if target and hidden(target[0]):
            if any(c.get('parent') == ref and not hidden(c) for c in root.iter(qn('class'))):
                how = 'class-parent'
            elif any(i.get('name') == ref for c in root.iter(qn('class')) if not hidden(c) for i in kids(c, 'implements')):
                how = 'implements'
            elif any(i.get('name') == ref for c in root.iter(qn('interface')) if not hidden(c) for i in kids(c, 'prerequisite')):
                how = 'prerequisite'
            else:
                how = 'type'
            out.append(('compiler:error:reference-to-introspectable-0:%s:%s' % (local(target[0].tag), how),
                        'g-ir-compiler fails: ' + err[-300:]))
        else:
            out.append(('compiler:error:type-reference-not-found', 'g-ir-compiler fails: ' + err[-300:]))
    elif rc != 0:
        first = [l for l in err.splitlines() if 'error' in l.lower()] or err.splitlines() or ['(no message)']
        msg = re.sub(r'^\S+?:\d+:\d+: ', '', first[0])
        msg = re.sub(r'\d+', 'N', msg)
        out.append(('compiler:exit=%d:%s' % (rc, msg[:120]), 'g-ir-compiler fails (exit %d): %s' % (rc, err[-400:])))
    if rc == 0 and 'compiler:warning:unknown-element:callback@UNION_FIELD' in seen and root is not None and any(
            kids(f, 'callback') for u in root.iter(qn('union')) for f in kids(u, 'field')):
        out = [o for o in out if o[0] != 'compiler:warning:unknown-element:callback@UNION_FIELD']
        out.append(('compiler:fatal:callback-in-union-field', 'g-ir-compiler warns and writes an unusable typelib: ' + err[-300:]))
    if not out:
        lines = [l for l in err.splitlines() if l.strip()]
        msg = re.sub(r'^\S+?:\d+:\d+: ', '', lines[0]) if lines else ''
        msg = re.sub(r'\(g-ir-compiler:\d+\)', '', msg)
        msg = re.sub(r'\d\d:\d\d:\d\d\.\d+', '', msg)
        out.append(('compiler:stderr:%s' % re.sub(r'\d+', 'N', msg)[:120], 'g-ir-compiler wrote to stderr: %s' % err[-400:]))
    return out


# ---------------------------------------------------------------------------------------------
# one case through the real pair
# ---------------------------------------------------------------------------------------------
DOCNS = 'http://www.gtk.org/introspection/doc/1.0'


def atoi(s):
    """C atoi: optional white space, optional sign, leading digits; anything else is 0"""
    m = re.match(r'[ \t\n\v\f\r]*([+-]?\d+)', s or '')
    return int(m.group(1)) if m else 0


def gir_events(text):
    """the element events GMarkup delivers for a GIR text: [['S', name, hidden] | ['E', name]] with
    the raw (prefixed) element names; hidden = what introspectable_prelude computes from the attributes,
    intro0 = the introspectable attribute alone (the hand-written test of start_member)"""
    from xml.parsers import expat
    evs = []
    p = expat.ParserCreate()

    def start(name, attrs):
        intro = attrs.get('introspectable')
        intro0 = intro is not None and atoi(intro) == 0
        hidden = intro0 or ('shadowed-by' in attrs)
        evs.append(['S', name, bool(hidden), bool(intro0)])

    def end(name):
        evs.append(['E', name])
    p.StartElementHandler = start
    p.EndElementHandler = end
    p.Parse(text.encode('utf-8'), True)
    return evs


def register_pending(ctx):
    for key, what in PENDING_FINDINGS.items():
        if ctx.is_known(key) is None:
            ctx.known.append({'property': 'C15', 'status': 'known', 'key': key, 'what': what, 'pending': True})


def ns_of(text):
    m = re.search(r'<namespace\s+name="([^"]+)"\s+version="([^"]+)"', text)
    if not m:
        m1 = re.search(r'<namespace\b[^>]*\bname="([^"]+)"', text)
        m2 = re.search(r'<namespace\b[^>]*\bversion="([^"]+)"', text)
        return (m1.group(1) if m1 else 'X'), (m2.group(1) if m2 else '0')
    return m.group(1), m.group(2)


STANDIN_NAMESPACES = ('GLib', 'GObject', 'Gio', 'cairo')


def process(env, case):
    """case: {'origin', 'name', 'gir'} -> the case, filled with what the real compiler / repository API did.
    Thread-safe (own directory)."""
    res = dict(case)
    text = case['gir']
    ns, ver = ns_of(text)
    res['ns'], res['version'] = ns, ver
    d = env.casedir()
    gpath = os.path.join(d, '%s-%s.gir' % (ns, ver))
    tpath = os.path.join(d, '%s-%s.typelib' % (ns, ver))
    with open(gpath, 'w', encoding='utf-8') as f:
        f.write(text)
    res['gir_path'] = gpath
    extra = list(case.get('includedirs', []))
    try:
        rc, out, err = env.compile(gpath, tpath, extra)
    except subprocess.TimeoutExpired:
        rc, out, err = 'timeout', '', 'g-ir-compiler did not finish within 120 s'
    res['rc'], res['err'] = rc, err
    res['walk'] = None
    if rc == 0 and os.path.exists(tpath):
        try:
            wrc, tl, werr = env.walk(tpath, ns, [d] + extra)
        except subprocess.TimeoutExpired:
            wrc, tl, werr = 'timeout', {'error': 'timeout', 'message': ''}, ''
        res['walk_rc'], res['walk'], res['walk_err'] = wrc, tl, werr
    if case.get('trace', True) and env.states:
        try:
            res['trace'] = env.trace(gpath, extra)
        except subprocess.TimeoutExpired:
            res['trace'] = None
    return res


def judge_case(res, state_names):
    """the statement oracle on one processed case -> ('outside', reason) | ('judged', [(key, message)])"""
    text = res['gir']
    try:
        root = ET.fromstring(text.encode('utf-8'))
    except ET.ParseError as e:
        return 'judged', [('scanner:gir-not-well-formed', 'the scanner wrote XML that does not parse: %s' % e)]
    rc, err = res['rc'], res['err']
    if rc == 'timeout':
        return 'judged', [('compiler:timeout', err)]
    probs = list(classify_compiler(rc, err, root, state_names))
    if res.get('standin_deps') and rc != 0 and rc > 0:
        # the dependencies of this GIR are stand-ins written for this harness: a reference into one of them that the
        # stand-in lacks is a gap of the harness, not of the compiler ("whose dependencies are available")
        m = re.search(r"type reference '((?:%s)\.[^']+)' not found|Type reference '((?:%s)\.[^']+)' not found"
                      % ('|'.join(STANDIN_NAMESPACES), '|'.join(STANDIN_NAMESPACES)), err)
        if m or re.search(r"(Could not find GIR file|Failed to parse included gir) '?(%s)" % '|'.join(STANDIN_NAMESPACES), err):
            return 'outside', 'standin-gap'
    if rc == 0 and any(k == 'compiler:fatal:callback-in-union-field' for k, _ in probs):
        # one defect, several symptoms: the typelib written after that warning is unusable (the repository API aborts on it)
        pass
    elif rc == 0:
        tl = res.get('walk')
        wrc = res.get('walk_rc')
        if tl is None:
            probs.append(('compiler:no-typelib', 'g-ir-compiler exited 0 without writing the typelib'))
        elif tl.get('error') == 'no-walker':
            pass
        elif tl.get('error') in ('validate', 'new', 'map'):
            probs.append(('typelib:does-not-validate', 'the typelib does not validate: %s' % tl.get('message')))
        elif tl.get('error') == 'load':
            if res.get('standin_deps') and re.search(r"Typelib file for namespace '(%s)'" % '|'.join(STANDIN_NAMESPACES), str(tl.get('message'))):
                return 'outside', 'standin-gap'
            probs.append(('typelib:does-not-load', 'the repository refuses the typelib: %s' % tl.get('message')))
        elif tl.get('error') and function_after_callback_field(root):
            probs.append(('typelib:function-after-callback-field-taken-as-embedded-callback',
                          'the repository API %s on the typelib: %s %s' % ('aborts' if isinstance(wrc, int) and wrc < 0 else 'fails',
                                                                       str(tl.get('message'))[-200:], (res.get('walk_err') or '')[-200:])))
        elif tl.get('error'):
            crashed = isinstance(wrc, int) and wrc < 0
            probs.append(('api:%s' % ('crash' if crashed else tl.get('error')),
                          'walking the typelib through the repository API %s: %s %s'
                          % ('crashed (signal %d)' % -wrc if crashed else 'failed', tl.get('message'), (res.get('walk_err') or '')[-300:])))
        else:
            for k, msg in compare(root, tl).items:
                probs.append((k, msg))
    return 'judged', probs


def function_after_callback_field(root):
    """a union / boxed / interface with a <field><callback/></field> member followed by a function-like member"""
    for tag in ('union', 'glib:boxed', 'interface'):
        for u in root.iter(qn(tag)):
            seen_cb = False
            for c in u:
                t = local(c.tag)
                if t == 'field' and not hidden(c) and kids(c, 'callback'):
                    seen_cb = True
                elif t in ('method', 'function', 'constructor', 'callback') and seen_cb and not hidden(c):
                    return True
                elif t == 'field' and not hidden(c) and (kids(c, 'type') or kids(c, 'array')):
                    seen_cb = False     # end_type_top resets current_typed
    return False


def writer_only_shapes(root):
    """hypotheses `writerOnlyOffences` / `writerOnlyValueOffences` of Props/C15.lean: no scanner output has these"""
    out = []
    for i in root.iter(qn('interface')):
        for c in i:
            if local(c.tag) in ('record', 'union'):
                out.append('<interface name=%r> has a <%s> child' % (i.get('name'), local(c.tag)))
    for ip in root.iter(qn('instance-parameter')):
        if ip.get('transfer-ownership') not in ('none', 'full'):
            out.append('<instance-parameter name=%r transfer-ownership=%r>' % (ip.get('name'), ip.get('transfer-ownership')))
    return out


def trace_compare(res, model, state_names):
    """real parser trace vs model trace -> None | description of the disagreement"""
    tr = res.get('trace')
    if not tr or model is None:
        return None
    rows, result, rc, err = tr
    real = []
    for kind, el, st, prev, depth, stack in rows:
        real.append([state_names[st] if 0 <= st < len(state_names) else str(st),
                     state_names[prev] if 0 <= prev < len(state_names) else str(prev), depth, stack])
    mrows = model['rows']
    if result != 'ok' and real and len(real) <= len(mrows) + 1:
        # the real parser stopped with a GError: the handler that set it still got its row printed (GMarkup stops
        # after the handler returns), whatever it did to the state before failing — not comparable
        real = real[:-1]
    n = min(len(real), len(mrows))
    for i in range(n):
        if real[i] != mrows[i]:
            return 'event %d (%s %s): real parser %r, model %r' % (i, rows[i][0], rows[i][1], real[i], mrows[i])
    if model['error'] is None:
        # the model knows the state machine only: the real parser may stop earlier (a semantic error), never later
        if len(real) > len(mrows):
            return 'real parser delivered %d events, model %d' % (len(real), len(mrows))
        return None
    # the model stopped with an error at event n: the real parser must stop there too (abort: no row; GError: one more row)
    if len(real) > len(mrows):
        return 'model stops at event %d (%s), the real parser goes on (%d events)' % (len(mrows), model['error'], len(real))
    return None


# ---------------------------------------------------------------------------------------------
# mutants for the state-machine correspondence (NOT scanner outputs: never judged by the oracle)
# ---------------------------------------------------------------------------------------------
# (container, member): places the writer never puts an element but the parser has a state for
GRAFTS = [('interface', 'field'), ('glib:boxed', 'field'), ('class', 'constant'), ('interface', 'constant'), ('union', 'record'),
          ('record', 'union'), ('class', 'record'), ('class', 'union'), ('enumeration', 'function'), ('bitfield', 'member'),
          ('glib:boxed', 'method'), ('interface', 'callback'), ('record', 'glib:signal'), ('field', 'type'), ('type', 'doc'),
          ('attribute', 'doc'), ('parameters', 'type'), ('return-value', 'attribute'), ('alias', 'doc'), ('member', 'attribute')]


def mutate_gir(rng, text, graft=None):
    for prefix, uri in (('', CORE), ('c', CNS), ('glib', GLIBNS), ('doc', DOCNS)):
        ET.register_namespace(prefix, uri)
    try:
        root = ET.fromstring(text.encode('utf-8'))
    except ET.ParseError:
        return None
    nse = root.find(qn('namespace'))
    if nse is None:
        return None
    if graft is not None:
        dst = [e for e in nse.iter() if local(e.tag) == graft[0]]
        src = [e for e in nse.iter() if local(e.tag) == graft[1]]
        if not dst or not src:
            return None
        d_, s_ = rng.choice(dst), rng.choice(src)
        if d_ in list(s_.iter()):
            return None
        d_.insert(rng.randint(0, len(d_)), copy.deepcopy(s_))
        return '<?xml version="1.0"?>\n' + ET.tostring(root, encoding='unicode')
    els = [e for e in nse.iter()][1:]
    if not els:
        return None
    parents = {c: p for p in root.iter() for c in p}
    e = rng.choice(els)
    how = rng.choice(['rename', 'hide', 'shadow', 'graft', 'wrap', 'unhide', 'rename-known'])
    if how == 'rename':
        e.tag = qn(rng.choice(['frobnicate', 'c:thing', 'glib:thing', 'x']))
    elif how == 'rename-known':
        e.tag = qn(rng.choice(['record', 'union', 'field', 'callback', 'function', 'method', 'type', 'array', 'attribute', 'member',
                               'constant', 'property', 'parameters', 'parameter', 'return-value', 'doc', 'source-position',
                               'glib:signal', 'glib:boxed', 'virtual-method', 'implements', 'prerequisite', 'instance-parameter',
                               'function-macro', 'docsection', 'varargs', 'enumeration', 'bitfield', 'class', 'interface', 'alias',
                               'constructor', 'discriminator', 'include', 'package', 'c:include']))
    elif how == 'hide':
        e.set('introspectable', rng.choice(['0', '0', 'no', '', '00', '1', ' 0', '-0']))
    elif how == 'unhide':
        for x in els:
            if x.get('introspectable') == '0':
                del x.attrib['introspectable']
                break
    elif how == 'shadow':
        e.set('shadowed-by', 'other')
    elif how == 'graft':
        src = rng.choice(els)
        if src is not e and e not in list(src.iter()):
            e.append(copy.deepcopy(src))
    elif how == 'wrap':
        p = parents.get(e)
        if p is not None:
            idx = list(p).index(e)
            w = ET.Element(qn(rng.choice(['frobnicate', 'doc', 'record', 'field', 'function'])))
            p.remove(e)
            w.append(e)
            p.insert(idx, w)
    return '<?xml version="1.0"?>\n' + ET.tostring(root, encoding='unicode')


# ---------------------------------------------------------------------------------------------
# corpus
# ---------------------------------------------------------------------------------------------
def load_corpus():
    cpath = os.path.join(VERIF, 'corpus', 'C15')
    out = []
    if os.path.isdir(cpath):
        for fn in sorted(os.listdir(cpath)):
            if fn.endswith('.json'):
                with open(os.path.join(cpath, fn)) as f:
                    for c in json.load(f):
                        c['file'] = fn
                        out.append(c)
    return out


def expected_girs(env):
    """tests/scanner/*-expected.gir: scanner outputs shipped with the tree; their GObject/Gio/GLib includes
    are satisfied by the stand-ins, Utility by the expected GIR of Utility itself"""
    tdir = os.path.join(REPO, 'tests', 'scanner')
    out = []
    if not os.path.isdir(tdir):
        return out
    incdir = os.path.join(env.dir, 'expected-inc')
    os.makedirs(incdir, exist_ok=True)
    names = sorted(fn for fn in os.listdir(tdir) if fn.endswith('-expected.gir'))
    for fn in names:
        with open(os.path.join(tdir, fn), encoding='utf-8') as f:
            text = f.read()
        with open(os.path.join(incdir, fn.replace('-expected', '')), 'w', encoding='utf-8') as f:
            f.write(text)
        out.append({'origin': 'expected', 'name': fn, 'gir': text, 'includedirs': [incdir], 'standin_deps': True})
    # the typelibs of the expected GIRs other expected GIRs include (Utility) next to them, for the repository API
    included = set(re.findall(r'<include name="([^"]+)"', ''.join(c['gir'] for c in out)))
    for c in out:
        ns, ver = ns_of(c['gir'])
        if ns in included:
            try:
                env.compile(os.path.join(incdir, '%s-%s.gir' % (ns, ver)), os.path.join(incdir, '%s-%s.typelib' % (ns, ver)), [incdir])
            except subprocess.TimeoutExpired:
                pass
    return out


def replay_of(case, key=None):
    r = {'kind': 'cfg' if case.get('cfg') is not None else 'gir', 'origin': case.get('origin'), 'name': case.get('name'),
         'finding': key,
         'how': 'cfg: run the scanner pipeline (harness/scanpipe.py) on the description with the stand-in dependency GIRs of '
                'harness/c15.py; then g-ir-compiler --includedir <stand-ins> -o X.typelib <Ns>-<ver>.gir, then '
                'cdrivers/c15_walk X.typelib <Ns> and compare with the GIR'}
    if case.get('cfg') is not None:
        r['cfg'] = case['cfg']
    g = case.get('gir') or ''
    r['gir'] = g if len(g) < 300000 else g[:3000] + '\n... (%d bytes, %s)' % (len(g), case.get('name'))
    if case.get('standin_deps'):
        r['standin_deps'] = True
    return r


def shrink_cfg(env, case, key, state_names, budget):
    """failing-input search around a failure: drop declarations / comment blocks while the same key persists"""
    cfg = copy.deepcopy(case['cfg'])
    best = dict(case, cfg=cfg)
    changed = True
    while changed and budget[0] > 0:
        changed = False
        for field in ('decls', 'comments'):
            i = 0
            while i < len(best['cfg'].get(field, [])) and budget[0] > 0:
                cand = copy.deepcopy(best['cfg'])
                del cand[field][i]
                budget[0] -= 1
                gir, nwarn, why = scan_cfg(cand, env)
                ok = False
                if gir is not None:
                    r = process(env, {'origin': 'search', 'name': 'shrink', 'gir': gir, 'cfg': cand, 'trace': False})
                    verdict, probs = judge_case(r, state_names)
                    ok = verdict == 'judged' and any(k == key for k, _ in probs)
                if ok:
                    best = dict(best, cfg=cand, gir=gir)
                    changed = True
                else:
                    i += 1
    return best


def run(ctx):
    import concurrent.futures
    cnt = Counter()
    register_pending(ctx)
    ctx.prove(['gen_girvocab_c', 'gen_girvocab_py'], ['GIVerif.Props.C15'], 'GIVerif.Props.C15')
    ctx.log('proofs rebuilt and audited')
    rng = ctx.rng

    # ---- the contract as the compiled model computes it on the string tables + the coding of the tables
    contract = None
    try:
        contract = ctx.driver.call('c15.contract')
    except HarnessError as e:
        ctx.broken.append('model driver failed: %s' % str(e)[-400:])
    state_names = contract['states'] if contract else []
    if contract:
        bad = sorted(k for k, v in contract['tables_coded'].items() if not v)
        if bad:
            ctx.broken.append('the number-coded tables the proofs are evaluated on are not the coding of the string tables: %s' % bad)
        for s_ in contract['shape'][:3]:
            ctx.broken.append('translator: source shape not understood: %s' % s_)
        if not contract['closed']:
            ctx.broken.append('contract: the reachable contexts are not closed')
        cnt.hit('contract:offences', len(contract['offences']))
        cnt.hit('contract:unfetched', len(contract['unfetched']))
        cnt.hit('contract:off_values', len(contract['off_values']))

    try:
        env = Env(ctx)
    except HarnessError as e:
        ctx.broken.append('the C code under verification no longer builds: %s' % str(e)[-600:])
        ctx.coverage.update({'evaluations': 0, 'distinct_nontrivial': 0, 'rule': 'C build failed', 'samples': []})
        return
    if not env.walker:
        ctx.broken.append('cdrivers/c15_walk.c no longer builds against /repo (it reads UnionBlob.deprecated through the private '
                          'GIRealInfo): %s' % str(env.walker_error)[-300:])
    if not env.states:
        ctx.broken.append('correspondence c15.trace: cdrivers/c15_states.c no longer builds — start_element_handler / '
                          'end_element_handler / ParseContext / markup_parser of girparser.c no longer exist or have changed: %s'
                          % str(env.states_error)[-300:])
    if not state_names:
        # without the driver the state names come from the source directly
        try:
            with open(os.path.join(REPO, 'girepository', 'girparser.c'), encoding='utf-8') as f:
                m = re.search(r'typedef enum\s*\{([^}]*)\}\s*ParseState;', re.sub(r'/\*.*?\*/', '', f.read(), flags=re.S))
            state_names = re.findall(r'STATE_(\w+)', m.group(1)) if m else []
        except OSError:
            state_names = []
    ctx.log('C code built')

    # ---- cases: corpus, expected GIRs of the tree, generated descriptions through the real scanner
    cases = []
    corpus = load_corpus()
    for c in corpus:
        if c.get('cfg') is not None:
            cases.append({'origin': 'corpus', 'name': c.get('name'), 'cfg': c['cfg'], 'finding': c.get('finding')})
        else:
            cases.append({'origin': 'corpus', 'name': c.get('name'), 'gir': c['gir'], 'finding': c.get('finding'),
                          'standin_deps': True})
    cases += expected_girs(env)
    n_gen = ctx.n(70, 1500)
    feature_hits = {}
    for i in range(n_gen):
        boost = None
        if i % 10 == 9:
            # every tenth namespace concentrates on one of the rarer constructs
            k = sorted(Gen.RARE)[(i // 10) % len(Gen.RARE)]
            boost = {k: 0.6}
        g = Gen(rng, i, boost)
        cfg = g.build()
        cases.append({'origin': 'generated', 'name': 'g%d' % i, 'cfg': cfg, 'features': sorted(g.features)})
        for f_ in g.features:
            feature_hits[f_] = feature_hits.get(f_, 0) + 1

    # the scanner runs in-process (not thread-safe: global MessageLogger), the C side in parallel
    ready = []
    for c in cases:
        if c.get('gir') is None:
            gir, nwarn, why = scan_cfg(c['cfg'], env)
            c['scanner_warnings'] = nwarn
            if gir is None:
                cnt.hit('outside:scanner-refused')
                cnt.hit('outside:%s' % why.split(':')[0])
                c['refused'] = why
                continue
            c['gir'] = gir
        ready.append(c)
    n_desc = len([c for c in cases if c.get('cfg') is not None])
    n_refused = len([c for c in cases if c.get('refused')])
    ctx.log('scanner ran on %d descriptions (%d refused)' % (n_desc, n_refused))
    if n_desc and n_refused * 4 > n_desc:
        why = [c['refused'] for c in cases if c.get('refused')][0]
        ctx.broken.append('the scanner pipeline (harness/scanpipe.py: Transformer, MainTransformer, IntrospectablePass, GIRWriter) refuses '
                          '%d of %d descriptions — it no longer exists in the form the harness drives, or dies: %s' % (n_refused, n_desc, why))
    with concurrent.futures.ThreadPoolExecutor(max_workers=8) as ex:
        results = list(ex.map(lambda c: process(env, c), ready))
    ctx.log('compiled / walked / traced %d GIRs' % len(results))

    # ---- the statement oracle, every case
    seen = set()
    new_failures = []
    n_judged = 0
    for r in results:
        cnt.hit('case:%s' % r['origin'])
        verdict, probs = judge_case(r, state_names)
        if verdict == 'outside':
            cnt.hit('outside:%s' % probs)
            continue
        n_judged += 1
        clean = not probs
        cnt.hit('judged:%s' % ('clean' if clean else 'fails'))
        cnt.hit('compiler:%s' % ('ok' if r['rc'] == 0 and not r['err'].strip() else 'warns' if r['rc'] == 0 else 'fails'))
        cnt.case(['gir', r['gir']], nontrivial=(r['rc'] == 0))
        try:
            root = ET.fromstring(r['gir'].encode('utf-8'))
            for e in root.iter():
                cnt.hit('element:%s' % local(e.tag))
                if e.get('introspectable') == '0':
                    cnt.hit('hidden:%s' % local(e.tag))
            if True:
                for w in writer_only_shapes(root)[:1]:
                    if 'writer-only' not in seen:
                        seen.add('writer-only')
                        ctx.broken.append('hypothesis writerOnlyOffences / writerOnlyValueOffences of Props/C15.lean no longer holds: a scanner output has %s (%s %s)'
                                          % (w, r['origin'], r['name']))
        except ET.ParseError:
            pass
        for key, msg in probs:
            cnt.hit('finding:%s' % key)
            if key in seen:
                continue
            seen.add(key)
            what = '%s [%s %s]' % (msg, r['origin'], r['name'])
            if key in PENDING_FINDINGS:
                ctx.report_failure(key, PENDING_FINDINGS[key] + ' — e.g. ' + what, replay_of(r, key))
            else:
                new_failures.append((key, what, r))
        if r.get('finding') is not None:
            # a corpus case kept for one finding: say so when the real code no longer shows it (repaired?)
            cnt.hit('corpus:finding-%s' % ('reproduced' if any(k == r['finding'] for k, _ in probs) else 'NOT-reproduced:' + r['finding']))

    # ---- failing-input search around new failures: shrink the description while the failure persists
    for key, what, r in new_failures[:6]:
        small = r
        budget = [ctx.n(90, 400)]          # scanner + compiler runs spent on shrinking this one failure
        if r.get('cfg') is not None and budget[0] > 0:
            try:
                small = shrink_cfg(env, r, key, state_names, budget)
            except Exception as e:  # noqa: the search must not hide the failure itself
                small = r
            cnt.hit('search:shrunk')
        ctx.report_failure(key, what, replay_of(small, key))
    for key, what, r in new_failures[6:]:
        ctx.report_failure(key, what, replay_of(r, key))

    # ---- correspondence: the Lean state machine against the real start/end_element_handler
    n_trace = 0
    n_diff = 0
    if env.states and contract is not None:
        trace_cases = [r for r in results if r.get('trace')]
        n_mut = ctx.n(120, 2500)
        muts = []
        pool = [r for r in results if r['origin'] in ('generated', 'corpus') and r['rc'] in (0, 1)]
        for k in range(n_mut):
            if not pool:
                break
            src = rng.choice(pool)
            t = mutate_gir(rng, src['gir'])
            if t is not None:
                muts.append({'origin': 'mutant', 'name': 'm%d-of-%s' % (k, src['name']), 'gir': t})
        # elements grafted where the writer never puts them (states no scanner output reaches)
        for gi, graft in enumerate(GRAFTS * ctx.n(1, 6)):
            for _try in range(12):
                src = rng.choice(pool) if pool else None
                t = mutate_gir(rng, src['gir'], graft) if src else None
                if t is not None:
                    muts.append({'origin': 'mutant', 'name': 'graft%d-%s-in-%s-of-%s' % (gi, graft[1], graft[0], src['name']), 'gir': t})
                    break

        def trace_only(c):
            ns, ver = ns_of(c['gir'])
            d = env.casedir()
            gp = os.path.join(d, '%s-%s.gir' % (ns, ver))
            with open(gp, 'w', encoding='utf-8') as f:
                f.write(c['gir'])
            try:
                c['trace'] = env.trace(gp, [])
            except subprocess.TimeoutExpired:
                c['trace'] = None
            return c
        with concurrent.futures.ThreadPoolExecutor(max_workers=8) as ex:
            muts = list(ex.map(trace_only, muts))
        trace_cases += [m for m in muts if m.get('trace')]
        reqs = []
        for r in trace_cases:
            try:
                reqs.append({'op': 'c15.trace', 'events': gir_events(r['gir'])})
            except Exception:  # noqa: expat refuses the text: GMarkup will too, nothing to compare
                reqs.append({'op': 'c15.trace', 'events': []})
        try:
            answers = ctx.driver.batch(reqs)
        except HarnessError as e:
            ctx.broken.append('model driver failed: %s' % str(e)[-400:])
            answers = []
        for r, m in zip(trace_cases, answers):
            n_trace += 1
            d = trace_compare(r, m, state_names)
            real_rows = r['trace'][0]
            cnt.hit('trace:events', len(m['rows']))
            cnt.hit('trace:%s:%s' % (r['origin'], 'model-error' if m['error'] else
                                     'real-stopped-early' if len(real_rows) < len(m['rows']) else 'complete'))
            for row in m['rows']:
                cnt.hit('trace:state:%s' % row[0])
            if d is not None:
                n_diff += 1
                if n_diff <= 3:
                    ctx.broken.append('correspondence c15.trace differs (%s %s): %s' % (r['origin'], r['name'], d))
        cnt.hit('trace:cases', n_trace)
        cnt.hit('trace:disagreements', n_diff)
    ctx.log('state machine traced on %d documents, %d disagreements' % (n_trace, n_diff))

    dist = {k: v for k, v in cnt.counts.items()}
    dist.update({'feature:' + k: v for k, v in sorted(feature_hits.items())})
    samples = []
    for r in results[:1] + [x for x in results if x['origin'] == 'generated'][:2]:
        samples.append({'origin': r['origin'], 'name': r['name'], 'rc': r['rc'], 'stderr': r['err'][-200:], 'gir_head': r['gir'][:700]})
    ctx.coverage.update({
        'evaluations': len(results) + n_trace,
        'distinct_nontrivial': cnt.n_distinct(),
        'rule': 'corpus (one description per known finding + edge cases), the expected GIRs of tests/scanner, then seeded API '
                'descriptions (enums/bitfields, constants, aliases, callbacks, records/unions with nested and anonymous members, '
                'boxed types, functions/methods/constructors with annotated parameters, classes and interfaces with properties, '
                'signals, vfuncs through a generated runtime dump, shadowing pairs, macros, doc sections) through the REAL scanner '
                'pipeline; every GIR through the REAL g-ir-compiler and the repository API (cdrivers/c15_walk.c); oracle from the '
                'statement: exit 0, empty stderr, validates, loads, every introspectable element present with the GIR\'s flags, '
                'non-introspectable ones absent. State machine: real start/end_element_handler (cdrivers/c15_states.c) against the '
                'Lean model on every GIR and on one-edit mutants. non-trivial = compiled; distinct by GIR text.',
        'samples': samples,
        'distribution': dist,
        'corpus_cases': len(corpus),
        'judged': n_judged,
        'exhaustive': False,
        'pending_findings': sorted(PENDING_FINDINGS),
        'contract': {k: contract[k] for k in ('offences', 'unfetched', 'off_values', 'not_in_schema')} if contract else None,
    })
    ctx.assumptions.extend([
        'the C lexer/parser of the scanner is not run: API descriptions enter the pipeline as the symbol stream it would deliver (scanpipe)',
        'GLib/GObject/Gio are stand-in GIRs written for this harness (the real ones are built by meson); expected GIRs of '
        'tests/scanner that need more of them than the stand-ins have are counted outside:standin-gap',
        'the GIR -> typelib mapping is validated by decode-and-compare through the public repository API, not proved',
        'the vocabulary contract is proved on number-coded grouped tables; that they are the coding of the string tables is '
        'evaluated by the compiled driver on every run (tables_coded)',
        'flags compared are those the repository API exposes; c:type, doc, version, stability and other GIR-only data are not in a typelib',
        'the type of a field / parameter / return value is not compared (C06 does); in particular a function pointer member of a '
        'union is a gpointer field in the typelib (only record and class fields can embed a callback)',
        'hypothesis of the contract theorems: no scanner output has records/unions inside <interface>, nor an '
        '<instance-parameter> with a transfer-ownership other than none/full (checked on every GIR)',
        'glib:signal when="must-collect" (written by gdump.c for a signal that names none of the three run phases): it is not a run '
        'phase, SignalBlob has no bit for G_SIGNAL_MUST_COLLECT and must name exactly one phase, so the oracle expects the default '
        'phase, as for a signal without `when`: run_last',
        'a method is expected to be flagged getter/setter of a property only when that property is introspectable (present) in the '
        'same class or interface',
        'the repository API answers for parameters: allow-none="1" is only the legacy spelling; where nullable/optional are written '
        'the oracle compares exactly those two',
    ])


def replay(ctx, rep):
    register_pending(ctx)
    r = rep.get('replay') or {}
    if r.get('kind') not in ('cfg', 'gir'):
        print('nothing to replay (the failure was a proof / correspondence break): %r' % (rep.get('no_longer_checks'),))
        return 2
    env = Env(ctx)
    try:
        state_names = ctx.driver.call('c15.contract')['states']
    except HarnessError:
        state_names = []
    case = {'origin': 'replay', 'name': r.get('name'), 'standin_deps': r.get('standin_deps', False)}
    if r['kind'] == 'cfg':
        gir, nwarn, why = scan_cfg(r['cfg'], env)
        if gir is None:
            print('the scanner refuses the description: %s' % why)
            return 0
        case['gir'], case['cfg'] = gir, r['cfg']
    else:
        case['gir'] = r['gir']
    res = process(env, case)
    print('g-ir-compiler rc=%r stderr=%s' % (res['rc'], res['err'].strip()[-400:]))
    verdict, probs = judge_case(res, state_names)
    if verdict == 'outside':
        print('outside the property: %s' % probs)
        return 0
    hit = False
    want = r.get('finding')
    for key, msg in probs:
        print('%s %s: %s' % ('FAILS' if key not in PENDING_FINDINGS or key == want else 'PENDING', key, msg[:500]))
        if key not in PENDING_FINDINGS or key == want:
            hit = True
    if want:
        print('finding %s %s' % (want, 'REPRODUCED' if any(k == want for k, _ in probs) else 'not reproduced'))
    return 1 if hit else 0
