"""Common machinery for all property checks (DESIGN.md Part A).

A check is a Python module harness/cXX.py exposing `run(ctx)`.  `ctx` (class Ctx)
gives it: the seeded RNG, a scratch directory outside /repo and /verif, the Lean
build + axiom audit, the compiled model driver, violation / known-finding
reporting and the evidence writer.

Exit codes: 0 = property held on everything explored; 1 = violation (a line
`VIOLATION property=<id> replay=<path>` was printed); 2 = harness error/timeouts.
"""
import contextlib
import fcntl
import hashlib
import json
import os
import random
import re
import shutil
import subprocess
import sys
import tempfile
import time
import traceback

VERIF = os.path.dirname(os.path.dirname(os.path.abspath(__file__)))
REPO = os.environ.get('GIVERIF_REPO', '/repo')
LEAN_DIR = os.path.join(VERIF, 'lean')
PYTHON = '/venv/bin/python'
ALLOWED_AXIOMS = {'propext', 'Classical.choice', 'Quot.sound'}
FORBIDDEN = re.compile(r'\b(sorry|admit|native_decide|bv_decide|implemented_by|unsafe)\b|^\s*axiom\s|maxHeartbeats\s+0\b',
                       re.M)

TRUSTED_BASE_COMMON = [
    'Lean 4.33.0 kernel (theorems re-checked by `lake build` on every run)',
    'axioms allowed: propext, Classical.choice, Quot.sound (audited with #print axioms on every run)',
    'Lean compiler for executing the models in the compiled driver (gidriver)',
    'translators/*.py transcribing tables from /repo sources into lean/GIVerif/Gen/*.lean',
    'the correspondence harness (sampling): it is what ties the hand-written model to the real code',
]


class HarnessError(Exception):
    pass


_lock_depth = [0]


@contextlib.contextmanager
def lake_lock():
    """Serialise everything that reads or writes lean/.lake or lean/GIVerif/Gen
    (re-entrant within one process)."""
    if _lock_depth[0] > 0:
        _lock_depth[0] += 1
        try:
            yield
        finally:
            _lock_depth[0] -= 1
        return
    path = os.path.join(LEAN_DIR, '.giverif.lock')
    with open(path, 'w') as f:
        fcntl.flock(f, fcntl.LOCK_EX)
        _lock_depth[0] = 1
        try:
            yield
        finally:
            _lock_depth[0] = 0
            fcntl.flock(f, fcntl.LOCK_UN)


def strip_lean_comments(text):
    """Remove -- line comments and /- -/ block comments (nesting-aware, string-unaware
    is fine for an audit that only needs to avoid false hits inside comments)."""
    out = []
    i = 0
    depth = 0
    n = len(text)
    while i < n:
        if text.startswith('/-', i):
            depth += 1
            i += 2
        elif depth and text.startswith('-/', i):
            depth -= 1
            i += 2
        elif depth:
            if text[i] == '\n':
                out.append('\n')
            i += 1
        elif text.startswith('--', i):
            while i < n and text[i] != '\n':
                i += 1
        else:
            out.append(text[i])
            i += 1
    return ''.join(out)


def import_closure(modules):
    """paths of all project-local Lean files (GIVerif.*, Driver.*) reachable through `import` from the
    given modules"""
    seen = {}
    todo = list(modules)
    while todo:
        m = todo.pop()
        if m in seen:
            continue
        path = os.path.join(LEAN_DIR, m.replace('.', '/') + '.lean')
        if not os.path.exists(path):
            continue
        seen[m] = path
        with open(path, encoding='utf-8') as f:
            for line in f:
                mm = re.match(r'\s*(?:public\s+)?import\s+((?:GIVerif|Driver)\.[A-Za-z0-9_.]+)', line)
                if mm:
                    todo.append(mm.group(1))
    return set(seen.values())


class Driver(object):
    """The compiled Lean model driver: one JSON object per line in, one per line out."""

    def __init__(self, prop):
        self.bin = os.path.join(LEAN_DIR, '.lake', 'build', 'bin', 'gidriver_' + prop.lower())
        if not os.path.exists(self.bin):
            raise HarnessError('model driver not built: %s' % self.bin)
        self.calls = 0
        self.prop = prop
        self.sample = []           # (request line, answer line) pairs kept for the interpreter cross-check

    def batch(self, requests):
        """Run many requests through one driver process; returns list of results
        (the value under "r"); raises HarnessError on a driver-level error."""
        if not requests:
            return []
        data = ''.join(json.dumps(r, ensure_ascii=True) + '\n' for r in requests)
        p = subprocess.run([self.bin], input=data.encode('ascii'), stdout=subprocess.PIPE,
                           stderr=subprocess.PIPE, timeout=3600)
        if p.returncode != 0:
            raise HarnessError('driver exited %d: %s' % (p.returncode, p.stderr.decode('utf-8', 'replace')[:2000]))
        lines = p.stdout.decode('utf-8').splitlines()
        # Lean's putStrLn never emits raw U+2028 etc. unescaped? compress escapes only what JSON needs,
        # so split strictly on \n instead of splitlines()
        lines = p.stdout.decode('utf-8').split('\n')
        if lines and lines[-1] == '':
            lines.pop()
        if len(lines) != len(requests):
            raise HarnessError('driver answered %d lines for %d requests' % (len(lines), len(requests)))
        out = []
        if len(self.sample) < 240:
            reqlines = data.split('\n')
            step = max(1, len(requests) // 24)
            for i in range(0, len(requests), step):
                if len(reqlines[i]) < 20000 and len(self.sample) < 240:
                    self.sample.append((reqlines[i], lines[i]))
        for req, line in zip(requests, lines):
            j = json.loads(line)
            if 'driver_error' in j:
                raise HarnessError('driver error on %r: %s' % (req, j['driver_error']))
            out.append(j['r'])
        self.calls += len(requests)
        return out

    def call(self, op, **args):
        args['op'] = op
        return self.batch([args])[0]

    def interpreter_crosscheck(self):
        """Trusted-base check (thorough tier): the compiled driver trusts the Lean compiler for
        executing the model, so a sample of this run's request lines is also evaluated by the Lean
        interpreter (`lake env lean --run Driver/Cxx.lean`) and the answers are compared.  A difference
        is a fault of the tool chain, not of /repo: it is a harness error, never a violation."""
        if not self.sample:
            return {'lines': 0}
        data = ''.join(r + '\n' for r, _ in self.sample)
        t0 = time.time()
        try:
            p = subprocess.run(['lake', 'env', 'lean', '--run', 'Driver/%s.lean' % self.prop], cwd=LEAN_DIR,
                               input=data.encode('ascii'), stdout=subprocess.PIPE, stderr=subprocess.PIPE,
                               timeout=600)
        except subprocess.TimeoutExpired:
            return {'lines': len(self.sample), 'result': 'interpreter timed out after 600 s (not judged)'}
        if p.returncode != 0:
            # e.g. the interpreter's stack is smaller than the compiled driver's: not a disagreement
            return {'lines': len(self.sample), 'result': 'interpreter exited %d (not judged): %s'
                    % (p.returncode, p.stderr.decode('utf-8', 'replace')[:300])}
        lines = p.stdout.decode('utf-8').split('\n')
        if lines and lines[-1] == '':
            lines.pop()
        if len(lines) != len(self.sample):
            raise HarnessError('interpreter answered %d lines for %d requests' % (len(lines), len(self.sample)))
        for (req, want), got in zip(self.sample, lines):
            if json.loads(want) != json.loads(got):
                raise HarnessError('compiled driver and Lean interpreter disagree on %s: %s vs %s'
                                   % (req[:500], want[:300], got[:300]))
        return {'lines': len(self.sample), 'result': 'identical', 'wall_s': round(time.time() - t0, 1)}


class KnownList(list):
    """The known findings of one property, as listed in known_findings.json.  A check never adds to
    that list at run time: `append` of a key the file does not list is refused (and remembered in
    `refused`), so such a failure is reported as a VIOLATION.  While a check is being developed the
    untracked marker file /verif/.dev-pending-ok makes `append` work (harness-local PENDING_FINDINGS);
    it is never present in a committed tree."""

    def __init__(self, items):
        list.__init__(self, items)
        self.refused = []
        self.dev = os.path.exists(os.path.join(VERIF, '.dev-pending-ok'))

    def append(self, entry):
        if any(e.get('key') == entry.get('key') and e.get('status', 'known') == 'known' for e in self):
            return
        if self.dev:
            list.append(self, entry)
        else:
            self.refused.append(entry.get('key'))


class Ctx(object):
    def __init__(self, prop, tier, seed, replay=None):
        self.prop = prop
        self.tier = tier
        self.seed = seed
        self.replay = replay
        self.rng = random.Random(seed * 1000003 + int(prop[1:]))
        self.t0 = time.time()
        self.scratch = tempfile.mkdtemp(prefix='giverif.%s.' % prop, dir=os.environ.get('TMPDIR', '/var/tmp'))
        self.violations = []       # list of dicts
        self.known_hits = []
        self.notes = []
        self.coverage = {}
        self.assumptions = []
        self.proof = None          # dict from build_and_audit
        self.broken = []           # names of theorems / correspondences that no longer check
        self._driver = None
        self.known = KnownList(load_known_findings().get(prop, []))

    # ---- infrastructure -------------------------------------------------
    @property
    def driver(self):
        if self._driver is None:
            self._driver = Driver(self.prop)
        return self._driver

    def cleanup(self):
        shutil.rmtree(self.scratch, ignore_errors=True)

    def quick(self):
        return self.tier == 'quick'

    def n(self, quick, thorough):
        return quick if self.tier == 'quick' else thorough

    def log(self, msg):
        print('[%s %s +%.1fs] %s' % (self.prop, self.tier, time.time() - self.t0, msg), flush=True)

    # ---- Lean side ------------------------------------------------------
    def run_translators(self, names):
        """Regenerate lean/GIVerif/Gen/*.lean from /repo's current working tree."""
        outs = []
        with lake_lock():
            for name in names:
                p = subprocess.run([PYTHON, os.path.join(VERIF, 'translators', name + '.py')],
                                   cwd=os.path.join(VERIF, 'translators'),
                                   stdout=subprocess.PIPE, stderr=subprocess.STDOUT, timeout=600,
                                   env=dict(os.environ, GIVERIF_REPO=REPO, PYTHONPATH=REPO,
                                            PYTHONDONTWRITEBYTECODE='1'))
                out = p.stdout.decode('utf-8', 'replace')
                outs.append({'translator': name, 'exit': p.returncode, 'output': out.strip()[-600:]})
                if p.returncode != 0:
                    self.broken.append('translator %s failed (source no longer has the shape it reads): %s'
                                       % (name, out.strip()[-400:]))
        return outs

    def build_and_audit(self, modules, props_module, extra_targets=None):
        """`lake build` the property's modules and the driver, grep for forbidden
        constructs, and `#print axioms` every theorem of the Props module.
        Fills self.proof; appends to self.broken what no longer checks."""
        res = {'modules': list(modules), 'theorems': {}, 'build_ok': False, 'forbidden': [],
               'build_log_tail': ''}
        if extra_targets is None:
            extra_targets = ('gidriver_' + self.prop.lower(),)
        with lake_lock():
            # the driver first: even if a proof breaks we still need the executable model
            for tgt in extra_targets:
                p = subprocess.run(['lake', 'build', tgt], cwd=LEAN_DIR, stdout=subprocess.PIPE,
                                   stderr=subprocess.STDOUT, timeout=3000)
                if p.returncode != 0:
                    tail = p.stdout.decode('utf-8', 'replace')[-3000:]
                    self.broken.append('lake build %s failed: %s' % (tgt, tail[-800:]))
                    res['build_log_tail'] = tail
            p = subprocess.run(['lake', 'build'] + list(modules), cwd=LEAN_DIR, stdout=subprocess.PIPE,
                               stderr=subprocess.STDOUT, timeout=3000)
            log = p.stdout.decode('utf-8', 'replace')
            res['build_ok'] = p.returncode == 0
            if p.returncode != 0:
                res['build_log_tail'] = log[-3000:]
                errs = re.findall(r'error: (\S+\.lean):(\d+):\d+: (.*)', log)
                failing = sorted(set('%s:%s' % (f, l) for f, l, _ in errs))
                self.broken.append('proof obligations no longer check (lake build %s): %s'
                                   % (' '.join(modules), ', '.join(failing[:10]) or log[-400:]))
            # forbidden constructs in every source file this property's theorems depend on
            # (the import closure of the Props module inside the project)
            for path in sorted(import_closure(list(modules) + [props_module])):
                with open(path, encoding='utf-8') as f:
                    body = strip_lean_comments(f.read())
                for m in FORBIDDEN.finditer(body):
                    res['forbidden'].append('%s: %s' % (os.path.relpath(path, LEAN_DIR), m.group(0).strip()))
            if res['forbidden']:
                self.broken.append('forbidden constructs in Lean sources: %s' % res['forbidden'][:5])
            # theorem names of the Props module
            props_path = os.path.join(LEAN_DIR, props_module.replace('.', '/') + '.lean')
            with open(props_path, encoding='utf-8') as f:
                body = strip_lean_comments(f.read())
            ns = re.search(r'^namespace\s+(\S+)', body, re.M)
            ns = ns.group(1) + '.' if ns else ''
            names = re.findall(r'^\s*theorem\s+([A-Za-z0-9_\.\']+)', body, re.M)
            res['examples'] = len(re.findall(r'^\s*example\b', body, re.M))
            if res['build_ok'] and names:
                audit = os.path.join(self.scratch, 'Audit.lean')
                with open(audit, 'w') as f:
                    f.write('import %s\n' % props_module)
                    for nm in names:
                        f.write('#print axioms %s%s\n' % (ns, nm))
                p = subprocess.run(['lake', 'env', 'lean', audit], cwd=LEAN_DIR, stdout=subprocess.PIPE,
                                   stderr=subprocess.STDOUT, timeout=1200)
                out = p.stdout.decode('utf-8', 'replace')
                for m in re.finditer(r"'([^']+)' (does not depend on any axioms|depends on axioms: \[([^\]]*)\])", out):
                    axs = [a.strip() for a in (m.group(3) or '').split(',') if a.strip()]
                    res['theorems'][m.group(1)] = axs
                for nm in names:
                    full = ns + nm
                    if full not in res['theorems']:
                        self.broken.append('axiom audit produced no answer for %s: %s' % (full, out[-300:]))
                    else:
                        bad = [a for a in res['theorems'][full] if a not in ALLOWED_AXIOMS]
                        if bad:
                            self.broken.append('theorem %s depends on disallowed axioms %s' % (full, bad))
            else:
                for nm in names:
                    res['theorems'].setdefault(ns + nm, None)
        res['obligations'] = len(names)
        res['discharged'] = len([1 for nm in names
                                 if res['theorems'].get(ns + nm) is not None
                                 and all(a in ALLOWED_AXIOMS for a in res['theorems'][ns + nm])]) \
            if res['build_ok'] and not res['forbidden'] else 0
        self.proof = res
        return res

    def prove(self, translators, modules, props_module):
        """Regenerate the tables from /repo, rebuild and audit the proofs, all in one critical
        section (so that a concurrent check of another tree cannot swap the tables in between).
        In the thorough tier the compiled modules are also re-checked with leanchecker."""
        with lake_lock():
            tr = self.run_translators(translators)
            res = self.build_and_audit(modules, props_module)
            if self.tier == 'thorough' and res['build_ok']:
                self.leanchecker(modules)
        self.coverage['translators'] = tr
        return res

    def leanchecker(self, modules):
        """thorough tier: re-check compiled .olean files with the independent checker."""
        with lake_lock():
            p = subprocess.run(['lake', 'env', 'leanchecker'] + list(modules), cwd=LEAN_DIR,
                               stdout=subprocess.PIPE, stderr=subprocess.STDOUT, timeout=3000)
        ok = p.returncode == 0
        if not ok:
            self.broken.append('leanchecker rejected %s: %s' % (modules, p.stdout.decode('utf-8', 'replace')[-400:]))
        return ok

    # ---- reporting ------------------------------------------------------
    def is_known(self, key):
        for k in self.known:
            if k.get('status', 'known') == 'known' and k['key'] == key:
                return k
        return None

    def report_failure(self, key, what, replay):
        """A concrete input on which the property fails on the real code.
        `key` identifies the failing input (or call site) for known_findings.json."""
        k = self.is_known(key)
        if k is not None:
            if key not in [h['key'] for h in self.known_hits]:
                self.known_hits.append({'key': key, 'what': k.get('what', what)})
            return
        if any(v['key'] == key for v in self.violations):
            return
        if len(self.violations) < 20:
            self.violations.append({'key': key, 'what': what, 'replay': replay})

    def finish(self):
        """Print verdict lines, write evidence, return the exit code."""
        os.makedirs(os.path.join(VERIF, 'evidence', 'replay'), exist_ok=True)
        for h in self.known_hits:
            print('KNOWN-FINDING: property=%s %s [%s]' % (self.prop, h['what'], h['key']))
        code = 0
        nviol = 0
        if self.violations:
            for v in self.violations[:5]:
                digest = hashlib.sha256(json.dumps(v['replay'], sort_keys=True, default=str).encode()).hexdigest()[:12]
                path = os.path.join('evidence', 'replay', '%s-%s.json' % (self.prop, digest))
                with open(os.path.join(VERIF, path), 'w') as f:
                    json.dump({'property': self.prop, 'key': v['key'], 'what': v['what'],
                               'replay': v['replay'], 'broken': self.broken, 'seed': self.seed,
                               'tier': self.tier}, f, indent=1, default=str)
                print('VIOLATION property=%s replay=%s' % (self.prop, path))
                print('  ' + v['what'][:600])
                nviol += 1
            code = 1
        elif self.broken:
            digest = hashlib.sha256(json.dumps(self.broken).encode()).hexdigest()[:12]
            path = os.path.join('evidence', 'replay', '%s-unproved-%s.json' % (self.prop, digest))
            with open(os.path.join(VERIF, path), 'w') as f:
                json.dump({'property': self.prop, 'no_failing_input_found': True,
                           'no_longer_checks': self.broken, 'seed': self.seed, 'tier': self.tier,
                           'search': self.coverage.get('rule', '')}, f, indent=1)
            print('VIOLATION property=%s replay=%s no-failing-input-found' % (self.prop, path))
            for b in self.broken[:5]:
                print('  no longer checks: ' + b[:600])
            nviol = 1
            code = 1
        if self.tier == 'thorough' and self._driver is not None and not self.replay:
            self.coverage['interpreter_crosscheck'] = self._driver.interpreter_crosscheck()
        self.write_evidence(nviol)
        return code

    def write_evidence(self, nviol):
        cov = dict(self.coverage)
        pr = self.proof or {}
        cov.setdefault('obligations', pr.get('obligations', 0))
        cov.setdefault('discharged', pr.get('discharged', 0))
        cov.setdefault('checker_cmd', 'cd lean && lake build %s && lake env lean <#print axioms for every theorem>'
                       % ' '.join(pr.get('modules', [])))
        cov.setdefault('trusted_base', TRUSTED_BASE_COMMON)
        cov['theorems'] = pr.get('theorems', {})
        cov['non_vacuity_examples'] = pr.get('examples', 0)
        cov['no_longer_checks'] = self.broken
        cov['known_findings_hit'] = self.known_hits
        cov.setdefault('evaluations', 0)
        cov.setdefault('distinct_nontrivial', 0)
        cov.setdefault('samples', [])
        ev = {
            'property_id': self.prop,
            'tier': self.tier,
            'seed': self.seed,
            'level': 'proof',
            'coverage': cov,
            'assumptions': self.assumptions,
            'wall_s': round(time.time() - self.t0, 2),
            'violations': nviol,
        }
        os.makedirs(os.path.join(VERIF, 'evidence'), exist_ok=True)
        path = os.path.join(VERIF, 'evidence', '%s.json' % self.prop)
        tmp = path + '.tmp.%d' % os.getpid()
        with open(tmp, 'w') as f:
            json.dump(ev, f, indent=1, default=str)
        os.replace(tmp, path)


def load_known_findings():
    path = os.path.join(VERIF, 'known_findings.json')
    if not os.path.exists(path):
        return {}
    with open(path) as f:
        data = json.load(f)
    out = {}
    for e in data.get('findings', []):
        out.setdefault(e['property'], []).append(e)
    return out


class Counter(object):
    """Distribution bookkeeping for the evidence: counts per label + distinct cases."""

    def __init__(self):
        self.counts = {}
        self.distinct = set()

    def hit(self, label, n=1):
        self.counts[label] = self.counts.get(label, 0) + n

    def case(self, obj, nontrivial=True):
        if nontrivial:
            self.distinct.add(hashlib.sha1(json.dumps(obj, sort_keys=True, default=str).encode()).digest())

    def n_distinct(self):
        return len(self.distinct)


def main(argv):
    import importlib
    if len(argv) < 2:
        print('usage: check Cxx quick|thorough [--replay FILE]')
        return 2
    prop = argv[1]
    tier = 'quick'
    replay = None
    args = argv[2:]
    while args:
        a = args.pop(0)
        if a in ('quick', 'thorough'):
            tier = a
        elif a == '--replay':
            replay = args.pop(0)
        else:
            print('unknown argument', a)
            return 2
    tier = os.environ.get('VERIF_TIER', tier) if tier == 'quick' and 'VERIF_TIER' in os.environ and False else tier
    try:
        seed = int(os.environ.get('VERIF_SEED', '0'))
    except ValueError:
        seed = 0
    sys.path.insert(0, os.path.join(VERIF, 'harness'))
    sys.path.insert(0, os.path.join(VERIF, 'translators'))
    ctx = Ctx(prop, tier, seed, replay)
    try:
        mod = importlib.import_module(prop.lower())
        if replay:
            with open(replay if os.path.isabs(replay) else os.path.join(VERIF, replay)) as f:
                rep = json.load(f)
            return mod.replay(ctx, rep)
        mod.run(ctx)
        return ctx.finish()
    except HarnessError as e:
        print('HARNESS-ERROR property=%s %s' % (prop, e))
        traceback.print_exc()
        return 2
    except subprocess.TimeoutExpired as e:
        print('HARNESS-TIMEOUT property=%s %s' % (prop, e))
        return 2
    except Exception as e:  # noqa
        print('HARNESS-ERROR property=%s %r' % (prop, e))
        traceback.print_exc()
        return 2
    finally:
        ctx.cleanup()


if __name__ == '__main__':
    sys.exit(main(sys.argv))
